"""E2: the same contract text executed natively on the real function.

Uses: replay of solver counter-models, search for a failing input when the proof of an
obligation is refuted/undecided, bounded stand-in (labelled bounded, never counted as
proved), and cross-check of the contracts against CPython.
"""
import ast
import copy
import itertools
import signal

from . import ty as T


class Timeout(Exception):
    pass


def _alarm(signum, frame):
    raise Timeout()


def call_with_timeout(fn, args, kwargs=None, seconds=5):
    old = signal.signal(signal.SIGALRM, _alarm)
    signal.setitimer(signal.ITIMER_REAL, seconds)
    try:
        return fn(*args, **(kwargs or {}))
    finally:
        signal.setitimer(signal.ITIMER_REAL, 0)
        signal.signal(signal.SIGALRM, old)


# ------------------------------------------------------------------ native evaluation of contract text
def psum(xs, i):
    return sum(xs[:i]) if i > 0 else 0


class _Implies:
    pass


def _rewrite(src):
    """old(e) -> __old__[k] ; implies(a, b) -> ((not a) or b) (lazy)."""
    tree = ast.parse(src.strip(), mode="eval")
    olds = []

    class R(ast.NodeTransformer):
        def visit_Call(self, node):
            self.generic_visit(node)
            if isinstance(node.func, ast.Name) and node.func.id == "old":
                olds.append(ast.unparse(node.args[0]))
                return ast.Subscript(value=ast.Name(id="__old__", ctx=ast.Load()), slice=ast.Constant(len(olds) - 1), ctx=ast.Load())
            if isinstance(node.func, ast.Name) and node.func.id == "implies":
                return ast.BoolOp(op=ast.Or(), values=[ast.UnaryOp(op=ast.Not(), operand=node.args[0]), node.args[1]])
            return node

    tree = ast.fix_missing_locations(R().visit(tree))
    return compile(tree, "<contract>", "eval"), olds


_cache = {}


def compile_clause(src):
    if src not in _cache:
        _cache[src] = _rewrite(src)
    return _cache[src]


BASE_NS = {"psum": psum, "len": len, "sum": sum, "all": all, "any": any, "range": range, "min": min, "max": max,
           "abs": abs, "set": set, "sorted": sorted, "tuple": tuple, "list": list, "isinstance": isinstance, "slice": slice}


def eval_clause(src, ns, old_ns=None, extra=None):
    code, olds = compile_clause(src)
    env = dict(BASE_NS)
    if extra:
        env.update(extra)
    env.update(ns)
    if olds:
        oenv = dict(BASE_NS)
        if extra:
            oenv.update(extra)
        oenv.update(old_ns or {})
        env["__old__"] = [eval(compile(ast.parse(o, mode="eval"), "<old>", "eval"), oenv) for o in olds]
    return bool(eval(code, env))


class Failure:
    def __init__(self, func, args, kind, label, detail=""):
        self.func = func
        self.args = args
        self.kind = kind  # 'ensures' | 'raises' | 'exception' | 'timeout' | 'invariant'
        self.label = label
        self.detail = detail

    def to_json(self):
        return {"function": self.func, "args": _jsonable(self.args), "args_repr": repr(self.args), "kind": self.kind, "clause": self.label, "detail": self.detail[:2000]}


def _jsonable(x):
    if isinstance(x, dict):
        return {str(k): _jsonable(v) for k, v in x.items()}
    if isinstance(x, (list, tuple)):
        return [_jsonable(v) for v in x]
    if isinstance(x, (set, frozenset)):
        return sorted((_jsonable(v) for v in x), key=repr)
    if isinstance(x, slice):
        return {"slice": [x.start, x.stop, x.step]}
    if isinstance(x, (int, float, str, bool)) or x is None:
        return x
    return repr(x)


def check_call(contract, fn, args, extra=None, timeout=5, post_hook=None):
    """Run the real `fn` on `args` (dict param->value) under the contract.  -> None | Failure.
    Inputs that do not satisfy `requires` return the string 'pre'."""
    ns = dict(args)
    try:
        for label, src in contract.requires:
            if not eval_clause(src, ns, extra=extra):
                return "pre"
    except Exception:
        return "pre"
    old_ns = copy.deepcopy(ns)
    call_args = copy.deepcopy(args)
    try:
        res = call_with_timeout(fn, [], call_args, seconds=timeout)
    except Timeout:
        return Failure(contract.qualname, args, "timeout", "terminates", f"no result after {timeout}s")
    except BaseException as e:  # noqa
        name = type(e).__name__
        for exc, when, label in contract.raises:
            if any(c.__name__ == exc for c in type(e).__mro__):
                try:
                    ok = eval_clause(when, old_ns, extra=extra)
                except Exception as e2:
                    return Failure(contract.qualname, args, "raises", label, f"raises-clause not evaluable: {e2!r}")
                if ok:
                    return None
                return Failure(contract.qualname, args, "raises", label, f"{name}: {e} raised although `{when}` is false")
        return Failure(contract.qualname, args, "exception", name, f"{name}: {e}")
    post = dict(call_args)
    post["result"] = res
    for label, src in contract.ensures:
        try:
            ok = eval_clause(src, post, old_ns, extra=extra)
        except Exception as e:
            return Failure(contract.qualname, args, "ensures", label, f"clause raised {e!r}; result={res!r}")
        if not ok:
            return Failure(contract.qualname, args, "ensures", label, f"`{src}` is false; result={res!r}")
    if post_hook is not None:
        msg = post_hook(old_ns, post)
        if msg:
            return Failure(contract.qualname, args, "ensures", "hook", msg)
    return None


# ------------------------------------------------------------------ bounded enumeration from spec types
def enum_type(ty, b):
    """All values of spec type `ty` within bound b (dict: int_lo, int_hi, max_len, universe...)."""
    if ty == T.Int:
        return list(range(b.get("int_lo", -1), b.get("int_hi", 4) + 1))
    if ty == T.Bool:
        return [False, True]
    if isinstance(ty, T.TNone):
        return [None]
    if isinstance(ty, T.Opt):
        return [None] + enum_type(ty.inner, b)
    if isinstance(ty, T.Enum):
        return list(ty.values)
    if isinstance(ty, T.U):
        return list(b.get("universe", {}).get(ty.name, ["a", "b", "c"]))
    if isinstance(ty, T.Seq):
        elems = enum_type(ty.elem, b.get("elem", b))
        out = []
        for n in range(b.get("min_len", 0), b.get("max_len", 3) + 1):
            out.extend(tuple(c) for c in itertools.product(elems, repeat=n))
        return out
    if isinstance(ty, T.Tup):
        return [tuple(c) for c in itertools.product(*[enum_type(t, b) for t in ty.items])]
    if isinstance(ty, T.Rec) and ty.name == "slice":
        o = enum_type(T.Opt(T.Int), b.get("slice", b))
        return [slice(a, c, d) for a in o for c in o for d in o if d != 0]
    if isinstance(ty, T.Set):
        elems = enum_type(ty.elem, b)
        return [set(c) for n in range(len(elems) + 1) for c in itertools.combinations(elems, n)]
    raise NotImplementedError(f"enumeration of {ty}")


def enum_inputs(contract, bounds):
    names = list(contract.params)
    spaces = []
    for n in names:
        bb = dict(bounds)
        bb.update(bounds.get("per_param", {}).get(n, {}))
        spaces.append(enum_type(contract.params[n], bb))
    for combo in itertools.product(*spaces):
        yield dict(zip(names, combo))


def bounded_check(contract, fn, bounds, extra=None, limit=None, timeout=5, stop_at=5, skip=None, post_hook=None):
    """Exhaustive run of the real function under its contract over the bounded input space.
    -> dict(cases=..., satisfied_pre=..., distinct_results=..., failures=[Failure])"""
    cases = 0
    pre_ok = 0
    results = set()
    fails = []
    for args in enum_inputs(contract, bounds):
        cases += 1
        if limit and cases > limit:
            break
        if skip is not None and skip(args):
            continue
        r = check_call(contract, fn, args, extra=extra, timeout=timeout, post_hook=post_hook)
        if r == "pre":
            continue
        pre_ok += 1
        if r is not None:
            fails.append(r)
            if len(fails) >= stop_at:
                break
    return {"cases": cases, "satisfied_pre": pre_ok, "failures": fails}


# ------------------------------------------------------------------ solver model -> concrete args
def model_to_args(model, contract, pre_env):
    """Concretise the function's parameters from a (candidate) counter-model."""
    import z3

    out = {}
    for p, ty in contract.params.items():
        sv = pre_env.get(p)
        if sv is None:
            return None
        try:
            out[p] = concretise(model, sv.t, ty)
        except Exception:
            return None
    return out


def concretise(model, term, ty, depth=0):
    import z3

    ev = lambda t: model.eval(t, model_completion=True)
    if ty == T.Int:
        return ev(term).as_long()
    if ty == T.Bool:
        return z3.is_true(ev(term))
    if isinstance(ty, T.TNone):
        return None
    if isinstance(ty, T.Opt):
        if z3.is_true(ev(ty.is_none(term))):
            return None
        return concretise(model, ty.val(term), ty.inner)
    if isinstance(ty, T.Seq):
        n = ev(ty.len(term)).as_long()
        if n < 0 or n > 64:
            raise ValueError("length out of range")
        return tuple(concretise(model, z3.Select(ty.arr(term), i), ty.elem) for i in range(n))
    if isinstance(ty, T.Tup):
        return tuple(concretise(model, ty.get(term, i), t) for i, t in enumerate(ty.items))
    if isinstance(ty, T.Rec) and ty.name == "slice":
        return slice(*[concretise(model, ty.get(term, f), T.Opt(T.Int)) for f in ("start", "stop", "step")])
    if isinstance(ty, T.Enum):
        v = ev(term)
        for pv in ty.values:
            if ty.const(pv).eq(v):
                return pv
    raise NotImplementedError(str(ty))


# ------------------------------------------------------------------ per-function native specification
class NativeSpec:
    """How to run one contracted function natively: resolver of the real callable, bounded
    input spaces per tier, optional argument adapter and extra names for contract evaluation."""

    def __init__(self, contract, resolve, bounds, extra=None, timeout=5, nontrivial=None, skip=None, post_hook=None):
        self.contract = contract
        self.resolve = resolve
        self.bounds = bounds
        self.extra = extra or {}
        self.timeout = timeout
        self.nontrivial = nontrivial
        self.skip = skip
        self.post_hook = post_hook

    def run(self, tier):
        import time

        t0 = time.time()
        fn = self.resolve()
        b = self.bounds[tier] if tier in self.bounds else self.bounds["quick"]
        rep = bounded_check(self.contract, fn, b, extra=self.extra, timeout=self.timeout, skip=self.skip, post_hook=self.post_hook)
        sample = next(iter(enum_inputs(self.contract, b)), None)
        return {
            "function": f"{self.contract.file}:{self.contract.qualname}",
            "bounded": True,
            "bound": _jsonable(b),
            "cases": rep["cases"],
            "distinct_nontrivial": rep["satisfied_pre"],
            "failures_found": len(rep["failures"]),
            "wall_s": round(time.time() - t0, 2),
            "samples": [{"native_case": _jsonable(sample)}] if sample is not None else [],
            "failures": rep["failures"],
        }

    def check_args(self, args):
        return check_call(self.contract, self.resolve(), args, extra=self.extra, timeout=self.timeout, post_hook=self.post_hook)


def witness_from_model(spec, ob, pre_env):
    """Candidate counter-model of a failed/undecided obligation -> replay on the real function."""
    from .solve import model_for

    m = model_for(ob, 8000)
    if m is None:
        return None
    args = model_to_args(m, spec.contract, pre_env)
    if args is None:
        return None
    r = spec.check_args(args)
    if isinstance(r, Failure):
        r.detail = "[replayed from solver model] " + r.detail
        return r
    return None
