"""Discharge obligations: each one is an independent SMT query (hypotheses ∧ ¬goal unsat?).

Back ends, tried in order until one answers sat/unsat:
  z3-new (5.1 CLI)  ->  /usr/bin/z3 (4.8.12)  ->  /usr/bin/cvc5 (1.0.3; skipped for queries with
  z3-only constructs).  One process per query, wall-clock limits, a pool capped at 12 so a
  loaded machine does not flip verdicts.
"""
import os
import re
import subprocess
import tempfile
import time
from concurrent.futures import ThreadPoolExecutor

import z3

POOL = int(os.environ.get("VF_POOL", "12"))
T1 = int(os.environ.get("VF_T1", "15"))  # seconds, first back end
T2 = int(os.environ.get("VF_T2", "30"))  # seconds, later back ends


class Obligation:
    def __init__(self, name, hyps, goal, kind, where="", func=""):
        self.name = name
        self.hyps = list(hyps)
        self.goal = goal
        self.kind = kind
        self.where = where
        self.func = func
        self.status = None  # 'proved' | 'refuted' | 'unknown'
        self.backend = None
        self.time = 0.0
        self.output = ""
        self.smt_size = 0
        self.expect_refuted = False  # canaries

    def smt2(self, light=False, linear_only=False):
        s = z3.Solver()
        heavy = getattr(self, "heavy_ids", ())
        for h in self.hyps:
            if light and h.get_id() in heavy:
                continue
            if linear_only and _nonlinear(h):
                continue
            s.add(h)
        s.add(z3.Not(self.goal))
        return s.to_smt2()


_nl_cache = {}


def _nonlinear(e):
    """Does the formula multiply/divide two non-constant terms?  (syntactic)"""
    k = e.get_id()
    if k in _nl_cache:
        return _nl_cache[k]
    res = False
    seen = set()
    stack = [e]
    while stack:
        x = stack.pop()
        i = x.get_id()
        if i in seen:
            continue
        seen.add(i)
        if z3.is_quantifier(x):
            stack.append(x.body())
            continue
        if z3.is_app(x):
            kind = x.decl().kind()
            if kind in (z3.Z3_OP_MUL, z3.Z3_OP_DIV, z3.Z3_OP_IDIV, z3.Z3_OP_MOD, z3.Z3_OP_REM):
                nonconst = [c for c in x.children() if not (z3.is_int_value(c) or z3.is_rational_value(c))]
                if kind == z3.Z3_OP_MUL and len(nonconst) >= 2:
                    res = True
                    break
                if kind != z3.Z3_OP_MUL and not (z3.is_int_value(x.arg(1)) or z3.is_rational_value(x.arg(1))):
                    res = True
                    break
            stack.extend(x.children())
    _nl_cache[k] = res
    return res


_Z3ONLY = re.compile(r"\(lambda |\(_ map |as-array|seq\.|str\.")


def _run(cmd, text, timeout):
    with tempfile.NamedTemporaryFile("w", suffix=".smt2", delete=False, dir=os.environ.get("VF_TMP", None)) as f:
        f.write(text)
        path = f.name
    t0 = time.time()
    try:
        p = subprocess.run(cmd + [path], capture_output=True, text=True, timeout=timeout + 5)
        out = (p.stdout + p.stderr).strip()
    except subprocess.TimeoutExpired:
        out = "timeout"
    finally:
        try:
            os.unlink(path)
        except OSError:
            pass
    dt = time.time() - t0
    first = out.splitlines()[0].strip() if out else ""
    if first in ("sat", "unsat"):
        return first, dt, out
    if "(error" in out and "timeout" not in first:
        return "error", dt, out[:800]
    return "unknown", dt, out[:500]


def _race(configs, text, timeout):
    """Run several solver configurations on the same query at once; the first sat/unsat answer wins, the rest are
    killed.  -> (name, result, seconds, outputs)"""
    with tempfile.NamedTemporaryFile("w", suffix=".smt2", delete=False, dir=os.environ.get("VF_TMP", None)) as f:
        f.write(text)
        path = f.name
    t0 = time.time()
    procs = [(name, subprocess.Popen(cmd + [path], stdout=subprocess.PIPE, stderr=subprocess.STDOUT, text=True)) for name, cmd in configs]
    winner, outs = None, []
    try:
        pending = dict(procs)
        while pending and time.time() - t0 < timeout + 5 and winner is None:
            for name, p in list(pending.items()):
                if p.poll() is not None:
                    out = (p.stdout.read() or "").strip()
                    first = out.splitlines()[0].strip() if out else ""
                    outs.append(f"[{name}] {out[:120]}")
                    del pending[name]
                    if first in ("sat", "unsat"):
                        winner = (name, first)
                        break
            time.sleep(0.05)
    finally:
        for name, p in procs:
            if p.poll() is None:
                p.kill()
            try:
                p.wait(timeout=5)
            except Exception:  # noqa
                pass
        try:
            os.unlink(path)
        except OSError:
            pass
    dt = time.time() - t0
    if winner:
        return winner[0], winner[1], dt, outs
    return None, "unknown", dt, outs


ALT_CONFIGS = [
    ("z3-5.1[seed=7]", ["z3-new", "-T:20", "smt.random_seed=7"]),
    ("z3-5.1[seed=2]", ["z3-new", "-T:20", "smt.random_seed=2"]),
    ("z3-5.1[nra=false]", ["z3-new", "-T:20", "smt.arith.nl.nra=false"]),
    ("z3-5.1[seed=5,grobner=false]", ["z3-new", "-T:20", "smt.random_seed=5", "smt.arith.nl.grobner=false"]),
    ("z3-4.8.12", ["/usr/bin/z3", "-T:20"]),
    ("z3-4.8.12[seed=3]", ["/usr/bin/z3", "-T:20", "smt.random_seed=3"]),
    ("z3-5.1[seed=11]", ["z3-new", "-T:20", "smt.random_seed=11"]),
    ("z3-5.1[seed=13]", ["z3-new", "-T:20", "smt.random_seed=13"]),
]


def solve_one(ob, scale=1):
    text = ob.text
    ob.smt_size = len(text)
    if ob.kind == "canary":
        # vacuity probe: must NOT be provable; a short single-solver budget is enough
        res, dt, out = _run(["z3-new", "-T:2"], text, 2)
        ob.status = {"unsat": "proved", "sat": "refuted"}.get(res, "unknown")
        ob.backend, ob.time, ob.output = "z3-5.1", dt, out[:200]
        return ob
    # a proof from a SUBSET of the hypotheses is a proof: first try without the witness-function axioms
    # (they are rarely needed and can make instantiation explode)
    for label, txt in (("light", getattr(ob, "text_light", None)), ("linear", getattr(ob, "text_linear", None))):
        if txt and scale == 1:
            res, dt, out = _run(["z3-new", f"-T:{6 * scale}"], txt, 6 * scale)
            if res == "unsat":
                ob.status, ob.backend, ob.time, ob.output = "proved", "z3-5.1", dt, f"[{label} hypothesis subset] unsat"
                return ob
    t1, t2 = T1 * scale, T2 * scale
    if scale == 1:
        # first round: the default configuration only; whatever it leaves open goes to the second round
        backends = [("z3-5.1", ["z3-new", f"-T:{t1}"], t1)]
    else:
        backends = [("z3-4.8.12", ["/usr/bin/z3", f"-T:{t2}"], t2), ("z3-5.1", ["z3-new", f"-T:{t1}"], t1)]
    if scale > 1:
        # second round (queries left open by the default configurations): nonlinear / quantified queries are sensitive
        # to the search order, so alternative configurations race on the query first; any answer is an answer
        name, res, dt, outs0 = _race(ALT_CONFIGS, text, 20)
        if res == "unsat":
            ob.status, ob.backend, ob.time, ob.output = "proved", name, dt, " | ".join(outs0)
            return ob
        if res == "sat":
            ob.status, ob.backend, ob.time, ob.output = "refuted", name, dt, " | ".join(outs0)
            return ob
        light = getattr(ob, "text_light", None)
        if light:
            name, res, dt2, outs1 = _race(ALT_CONFIGS, light, 20)
            if res == "unsat":  # a proof from a subset of the hypotheses is a proof (sat/unknown there mean nothing)
                ob.status, ob.backend, ob.time, ob.output = "proved", name, dt + dt2, "[light hypothesis subset] " + " | ".join(outs1)
                return ob
    if scale > 1 and not _Z3ONLY.search(text):
        backends.insert(0, ("cvc5-1.0.3", ["/usr/bin/cvc5", f"--tlimit={T2 * 1000}"], T2))
    total = 0.0
    outs = []
    for name, cmd, to in backends:
        res, dt, out = _run(cmd, text, to)
        total += dt
        outs.append(f"[{name}] {out[:300]}")
        if res == "unsat":
            ob.status, ob.backend = "proved", name
            break
        if res == "sat":
            ob.status, ob.backend = "refuted", name
            break
        if res == "error" and name == "z3-5.1" and scale == 1:
            ob.status, ob.backend = "error", name  # malformed query: a checker error, never a verdict
            break
    else:
        ob.status, ob.backend = "unknown", "none"
    ob.time = total
    ob.output = "\n".join(outs)
    return ob


def solve_all(obs, progress=None):
    # trivial goals are closed syntactically (still counted, back end "syntactic")
    todo = []
    for ob in obs:
        g = z3.simplify(ob.goal)
        if z3.is_true(g):
            ob.status, ob.backend, ob.time = "proved", "syntactic", 0.0
            ob.smt_size = 0
        else:
            ob.text = ob.smt2()  # z3's Python API is not thread-safe: serialise here
            if getattr(ob, "heavy_ids", None) and any(h.get_id() in ob.heavy_ids for h in ob.hyps):
                ob.text_light = ob.smt2(light=True)
            if not _nonlinear(ob.goal) and any(_nonlinear(h) for h in ob.hyps):
                # linear goal: first try without the nonlinear hypotheses (a proof from a subset is a proof)
                ob.text_linear = ob.smt2(light=True, linear_only=True)
            todo.append(ob)
    with ThreadPoolExecutor(max_workers=POOL) as ex:
        for i, _ in enumerate(ex.map(solve_one, todo)):
            if progress:
                progress(i, len(todo))
    # wall-clock budgets can expire on a loaded machine: every query left open is retried with 4x the budget,
    # four at a time, so that a verdict does not flip with the load (an answer after a retry is the same answer)
    again = [ob for ob in todo if ob.status == "unknown" and ob.kind != "canary"]
    if again:
        with ThreadPoolExecutor(max_workers=2) as ex:
            for ob in ex.map(lambda o: solve_one(o, 4), again):
                if ob.status != "unknown":
                    ob.output = "[retried with 4x budget] " + ob.output
    # last resort for a handful of stragglers (a machine busy with other checks starves the 20 s races): the same
    # configurations again, one query at a time, with a wall-clock limit six times as long.  Skipped when many queries
    # are open (changed code: the answer there is "undecided", not "wait longer").
    left = [ob for ob in todo if ob.status == "unknown" and ob.kind != "canary"]
    if 0 < len(left) <= 6 and not os.environ.get("VF_SELFTEST"):   # (the mutation self-test only asks "does anything turn red")
        slow = [(name, [c.replace("-T:20", "-T:120") for c in cmd]) for name, cmd in ALT_CONFIGS]
        for ob in left:
            for txt, tag in ((ob.text, ""), (getattr(ob, "text_light", None), "[light hypothesis subset] ")):
                if not txt:
                    continue
                name, res, dt, outs = _race(slow, txt, 120)
                if res == "unsat" or (res == "sat" and not tag):
                    ob.status, ob.backend, ob.time = ("proved" if res == "unsat" else "refuted"), name, dt
                    ob.output = "[last pass, 120 s] " + tag + " | ".join(outs)
                    break
    return obs


def model_for(ob, timeout_ms=20000):
    """Counter-model of a refuted obligation, through the Python API (only called on failures)."""
    s = z3.Solver()
    s.set("timeout", timeout_ms)
    for h in ob.hyps:
        s.add(h)
    s.add(z3.Not(ob.goal))
    r = s.check()
    if r == z3.sat:
        return s.model()
    if r == z3.unknown:
        try:
            return s.model()  # candidate model: only ever used as a seed for native replay
        except z3.Z3Exception:
            return None
    return None
