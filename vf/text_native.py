"""E2 for C50: block-wise reading on the real dask.bytes / dask.bag.text (bounded)."""
import io
import itertools
import os
import random
import shutil
import tempfile
import time

from . import rtc


def _selfoverlap(d):
    return bool(d) and any(d[:i] == d[-i:] for i in range(1, len(d)))


def ref_split(text, delim):
    parts = text.split(delim)
    out = [p + delim for p in parts[:-1]]
    if parts[-1]:
        out.append(parts[-1])
    return out


def corpus(rnd, tier):
    base = ["", "a", "\n", "a\n", "a\nb", "a\nb\n", "\n\n", "aaaa\nbbbb\ncccc\ndddd\n", "ab||cd||", "aaa", "aaaa", "xaaxaaax", "x|||y", "x||||", "|||", "ababab|", "a|b|", "|", "||", "é\nü\n\n∂x",
            "page one\x0cpage two\nline\x85still same\n", "a\rb\r\nc\n", "no delimiter at all", "trail\n\n\n"]
    alph = "ab\n|\r" if tier == "quick" else "abc\n|\r\x0cé"
    for _ in range(60 if tier == "quick" else 600):
        base.append("".join(rnd.choice(alph) for _ in range(rnd.randrange(0, 24))))
    return base


def big_file_cases(d, cases_fails):
    """files larger than the usual buffer sizes, a multi-character delimiter lying across 8Ki/16Ki/32Ki/64Ki/128Ki
    character positions, text after the last delimiter: same lines for blocksize None and large blocksizes"""
    import dask.bag as db

    cases, fails = cases_fails
    for positions in ([65536], [8192, 16384, 32768, 65536, 131072], [65536, 131072 + 1]):
        n = positions[-1] + 5
        buf = ["x"] * n
        for pos in positions:
            buf[pos - 1], buf[pos] = "|", "|"
        text = "a||" + "".join(buf[3:]) if buf[0:3] == ["x", "x", "x"] else "".join(buf)
        p = os.path.join(d, f"big{len(positions)}-{positions[-1]}.txt")
        with open(p, "w", encoding="utf-8") as f:
            f.write(text)
        want = ref_split(text, "||")
        for kw in ({"blocksize": None}, {"blocksize": None, "files_per_partition": 1}, {"blocksize": None, "include_path": True}, {"blocksize": 50000}, {"blocksize": 2 ** 16}, {"blocksize": 10 ** 6}):
            cases += 1
            try:
                got = db.read_text(p, linedelimiter="||", **kw).compute()
                if kw.get("include_path"):
                    got = [g[0] for g in got]
                msg = None if got == want else f"read_text({kw}) gives {len(got)} lines (lengths {[len(g) for g in got][:8]}), the file split after each '||' has {len(want)} (lengths {[len(w) for w in want][:8]})"
            except Exception as e:  # noqa
                msg = f"{type(e).__name__}: {e}"
            if msg:
                fails.append(rtc.Failure("read_text", {"content": f"<{len(text)} characters, '||' across positions {positions}>", "linedelimiter": "||", "blocksize": kw.get("blocksize"), "self_overlapping_delimiter": False, "options": {k: v for k, v in kw.items() if k != "blocksize"}}, "ensures", "C50-lines-equal-split-after-delimiter", msg))
    return cases


def several_files_cases(d, cases_fails):
    """several files, one of them empty, read together with include_path=True: every line comes with the path of the
    file it stands in, for every blocksize and grouping"""
    import dask.bag as db

    cases, fails = cases_fails
    contents = {"m0.txt": "a\nb\n", "m1.txt": "", "m2.txt": "c\nd\ne", "m3.txt": "", "m4.txt": "f\n"}
    sub = os.path.join(d, "multi")
    os.makedirs(sub, exist_ok=True)
    for name, text in contents.items():
        with open(os.path.join(sub, name), "w") as f:
            f.write(text)
    want = [(ln, os.path.join(sub, name)) for name, text in sorted(contents.items()) for ln in io.StringIO(text)]
    for kw in ({"blocksize": None}, {"blocksize": 3}, {"blocksize": 1}, {"blocksize": 100}, {"blocksize": None, "files_per_partition": 2}, {"blocksize": None, "files_per_partition": 5}):
        cases += 1
        try:
            got = db.read_text(os.path.join(sub, "m*.txt"), include_path=True, **kw).compute()
            got = [(ln, os.path.abspath(p_)) for ln, p_ in got]
            msg = None if got == want else f"read_text(include_path=True, {kw}) pairs lines with paths as {[(l_, os.path.basename(p_)) for l_, p_ in got]}, the files hold {[(l_, os.path.basename(p_)) for l_, p_ in want]}"
        except Exception as e:  # noqa
            msg = f"{type(e).__name__}: {e}"
        if msg:
            fails.append(rtc.Failure("read_text", {"content": "<5 files, 2 of them empty>", "linedelimiter": None, "blocksize": kw.get("blocksize"), "self_overlapping_delimiter": False, "options": {"include_path": True, **{k: v for k, v in kw.items() if k != "blocksize"}}}, "ensures", "C50-lines-equal-split-after-delimiter", msg))
    return cases


def sweep(tier, seed=0):
    import dask
    import dask.bag as db
    from dask.bytes import read_bytes

    t0 = time.time()
    rnd = random.Random(seed)
    d = tempfile.mkdtemp(prefix="vf-c50-")
    cases, fails = 0, []
    budget = 60 if tier == "quick" else 1200
    try:
        with dask.config.set(scheduler="sync"):
            cases = big_file_cases(d, (cases, fails))
            cases = several_files_cases(d, (cases, fails))
            for idx, text in enumerate(corpus(rnd, tier)):
                p = os.path.join(d, f"f{idx}.txt")
                data = text.encode("utf-8")
                with open(p, "wb") as f:
                    f.write(data)
                sizes = sorted({1, 2, 3, 5, 7, max(1, len(data) // 2), len(data) + 1})
                # ---- read_bytes: blocks concatenate to the file, boundaries fall after a delimiter
                for delim in (b"\n", b"|", b"||", b"aa"):
                    for bs in sizes:
                        cases += 1
                        try:
                            _, blocks = read_bytes(p, delimiter=delim, blocksize=bs, sample=False)
                            got = [b for b in dask.compute(*blocks[0])] if blocks and blocks[0] else []
                            msg = None
                            if b"".join(got) != data:
                                msg = f"blocks {got!r} do not concatenate to the file {data!r}"
                            else:
                                pos = 0
                                for b in got[:-1]:
                                    pos += len(b)
                                    if b and pos < len(data) and not b.endswith(delim):
                                        msg = f"block {b!r} ends inside the file but not just after the delimiter {delim!r}: {got!r}"
                                        break
                        except Exception as e:  # noqa
                            msg = f"{type(e).__name__}: {e}"
                        if msg:
                            fails.append(rtc.Failure("read_bytes", {"content": text, "delimiter": delim.decode(), "blocksize": bs, "self_overlapping_delimiter": _selfoverlap(delim.decode())}, "ensures", "C50-blocks-tile-the-file", msg))
                # ---- read_text: same lines for every blocksize, equal to the reference split
                for delim in (None, "|", "||", "aa", "\n"):
                    if delim is None:
                        want = list(io.StringIO(text, newline=None))
                    elif delim == "\n":
                        want = list(io.StringIO(text, newline="\n"))
                    else:
                        want = ref_split(text, delim)
                    if delim in (None, "\n") and "\r" in text and delim is None:
                        want = None  # universal-newline translation differs between the two code paths only in '\r' handling: compare paths with each other
                    results = {}
                    for bs in [None] + sizes:
                        cases += 1
                        try:
                            kw = {} if delim is None else {"linedelimiter": delim}
                            got = db.read_text(p, blocksize=bs, **kw).compute()
                            results[bs] = got
                            msg = None
                            if want is not None and got != want:
                                msg = f"read_text(blocksize={bs}) gives {got!r}, the file split after each delimiter is {want!r}"
                        except Exception as e:  # noqa
                            msg = f"{type(e).__name__}: {e}"
                        if msg:
                            fails.append(rtc.Failure("read_text", {"content": text, "linedelimiter": delim, "blocksize": bs, "self_overlapping_delimiter": _selfoverlap(delim)}, "ensures", "C50-lines-equal-split-after-delimiter", msg))
                    if want is None and results and "\r" not in text:
                        pass
                    if want is None and len({tuple(v) for v in results.values()}) > 1 and "\r" not in text:
                        fails.append(rtc.Failure("read_text", {"content": text, "linedelimiter": delim}, "ensures", "C50-same-lines-for-every-blocksize", f"{results!r}"))
                if len([f for f in fails if not f.args.get("self_overlapping_delimiter")]) >= 6 or time.time() - t0 > budget:
                    break
            # ---- nominal blocks without a delimiter: they must tile the file (from byte 1 when not_zero) for every size and
            # blocksize -- float accumulation in the offset loop makes rare (size, blocksize) pairs special
            tile_sizes = list(range(1, 131 if tier == "quick" else 401)) + [250, 116, 126]
            tile_fails = []
            for size in tile_sizes:
                if tile_fails or time.time() - t0 > budget * 1.5:
                    break
                p = os.path.join(d, "tile.bin")
                data = bytes((i * 7 + 3) % 251 for i in range(size))
                with open(p, "wb") as f:
                    f.write(data)
                for bs in range(2 if size > 40 else 1, 17):
                    for nz in (False, True):
                        cases += 1
                        try:
                            _, blocks = read_bytes(p, delimiter=None, blocksize=bs, not_zero=nz, sample=False)
                            got = b"".join(dask.compute(*blocks[0])) if blocks and blocks[0] else b""
                            want = data[1:] if nz else data
                            msg = None if got == want else f"the blocks give {len(got)} bytes, the file {'minus its first byte ' if nz else ''}has {len(want)} (first difference at byte {next((i for i, (a, b) in enumerate(zip(got, want)) if a != b), min(len(got), len(want)))})"
                        except Exception as e:  # noqa
                            msg = f"{type(e).__name__}: {e}"
                        if msg:
                            tile_fails.append(rtc.Failure("read_bytes", {"size": size, "blocksize": bs, "not_zero": nz, "delimiter": None}, "ensures", "C50-blocks-tile-the-file", msg))
                            break
                    if tile_fails:
                        break
            fails.extend(tile_fails)
            # several files, files_per_partition, include_path
            cases += 1
            try:
                ps = []
                for i, t in enumerate(["a\nb\n", "c\n", "d"]):
                    q = os.path.join(d, f"m{i}.txt")
                    open(q, "w").write(t)
                    ps.append(q)
                a = db.read_text(ps).compute()
                b = db.read_text(ps, files_per_partition=2).compute()
                c = [x for x, _ in db.read_text(ps, include_path=True).compute()]
                e = db.read_text(ps, blocksize=2).compute()
                if not (a == b == c == e == ["a\n", "b\n", "c\n", "d"]):
                    fails.append(rtc.Failure("read_text", {"files": 3}, "ensures", "C50-same-lines-for-every-blocksize", f"{a!r} {b!r} {c!r} {e!r}"))
            except Exception as ex:  # noqa
                fails.append(rtc.Failure("read_text", {"files": 3}, "exception", type(ex).__name__, repr(ex)))
    finally:
        shutil.rmtree(d, ignore_errors=True)
    return {"function": "dask/bytes/core.py:read_bytes, dask/bag/text.py:read_text (real code, real files)", "bounded": True,
            "bound": {"contents": "20 hand-picked (empty, no/trailing/runs of delimiters, self-overlapping, unicode, form feed) + random", "delimiters": ["\\n", "|", "||", "aa"], "blocksizes": "1,2,3,5,7,len/2,len+1, None", "large files": "3 files of 64Ki-128Ki characters with '||' lying across 8Ki..128Ki positions, blocksize None / 50000 / 65536 / 1e6, files_per_partition, include_path", "tiling": "every file size 1..130 (quick) / 1..400 x blocksize 1..16 x not_zero, no delimiter"},
            "cases": cases, "distinct_nontrivial": cases, "failures_found": len(fails), "wall_s": round(time.time() - t0, 2),
            "samples": [{"native_case": {"content": "a|b|", "linedelimiter": "|", "blocksize": 2}}], "failures": fails[:200]}
