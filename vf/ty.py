"""Spec types and their SMT sorts.

Every Python value the verified subset manipulates is represented by ONE z3 term whose
sort is determined by its spec type.  Containers are algebraic datatypes over arrays, so
they nest freely (a map of sets, a sequence of tuples, ...).

  int            Int            (exact: Python ints are unbounded)
  bool           Bool
  float          Real           (only with the explicit rounding model of vf.floats)
  str tag        finite enum
  None           unit datatype
  Optional[T]    datatype  none | some(val)
  tuple (fixed)  datatype  mk(f0..fn)
  list/tuple[T]  datatype  mk(arr: Array Int T, len: Int)
  set[T]         Array T Bool
  dict[K,V]      datatype  mk(dom: Array K Bool, val: Array K V)
  record         datatype  mk(field...)   (dict with literal string keys / attribute object)
  union          datatype  one constructor per alternative (isinstance dispatch)
  opaque         uninterpreted sort
"""
import z3

_sort_cache = {}


class Ty:
    name = "?"

    def sort(self):
        raise NotImplementedError

    def __repr__(self):
        return self.name

    def __eq__(self, other):
        return isinstance(other, Ty) and self.name == other.name

    def __hash__(self):
        return hash(self.name)


class _Prim(Ty):
    def __init__(self, name, mk):
        self.name = name
        self._mk = mk

    def sort(self):
        return self._mk()


Int = _Prim("Int", z3.IntSort)
Bool = _Prim("Bool", z3.BoolSort)
Real = _Prim("Real", z3.RealSort)
Str = _Prim("Str", z3.StringSort)


class TNone(Ty):
    name = "None"

    def sort(self):
        if "None" not in _sort_cache:
            d = z3.Datatype("NoneT")
            d.declare("none_v")
            _sort_cache["None"] = d.create()
        return _sort_cache["None"]

    def value(self):
        return self.sort().constructor(0)()


NoneT = TNone()


class U(Ty):
    """Uninterpreted sort (dask keys, task objects, computed values...)."""

    def __init__(self, name):
        self.name = name

    def sort(self):
        return z3.DeclareSort(self.name)


class Enum(Ty):
    """Finite set of Python constants (string tags)."""

    def __init__(self, name, values):
        self.name = name
        self.values = list(values)

    def sort(self):
        if self.name not in _sort_cache:
            s, consts = z3.EnumSort(self.name, [f"{self.name}_{i}" for i, _ in enumerate(self.values)])
            _sort_cache[self.name] = (s, consts)
        return _sort_cache[self.name][0]

    def const(self, pyval):
        self.sort()
        return _sort_cache[self.name][1][self.values.index(pyval)]


def _dt(name, build):
    if name not in _sort_cache:
        _sort_cache[name] = build()
    return _sort_cache[name]


class Seq(Ty):
    def __init__(self, elem):
        self.elem = elem
        self.name = f"Seq<{elem.name}>"

    def sort(self):
        def build():
            d = z3.Datatype(_mangle(self.name))
            m = _mangle(self.name)
            d.declare("mk_" + m, ("arr_" + m, z3.ArraySort(z3.IntSort(), self.elem.sort())), ("len_" + m, z3.IntSort()))
            return d.create()

        return _dt(self.name, build)

    def mk(self, arr, ln):
        return self.sort().constructor(0)(arr, ln)

    def arr(self, t):
        a = self.sort().accessor(0, 0)(t)
        return z3.simplify(a) if _is_ctor(t) else a

    def len(self, t):
        a = self.sort().accessor(0, 1)(t)
        return z3.simplify(a) if _is_ctor(t) else a


class Set(Ty):
    def __init__(self, elem):
        self.elem = elem
        self.name = f"Set<{elem.name}>"

    def sort(self):
        return z3.ArraySort(self.elem.sort(), z3.BoolSort())

    def empty(self):
        return z3.K(self.elem.sort(), z3.BoolVal(False))


class Map(Ty):
    def __init__(self, key, val):
        self.key = key
        self.val = val
        self.name = f"Map<{key.name},{val.name}>"

    def sort(self):
        def build():
            d = z3.Datatype(_mangle(self.name))
            m = _mangle(self.name)
            d.declare(
                "mk_" + m,
                ("dom_" + m, z3.ArraySort(self.key.sort(), z3.BoolSort())),
                ("val_" + m, z3.ArraySort(self.key.sort(), self.val.sort())),
            )
            return d.create()

        return _dt(self.name, build)

    def mk(self, dom, val):
        return self.sort().constructor(0)(dom, val)

    def dom(self, t):
        a = self.sort().accessor(0, 0)(t)
        return z3.simplify(a) if _is_ctor(t) else a

    def valarr(self, t):
        a = self.sort().accessor(0, 1)(t)
        return z3.simplify(a) if _is_ctor(t) else a


class Opt(Ty):
    def __init__(self, inner):
        self.inner = inner
        self.name = f"Opt<{inner.name}>"

    def sort(self):
        def build():
            d = z3.Datatype(_mangle(self.name))
            m = _mangle(self.name)
            d.declare("none_" + m)
            d.declare("some_" + m, ("val_" + m, self.inner.sort()))
            return d.create()

        return _dt(self.name, build)

    def none(self):
        return self.sort().constructor(0)()

    def some(self, v):
        return self.sort().constructor(1)(v)

    def is_none(self, t):
        return self.sort().recognizer(0)(t)

    def is_some(self, t):
        return self.sort().recognizer(1)(t)

    def val(self, t):
        return self.sort().accessor(1, 0)(t)


class Tup(Ty):
    def __init__(self, *items):
        self.items = list(items)
        self.name = "Tup<" + ",".join(i.name for i in items) + ">"

    def sort(self):
        def build():
            d = z3.Datatype(_mangle(self.name))
            m = _mangle(self.name)
            d.declare("mk_" + m, *[(f"f{i}_{m}", t.sort()) for i, t in enumerate(self.items)])
            return d.create()

        return _dt(self.name, build)

    def mk(self, *vals):
        return self.sort().constructor(0)(*vals)

    def get(self, t, i):
        acc = self.sort().accessor(0, i)
        return z3.simplify(acc(t)) if _is_ctor(t) else acc(t)


class Rec(Ty):
    """Record: a dict with literal string keys, or an object with attributes."""

    def __init__(self, name, fields):
        self.name = name
        self.fields = dict(fields)

    def sort(self):
        def build():
            d = z3.Datatype(_mangle(self.name))
            d.declare("mk_" + _mangle(self.name), *[(f"{_mangle(self.name)}_{k}", t.sort()) for k, t in self.fields.items()])
            return d.create()

        return _dt("Rec:" + self.name, build)

    def mk(self, **vals):
        return self.sort().constructor(0)(*[vals[k] for k in self.fields])

    def get(self, t, k):
        acc = getattr(self.sort(), f"{_mangle(self.name)}_{k}")
        return z3.simplify(acc(t)) if _is_ctor(t) else acc(t)

    def set(self, t, k, v):
        return self.sort().constructor(0)(*[v if f == k else self.get(t, f) for f in self.fields])


class Union(Ty):
    """Tagged union for isinstance dispatch.  alts: tag -> Ty ; classes: python class name -> [tags]."""

    def __init__(self, name, alts, classes=None):
        self.name = name
        self.alts = dict(alts)
        self.classes = dict(classes or {})

    def sort(self):
        def build():
            d = z3.Datatype(_mangle(self.name))
            for tag, t in self.alts.items():
                d.declare(f"{_mangle(self.name)}_{tag}", (f"{_mangle(self.name)}_{tag}_v", t.sort()))
            return d.create()

        return _dt("Union:" + self.name, build)

    def inj(self, tag, v):
        return getattr(self.sort(), f"{_mangle(self.name)}_{tag}")(v)

    def is_(self, tag, t):
        return getattr(self.sort(), f"is_{_mangle(self.name)}_{tag}")(t)

    def proj(self, tag, t):
        return getattr(self.sort(), f"{_mangle(self.name)}_{tag}_v")(t)


Slice = Rec("slice", {"start": Opt(Int), "stop": Opt(Int), "step": Opt(Int)})


def _mangle(s):
    return s.replace("<", "_").replace(">", "_").replace(",", "_").replace(":", "_").replace(" ", "")


def _is_ctor(t):
    try:
        return z3.is_app(t) and t.decl().kind() == z3.Z3_OP_DT_CONSTRUCTOR
    except Exception:
        return False
