"""E2 for C44: the extracted repartition functions executed natively (bounded)."""
import itertools
import random
import time
from types import SimpleNamespace as NS

from . import rtc, srcexec

F = "dask/dataframe/dask_expr/_repartition.py"


def _funcs():
    clean = srcexec.load(F, "_clean_new_division_boundaries")
    comp = srcexec.load(F, "RepartitionToFewer._compute_partition_boundaries", {"_clean_new_division_boundaries": clean})
    nspl = srcexec.load(F, "RepartitionToMore._nsplits")
    return clean, comp, nspl


def check_boundaries(comp, n_new, n_old):
    b = comp(n_new, n_old)
    if len(b) != n_new + 1:
        return f"{len(b) - 1} output partitions instead of {n_new}: {b[:6]}..."
    if b[0] != 0 or b[-1] != n_old:
        return f"boundaries run from {b[0]} to {b[-1]}, input partitions are 0..{n_old}"
    if any(x > y for x, y in zip(b, b[1:])):
        return "boundaries decrease"
    return None


def sweep(tier, seed=0):
    out = []
    clean, comp, nspl = _funcs()
    # ---- _compute_partition_boundaries
    t0 = time.time()
    fails, cases = [], 0
    top = 70 if tier == "quick" else 400
    pairs = [(n_new, n_old) for n_old in range(2, top) for n_new in range(1, n_old)]
    rnd = random.Random(seed)
    big = 3000 if tier == "quick" else 20000
    for _ in range(big):
        n_old = rnd.randrange(2, 2 ** rnd.randrange(2, 31))
        pairs.append((rnd.randrange(1, n_old), n_old))
    # float-edge pairs: n_old = q * n_new + r near ulp boundaries
    for n_old in (16438, 20000, 65537, 2 ** 20 + 3, 2 ** 30 - 1):
        for n_new in (16417, 2425, 3, 7, n_old - 1, n_old - 21, n_old // 3):
            if 1 <= n_new < n_old:
                pairs.append((n_new, n_old))
    for idx, (n_new, n_old) in enumerate(pairs):
        if n_old > 3_000_000 and tier == "quick":
            continue
        cap = 2_000_000 if idx % 100 == 0 else 50_000     # the check is linear in n_new: a few very long outputs, many moderate ones
        if n_new > cap:
            n_new = n_new % cap + 1
        cases += 1
        msg = check_boundaries(comp, n_new, n_old)
        if msg:
            fails.append(rtc.Failure("_compute_partition_boundaries", {"n_new": n_new, "n_old": n_old}, "ensures", "C44-boundaries", msg))
            if len(fails) >= 3:
                break
    out.append(_rep("RepartitionToFewer._compute_partition_boundaries (extracted source)", {"exhaustive n_old <": top, "random pairs up to 2**31": big}, cases, fails, t0, {"n_new": 11, "n_old": 15}))
    # ---- ToFewer._layer on the model
    t0 = time.time()
    fails, cases = [], 0
    layer_fewer = srcexec.load(F, "RepartitionToFewer._layer", {"_concat": "concat"})
    for n_old in range(2, 14 if tier == "quick" else 40):
        for n_new in range(1, n_old):
            cases += 1
            self = NS(_partitions_boundaries=comp(n_new, n_old), _name="out", frame=NS(_name="in"))
            d = layer_fewer(self)
            got = []
            ok = sorted(d) == [("out", i) for i in range(n_new)]
            for i in range(n_new):
                t = d.get(("out", i))
                if not t or t[0] != "concat":
                    ok = False
                    break
                got += [j for (nm, j) in t[1] if nm == "in"]
            if not ok or got != list(range(n_old)):
                fails.append(rtc.Failure("RepartitionToFewer._layer", {"n_new": n_new, "n_old": n_old}, "ensures", "C44-rows-and-order", f"outputs read input partitions {got}"))
                break
        if fails:
            break
    out.append(_rep("RepartitionToFewer._layer (extracted source, graph interpreted)", {"n_old <": 14 if tier == "quick" else 40}, cases, fails, t0, {"n_new": 2, "n_old": 5}))
    # ---- ToMore._nsplits + _layer
    t0 = time.time()
    fails, cases = [], 0
    layer_more = srcexec.load(F, "RepartitionToMore._layer", {"split_evenly": "split_evenly", "getitem": "getitem"})
    for old in range(1, 12 if tier == "quick" else 30):
        for new in range(old, 4 * old + 3):
            cases += 1
            self = NS(frame=NS(npartitions=old, _name="in"), new_partitions=new, _name="out")
            try:
                ns = nspl(self)
            except Exception as e:  # noqa
                fails.append(rtc.Failure("_nsplits", {"old": old, "new": new}, "exception", type(e).__name__, repr(e)))
                break
            if len(ns) != old or sum(ns) != new or any(k < 1 for k in ns):
                fails.append(rtc.Failure("_nsplits", {"old": old, "new": new}, "ensures", "C44-every-input-partition-is-kept", f"nsplits={ns}"))
                break
            self._nsplits = ns
            d = layer_more(self)
            # interpret on the model: partition i = rows [(i, r) for r in range(6)], split_evenly(p, k) = k consecutive pieces
            rows = {i: [(i, r) for r in range(7)] for i in range(old)}

            def ev(t):
                if isinstance(t, tuple) and t and t[0] == "split_evenly":
                    p, k = ev(t[1]), t[2]
                    q, m = divmod(len(p), k)
                    pieces, pos = [], 0
                    for x in range(k):
                        ln = q + (1 if x < m else 0)
                        pieces.append(p[pos:pos + ln])
                        pos += ln
                    return pieces
                if isinstance(t, tuple) and t and t[0] == "getitem":
                    return ev(t[1])[t[2]]
                if isinstance(t, tuple) and len(t) == 2 and t[0] == "in":
                    return rows[t[1]]
                if isinstance(t, tuple) and t in d:
                    return ev(d[t])
                raise ValueError(f"cannot interpret {t!r}")

            try:
                got = []
                outs = sorted(k for k in d if k[0] == "out")
                for k in outs:
                    got += ev(d[k])
                want = [r for i in range(old) for r in rows[i]]
                if outs != [("out", j) for j in range(new)] or got != want:
                    fails.append(rtc.Failure("RepartitionToMore._layer", {"old": old, "new": new}, "ensures", "C44-rows-and-order", f"{len(outs)} outputs, {len(got)} of {len(want)} rows in order={got == want}"))
                    break
            except Exception as e:  # noqa
                fails.append(rtc.Failure("RepartitionToMore._layer", {"old": old, "new": new}, "exception", type(e).__name__, repr(e)))
                break
        if fails:
            break
    out.append(_rep("RepartitionToMore._nsplits/_layer (extracted source, graph interpreted on a row model)", {"old <": 12 if tier == "quick" else 30}, cases, fails, t0, {"old": 4, "new": 6}))
    out.append(size_sweep(tier, seed))
    out.append(pandas_helpers_sweep(tier, seed))
    out.append(divisions_sweep(tier))
    return out


def size_sweep(tier, seed=0):
    """RepartitionSize: _nsplits, _partition_boundaries and _layer (extracted source, NumPy/pandas: bounded only) on
    memory-usage vectors that include empty (0-byte) partitions; the produced graph is interpreted on a row model."""
    import numpy as np
    import pandas as pd

    from dask.utils import iter_chunks

    t0 = time.time()
    clean = srcexec.load(F, "_clean_new_division_boundaries")
    nspl = srcexec.load(F, "RepartitionSize._nsplits")
    pbf = srcexec.load(F, "RepartitionSize._partition_boundaries", {"np": np, "pd": pd, "iter_chunks": iter_chunks, "_clean_new_division_boundaries": clean})
    def _tok(*a):
        # a stand-in for dask.tokenize that still depends on every argument (names derived from it must tell apart what they name)
        return "tok(" + ",".join(repr(list(x)) if hasattr(x, "tolist") else (x._name if hasattr(x, "_name") else repr(x)) for x in a) + ")"

    layer = srcexec.load(F, "RepartitionSize._layer", {"np": np, "pd": pd, "tokenize": _tok, "split_evenly": "split_evenly", "getitem": "getitem",
                                                       "methods": NS(concat="concat"), "Any": object})
    rnd = random.Random(seed)
    vecs = []
    vals = (0, 3, 10, 25)
    for n in range(1, 5 if tier == "quick" else 6):
        vecs += list(itertools.product(vals, repeat=n))
    for _ in range(300 if tier == "quick" else 5000):
        vecs.append(tuple(rnd.choice((0, 0, 1, 7, 10, 19, 20, 33, 64)) for _ in range(rnd.randrange(1, 9))))
    fails, cases = [], 0
    for vec in vecs:
        graphs_of_vec = {}
        for size in (10, 7, 100):
            cases += 1
            args = {"mem_usages": list(vec), "partition_size": size}
            self = NS(frame=NS(npartitions=len(vec), _name="in", divisions=(None,) * (len(vec) + 1)), _name="out", _size=size, _mem_usage=pd.Series(list(vec)))
            try:
                self._nsplits = nspl(self)
                self._partition_boundaries = pbf(self)
                d = layer(self)
                rows = {i: [(i, r) for r in range(m)] for i, m in enumerate(vec)}  # one row per byte: an empty partition has none

                def ev(t):
                    if isinstance(t, tuple) and t and t[0] == "split_evenly":
                        p, k = ev(t[1]), int(t[2])
                        q, m = divmod(len(p), k)
                        pieces, pos = [], 0
                        for x in range(k):
                            ln = q + (1 if x < m else 0)
                            pieces.append(p[pos:pos + ln])
                            pos += ln
                        return pieces
                    if isinstance(t, tuple) and t and t[0] == "getitem":
                        return ev(t[1])[t[2]]
                    if isinstance(t, tuple) and t and t[0] == "concat":
                        return [r for part in t[1] for r in ev(part)]
                    if isinstance(t, tuple) and len(t) == 2 and t[0] == "in":
                        return rows[t[1]]
                    if isinstance(t, tuple) and t in d:
                        return ev(d[t])
                    raise ValueError(f"the graph refers to {t!r}, which it does not define")

                graphs_of_vec[size] = d
                outs = sorted(k for k in d if k[0] == "out")
                got = []
                for k in outs:
                    got += ev(d[k])
                want = [r for i in range(len(vec)) for r in rows[i]]
                msg = None
                if outs != [("out", j) for j in range(len(outs))] or len(outs) != len(self._partition_boundaries) - 1:
                    msg = f"output partitions {outs[:5]} do not match the boundaries {list(self._partition_boundaries)}"
                elif got != want:
                    msg = f"repartition(partition_size={size}) keeps {len(got)} of {len(want)} rows (same order: {got == want})"
            except Exception as e:  # noqa
                msg = f"{type(e).__name__}: {e}"
            if msg:
                fails.append(rtc.Failure("RepartitionSize._layer", args, "ensures", "C44-rows-and-order", msg))
                break
        # two repartitions of the same frame to different sizes in one graph (dask.compute(a, b), concat): the intermediate
        # keys of the two layers must not name different things (the output keys differ by the expression name)
        if not fails:
            for s1, s2 in itertools.combinations(sorted(graphs_of_vec), 2):
                d1, d2 = graphs_of_vec[s1], graphs_of_vec[s2]
                clash = [k for k in d1.keys() & d2.keys() if k[0] != "out" and d1[k] != d2[k]]
                if clash:
                    fails.append(rtc.Failure("RepartitionSize._layer", {"mem_usages": list(vec), "partition_size": [s1, s2]}, "ensures", "C44-rows-and-order",
                                             f"repartition(partition_size={s1}) and (partition_size={s2}) of the same frame both define the key {clash[0]!r}, with different tasks: merged into one graph one of them loses or mis-splits rows"))
                    break
        if fails:
            break
    return _rep("RepartitionSize._nsplits/_partition_boundaries/_layer (extracted source, NumPy/pandas; bounded only; graph interpreted on a row model)",
                {"memory usages": "all vectors over {0,3,10,25} up to length 4 (quick) / 5 + seeded random vectors with empty partitions", "partition_size": [10, 7, 100]}, cases, fails, t0,
                {"mem_usages": [25, 0, 25], "partition_size": 10})


def _rep(fn, bound, cases, fails, t0, sample):
    return {"function": fn, "bounded": True, "bound": bound, "cases": cases, "distinct_nontrivial": cases, "failures_found": len(fails),
            "wall_s": round(time.time() - t0, 2), "samples": [{"native_case": sample}], "failures": fails}


# ------------------------------------------------------------------ RepartitionDivisions on a partition model
def run_divisions(layer, a, b, force):
    """Model: rows are the integers a[0]..a[-1] (each twice); partition i holds a[i] <= x < a[i+1] (last: <= a[-1]).
    boundary_slice(p, lo, hi, last) keeps lo <= x < hi (<= hi when last)."""
    n = len(a) - 1
    parts = []
    for i in range(n):
        lo, hi = a[i], a[i + 1]
        last = i == n - 1
        parts.append([x for x in range(a[0], a[-1] + 1) for _ in (0, 1) if lo <= x and (x < hi or (last and x <= hi))])
    rows = [x for p in parts for x in p]
    self = NS(_name="rep-tok", frame=NS(divisions=tuple(a), _name="in"), new_divisions=tuple(b), force=force)
    d = layer(self)

    def ev(t):
        if isinstance(t, tuple) and t and t[0] == "boundary_slice":
            p = ev(t[1])
            lo, hi, last = t[2], t[3], t[4]
            return [x for x in p if lo <= x and (x < hi or (last and x <= hi))]
        if isinstance(t, tuple) and t and t[0] == "concat":
            return [x for s in t[1] for x in ev(s)]
        if isinstance(t, tuple) and len(t) == 2 and t[0] == "in":
            return parts[t[1]]
        if isinstance(t, tuple) and t in d:
            return ev(d[t])
        raise ValueError(f"cannot interpret {t!r}")

    got = []
    for j in range(len(b) - 1):
        o = ev(d[("rep-tok", j)])
        lastp = j == len(b) - 2
        for x in o:
            if not (b[j] <= x and (x < b[j + 1] or (lastp and x <= b[j + 1]))):
                return f"output partition {j} holds {x}, outside its divisions [{b[j]}, {b[j + 1]}]"
        got += o
    if got != rows:
        return f"rows changed: {len(got)} rows out, {len(rows)} in (order kept: {got == rows})"
    return None


def divisions_sweep(tier):
    t0 = time.time()
    methods = NS(boundary_slice="boundary_slice", concat="concat")
    layer = srcexec.load(F, "RepartitionDivisions._layer", {"methods": methods, "pformat": repr})
    vals = range(0, 5 if tier == "quick" else 6)
    maxlen = 4 if tier == "quick" else 5
    cases, fails = 0, []

    def divs(vals, n):
        # non-decreasing, strictly increasing except that the last two may be equal
        for c in itertools.combinations(vals, n):
            yield list(c)
        if n >= 2:
            for c in itertools.combinations(vals, n - 1):
                yield list(c) + [c[-1]]

    for la in range(2, maxlen + 1):
        for a in divs(vals, la):
            for lb in range(2, maxlen + 1):
                for b in divs(vals, lb):
                    for force in (False, True):
                        if force:
                            if not (b[0] <= a[0] and a[-1] <= b[-1]):
                                continue
                        elif a[0] != b[0] or a[-1] != b[-1]:
                            continue
                        cases += 1
                        try:
                            msg = run_divisions(layer, a, b, force)
                        except Exception as e:  # noqa
                            msg = f"{type(e).__name__}: {e}"
                        if msg:
                            fails.append(rtc.Failure("RepartitionDivisions._layer", {"a": a, "b": b, "force": force}, "ensures", "C44-rows-order-divisions", msg))
                            if len(fails) >= 400:
                                return _rep("RepartitionDivisions._layer (extracted source, partition model)", {"values": list(vals), "max_len": maxlen}, cases, fails, t0, {"a": [0, 2, 4], "b": [0, 1, 4], "force": False})
    return _rep("RepartitionDivisions._layer (extracted source, partition model)", {"values": list(vals), "max_len": maxlen}, cases, fails, t0, {"a": [0, 2, 4], "b": [0, 1, 4], "force": False})


def replay(native):
    args = eval(native["args_repr"])
    clean, comp, nspl = _funcs()
    if native["function"] == "_compute_partition_boundaries":
        msg = check_boundaries(comp, args["n_new"], args["n_old"])
        return {"reproduced": True, "detail": msg} if msg else None
    if native["function"] == "RepartitionDivisions._layer":
        methods = NS(boundary_slice="boundary_slice", concat="concat")
        layer = srcexec.load(F, "RepartitionDivisions._layer", {"methods": methods, "pformat": repr})
        try:
            msg = run_divisions(layer, args["a"], args["b"], args["force"])
        except Exception as e:  # noqa
            msg = repr(e)
        return {"reproduced": True, "detail": msg} if msg else None
    return {"reproduced": "rerun ./check C44 --tier quick"}


def pandas_helpers_sweep(tier, seed=0):
    """The two pandas-level helpers every repartition graph is made of, run on small frames (pandas is available even
    though dask.dataframe is not importable): split_evenly(df, k) cuts df into k consecutive pieces that concatenate
    to df; boundary_slice(df, lo, hi, right_boundary) keeps exactly the rows with lo <= index < hi (<= hi when
    right_boundary), duplicated index values included."""
    import numpy as np
    import pandas as pd

    t0 = time.time()
    cases, fails = 0, []
    split = srcexec.load("dask/dataframe/core.py", "split_evenly", {"np": np, "pd": pd})
    for n in list(range(0, 70)) + [97, 128, 200, 311, 1000, 1999]:
        df = pd.DataFrame({"x": np.arange(n)})
        for k in range(1, 41 if tier == "quick" else 64):
            cases += 1
            try:
                parts = split(df, k)
                got = [v for i in range(k) for v in parts[i]["x"].tolist()]
                msg = None
                if sorted(parts) != list(range(k)):
                    msg = f"split_evenly(len {n}, {k}) returns pieces {sorted(parts)[:5]}.."
                elif got != list(range(n)):
                    msg = f"split_evenly(len {n}, {k}): the pieces hold {len(got)} rows, the frame has {n} (same order: {got == list(range(n))})"
            except Exception as e:  # noqa
                msg = f"{type(e).__name__}: {e}"
            if msg and len(fails) < 4:
                fails.append(rtc.Failure("split_evenly", {"n": n, "k": k}, "ensures", "C44-rows-and-order", msg))
    bslice = srcexec.load("dask/dataframe/methods.py", "boundary_slice", {"np": np, "pd": pd})
    rnd = random.Random(seed)
    frames = [[0, 1, 2, 2, 2, 3, 4, 5], [0, 0, 0], [1, 1, 2, 3, 3], [5], list(range(6)), [0, 2, 2, 2, 2, 7], [3, 3, 4, 4, 4, 4, 5, 5]]
    for _ in range(40 if tier == "quick" else 400):
        frames.append(sorted(rnd.choice(range(8)) for _ in range(rnd.randrange(1, 10))))
    for idx in frames:
        df = pd.DataFrame({"v": np.arange(len(idx))}, index=idx)
        for lo in range(-1, 9):
            for hi in range(lo, 9):
                for rb in (False, True):
                    for lb in (True, False):
                        cases += 1
                        want = [v for v, i in zip(range(len(idx)), idx) if ((lo <= i) if lb else (lo < i)) and ((i <= hi) if rb else (i < hi))]
                        try:
                            got = bslice(df, lo, hi, rb, lb)["v"].tolist()
                            msg = None if got == want else f"boundary_slice(index {idx}, {lo}, {hi}, right_boundary={rb}, left_boundary={lb}) keeps rows {got}, the rows in that range are {want}"
                        except Exception as e:  # noqa
                            msg = f"{type(e).__name__}: {e}"
                        if msg and len(fails) < 8:
                            fails.append(rtc.Failure("boundary_slice", {"index": idx, "start": lo, "stop": hi, "right_boundary": rb, "left_boundary": lb}, "ensures", "C44-rows-and-order", msg))
    return _rep("dask/dataframe/core.py:split_evenly, dask/dataframe/methods.py:boundary_slice (extracted source on pandas frames; bounded only)",
                {"split_evenly": "lengths 0..69 + 6 larger x k 1..40 (quick) / 63", "boundary_slice": f"{len(frames)} sorted indexes with duplicates x all (start, stop) in -1..8 x right/left boundary flags"}, cases, fails, t0,
                {"n": 15, "k": 11})
