"""E2 for C23: normalize_chunks / rechunk on the real dask.array (bounded stand-in, not proof)."""
import itertools
import math
import random
import time

from . import rtc
from .overlap_native import chunkings


def check_normalized(res, shape):
    if len(res) != len(shape):
        return f"{len(res)} dimensions for shape {shape}"
    for c, s in zip(res, shape):
        if len(c) == 0:
            return f"empty chunk tuple in {res}"
        if sum(c) != s:
            return f"chunks {c} do not add up to {s}"
        if s == 0:
            if any(x != 0 for x in c):
                return f"dimension of size 0 has chunks {c}"
        elif any(x <= 0 for x in c):
            return f"non-positive chunk in {c} for dimension {s}"
    return None


def normalize_sweep(tier, seed):
    import numpy as np
    from dask.array.core import normalize_chunks

    t0 = time.time()
    cases, fails = 0, []
    dims = range(0, 7 if tier == "quick" else 12)
    specs1 = [1, 2, 3, 5, -1, None, "auto"]
    # explicit ints / -1 / None / tuples, 1-D and 2-D
    for s0 in dims:
        for spec in specs1 + [tuple(c) for c in itertools.islice(chunkings(s0), 6) if c]:
            cases += 1
            try:
                res = normalize_chunks((spec,) if not isinstance(spec, tuple) else (spec,), (s0,), dtype="i8", limit=64)
                msg = check_normalized(res, (s0,))
                if not msg and isinstance(spec, int) and spec > 0 and s0 > 0 and max(res[0]) > spec:
                    msg = f"chunk larger than requested size {spec}: {res}"
            except Exception as e:  # noqa
                msg = f"{type(e).__name__}: {e}"
            if msg:
                fails.append(rtc.Failure("normalize_chunks", {"chunks": spec, "shape": (s0,)}, "ensures", "C23-normalize", msg))
    for shape in itertools.product(range(0, 5), repeat=2):
        for spec in itertools.product([1, 2, -1, None, "auto"], repeat=2):
            cases += 1
            try:
                res = normalize_chunks(spec, shape, dtype="i8", limit=48)
                msg = check_normalized(res, shape)
            except Exception as e:  # noqa
                msg = f"{type(e).__name__}: {e}"
            if msg:
                fails.append(rtc.Failure("normalize_chunks", {"chunks": spec, "shape": shape}, "ensures", "C23-normalize", msg))
    # automatic chunks stay within the byte limit whenever one element fits
    rnd = random.Random(seed)
    autos = []
    for dtype in ("u1", "f4", "f8"):
        item = np.dtype(dtype).itemsize
        for limit in list(range(item, item * 6)) + [20, 30, 99, 1000, 1001]:
            if limit < item:
                continue
            for shape in [(100,), (7,), (100, 100), (1000, 5), (3, 3, 50)]:
                for spec in ["auto", ("auto",) * len(shape), {0: "auto", len(shape) - 1: -1} if len(shape) > 1 else {0: "auto"}]:
                    autos.append((dtype, item, limit, shape, spec))
    for dtype, item, limit, shape, spec in autos:
        cases += 1
        try:
            res = normalize_chunks(spec, shape, dtype=dtype, limit=limit)
            msg = check_normalized(res, shape)
            if not msg:
                big = math.prod(max(c) for c in res) * item
                fixed = [i for i in range(len(shape)) if isinstance(spec, dict) and spec.get(i) != "auto"]  # -1 / unspecified: full dimension
                floor_bytes = math.prod(shape[i] for i in fixed) * item if fixed else item
                if big > max(limit, floor_bytes):
                    msg = f"largest block is {big} bytes, limit {limit} (itemsize {item}): {res}"
        except Exception as e:  # noqa
            msg = f"{type(e).__name__}: {e}"
        if msg:
            fails.append(rtc.Failure("normalize_chunks", {"chunks": spec, "shape": shape, "dtype": dtype, "limit": limit}, "ensures", "C23-auto-within-byte-limit", msg))
    # automatic chunks that start from previous_chunks (what x.rechunk('auto') does): the documented slack is the factor
    # array.chunk-size-tolerance (1.25) on the whole block, not per dimension
    import dask.config as _cfg
    tol = _cfg.get("array.chunk-size-tolerance")
    pats = [(6, 6, 6, 6, 6, 12), (4,) * 8 + (20,), (5,) * 10, (7, 3) * 4, (10,), (1,) * 12, (3, 3, 3, 9, 9), (8, 8, 8, 2), (2,) * 20 + (30,), (16,) * 4]
    prevs = [(p_,) for p_ in pats] + list(itertools.product(pats, repeat=2))[:: (3 if tier == "quick" else 1)] + [tuple(rnd.choice(pats) for _ in range(3)) for _ in range(15 if tier == "quick" else 80)]
    nprev = 0
    for prev in prevs:
        shape = tuple(sum(p_) for p_ in prev)
        for dtype in ("u1", "f8"):
            item = np.dtype(dtype).itemsize
            base = sorted({item * math.prod(x_) for x_ in itertools.product(*[(1, 2, 3, 5, 8, 10, 13, 20) for _ in prev])})
            for limit in sorted(set(base + [b_ + item for b_ in base]))[: (25 if tier == "quick" else 60)]:
                cases += 1
                nprev += 1
                try:
                    res = normalize_chunks("auto", shape, dtype=dtype, limit=limit, previous_chunks=prev)
                    msg = check_normalized(res, shape)
                    if not msg:
                        big = math.prod(max(c) for c in res) * item
                        if big > max(limit * tol, item):
                            msg = f"largest block is {big} bytes, limit {limit} (tolerance x{tol}, itemsize {item}): {res}"
                except Exception as e:  # noqa
                    msg = f"{type(e).__name__}: {e}"
                if msg:
                    fails.append(rtc.Failure("normalize_chunks", {"chunks": "auto", "shape": shape, "dtype": dtype, "limit": limit, "previous_chunks": prev}, "ensures", "C23-auto-within-byte-limit", msg))
                    break
    return {"function": "dask/array/core.py:normalize_chunks (real code; bounded only)", "bounded": True,
            "bound": {"1-D sizes": list(dims)[-1], "2-D shapes": "0..4 x 0..4", "auto": f"{len(autos)} (dtype, limit, shape, spec) combinations", "auto with previous_chunks": f"{nprev} (previous chunks of 1-3 dimensions from {len(pats)} patterns, dtype, limit) combinations, slack x{tol}"},
            "cases": cases, "distinct_nontrivial": cases, "failures_found": len(fails), "wall_s": round(time.time() - t0, 2),
            "samples": [{"native_case": {"chunks": "auto", "shape": [100], "dtype": "f8", "limit": 20}}], "failures": fails[:5]}


def rechunk_sweep(tier, seed):
    import numpy as np

    import dask
    import dask.array as da

    t0 = time.time()
    cases, fails = 0, []
    budget = 40 if tier == "quick" else 900
    rnd = random.Random(seed)
    with dask.config.set(scheduler="sync"):
        # 1-D exhaustive: every pair of chunkings (incl. zero-size chunks in the source)
        for n in range(1, 6 if tier == "quick" else 7):
            x = np.arange(n)
            olds = list(chunkings(n)) + [(0,) + c for c in itertools.islice(chunkings(n), 3)] + [c + (0,) for c in itertools.islice(chunkings(n), 3)]
            for old in olds:
                for new in chunkings(n):
                    cases += 1
                    try:
                        r = da.from_array(x, chunks=(old,)).rechunk((new,))
                        ok = r.chunks == (new,) and np.array_equal(r.compute(), x)
                        msg = None if ok else f"result chunks {r.chunks}, values equal: {np.array_equal(r.compute(), x)}"
                    except Exception as e:  # noqa
                        msg = f"{type(e).__name__}: {e}"
                    if msg:
                        fails.append(rtc.Failure("rechunk", {"old": (old,), "new": (new,)}, "ensures", "C23-rechunk-exact", msg))
            if time.time() - t0 > budget:
                break
        # an integer block size as target, from every (irregular) source chunking: the result is the regular chunking
        for n in range(2, 8 if tier == "quick" else 10):
            x = np.arange(n)
            for old in chunkings(n):
                for k in range(1, n + 1):
                    cases += 1
                    q, r_ = divmod(n, k)
                    want = ((k,) * q + ((r_,) if r_ else ()),)
                    try:
                        for form in (k, (k,), {0: k}):
                            r = da.from_array(x, chunks=(old,)).rechunk(form)
                            if r.chunks != want or not np.array_equal(r.compute(), x):
                                raise AssertionError(f"rechunk({form!r}) of chunks {(old,)} gives {r.chunks}, requested {want}")
                        msg = None
                    except Exception as e:  # noqa
                        msg = f"{type(e).__name__}: {e}" if not isinstance(e, AssertionError) else str(e)
                    if msg and len(fails) < 5:
                        fails.append(rtc.Failure("rechunk", {"old": (old,), "new": k}, "ensures", "C23-rechunk-exact", msg))
        # target given as dict / tuple / list with None, -1 and omitted axes (None / omitted = keep the current chunks);
        # the same spec object reused on differently chunked arrays must not be modified by the call
        import copy as _copy
        x2 = np.arange(48).reshape(6, 8)
        sources = [((6,), (8,)), ((3, 3), (4, 4)), ((2, 4), (2, 2, 2, 2)), ((1,) * 6, (5, 3))]
        specs = [{0: 2}, {1: 4}, {0: 3, 1: None}, {0: None, 1: (3, 5)}, {-1: 2}, {-2: (1, 5), 1: -1}, {0: -1}, {},
                 (None, 4), (3, None), [None, 4], [2, None], [None, None], (None, -1), [(2, 4), None], (2, 4), [3, 8]]
        for spec in specs:
            keep = _copy.deepcopy(spec)
            for src in sources:
                cases += 1
                d = da.from_array(x2, chunks=src)
                items = spec.items() if isinstance(spec, dict) else enumerate(spec)
                per_axis = {(k + 2) % 2: v for k, v in items}
                want = []
                for ax in (0, 1):
                    v = per_axis.get(ax)
                    if v is None:
                        want.append(src[ax])
                    elif v == -1:
                        want.append((x2.shape[ax],))
                    elif isinstance(v, tuple):
                        want.append(v)
                    else:
                        q, r_ = divmod(x2.shape[ax], v)
                        want.append((v,) * q + ((r_,) if r_ else ()))
                try:
                    r = d.rechunk(spec)
                    msg = None
                    if r.chunks != tuple(want):
                        msg = f"rechunk({keep!r}) of chunks {src} gives {r.chunks}, requested {tuple(want)}"
                    elif spec != keep:
                        msg = f"rechunk modified the caller's chunk specification: {keep!r} became {spec!r}"
                    elif not np.array_equal(r.compute(), x2):
                        msg = "values changed"
                except Exception as e:  # noqa
                    msg = f"{type(e).__name__}: {e}"
                if msg:
                    fails.append(rtc.Failure("rechunk", {"shape": (6, 8), "old": src, "new": keep}, "ensures", "C23-rechunk-exact", msg))
                    break
            if len(fails) >= 3:
                break
        # 2-D with settings that force multi-stage plans
        pairs = [((410, 10), (5, 10), (41, 1)), ((100, 100), (1, 100), (100, 1)), ((60, 60), (2, 60), (60, 3)), ((20, 20), (20, 1), (1, 20)), ((30, 30), (3, 5), (7, 11))]
        for _ in range(20 if tier == "quick" else 200):
            a, b = rnd.randrange(20, 400), rnd.randrange(5, 40)
            ca, cb = rnd.randrange(1, 12), rnd.randrange(1, b + 1)
            na, nb = rnd.randrange(1, a + 1), rnd.randrange(1, 4)
            pairs.append(((a, b), (ca, cb), (na, nb)))
        # targets with zero-width chunks under settings that plan an intermediate step with a partial merge
        pairs += [((40, 40), ((2,) * 20, (20, 20)), ((20, 0, 20), (2,) * 20)), ((40, 40), ((2,) * 20, (20, 20)), ((0, 20, 20, 0), (2,) * 20)), ((40, 40), ((20, 20), (2,) * 20), ((2,) * 20, (20, 0, 20)))]
        for shape, old, new in pairs:
            for threshold, bsl in [(None, None), (1, None), (2, 10**4), (4, 399), (4, 3199)]:
                cases += 1
                x = np.arange(shape[0] * shape[1]).reshape(shape)
                try:
                    d = da.from_array(x, chunks=old)
                    kw = {}
                    if threshold is not None:
                        kw["threshold"] = threshold
                    if bsl is not None:
                        kw["block_size_limit"] = bsl
                    r = d.rechunk(new, **kw)
                    want = da.core.normalize_chunks(new, shape)
                    ok = r.chunks == want and np.array_equal(r.compute(), x)
                    msg = None if ok else f"result chunks differ from the target or values changed (chunks ok: {r.chunks == want})"
                except Exception as e:  # noqa
                    msg = f"{type(e).__name__}: {e}"
                if msg:
                    fails.append(rtc.Failure("rechunk", {"shape": shape, "old": old, "new": new, "threshold": threshold, "block_size_limit": bsl}, "ensures", "C23-rechunk-exact", msg))
                if time.time() - t0 > budget:
                    break
            if time.time() - t0 > budget or len(fails) >= 5:
                break
        # random non-nested chunkings of small 2-d / 3-d arrays under a tight graph budget (threshold=1) and a tiny block size
        # limit: plans with split passes between merge passes
        def _rand_chunks(n):
            out, left = [], n
            while left:
                c = rnd.randrange(1, min(left, 7) + 1)
                out.append(c)
                left -= c
            return tuple(out)

        nplan = 0
        for _ in range(1200 if tier == "quick" else 12000):
            if time.time() - t0 > budget * 2 or len(fails) >= 5:
                break
            nd = rnd.choice((2, 2, 3))
            shape = tuple(rnd.choice((12, 20, 30, 40)) if nd == 2 else rnd.choice((6, 10, 12)) for _ in range(nd))
            old = tuple(_rand_chunks(n_) for n_ in shape)
            new = tuple(_rand_chunks(n_) for n_ in shape)
            bsl = rnd.choice((8, 16, 64, 200, 768))
            th = rnd.choice((1, 1, 2))
            cases += 1
            nplan += 1
            x = np.arange(int(np.prod(shape))).reshape(shape)
            try:
                r = da.from_array(x, chunks=old).rechunk(new, threshold=th, block_size_limit=bsl)
                ok = r.chunks == new and np.array_equal(r.compute(), x)
                msg = None if ok else f"result chunks differ from the target or values changed (chunks ok: {r.chunks == new})"
            except Exception as e:  # noqa
                msg = f"{type(e).__name__}: {e}"
            if msg:
                fails.append(rtc.Failure("rechunk", {"shape": shape, "old": old, "new": new, "threshold": th, "block_size_limit": bsl}, "ensures", "C23-rechunk-exact", msg))
    return {"function": "dask/array/rechunk.py:rechunk/plan_rechunk (real code, NumPy values; bounded only)", "bounded": True,
            "bound": {"1-D": "all pairs of chunkings of length <= 5 (quick) / 6, zero-size source chunks included", "specs": "17 dict/tuple/list targets with None, -1, negative axes and omitted axes x 4 source chunkings, spec object reused", "2-D": f"{len(pairs)} (shape, old, new) x 3 plan settings", "time_budget_s": budget},
            "cases": cases, "distinct_nontrivial": cases, "failures_found": len(fails), "wall_s": round(time.time() - t0, 2),
            "samples": [{"native_case": {"shape": [410, 10], "old": [5, 10], "new": [41, 1]}}], "failures": fails[:5]}
