"""Debug helper: dump / re-solve single obligations."""
import importlib, sys, z3
from .run import generate

def dump(modname, pattern, out="/tmp/ob.smt2"):
    mod = importlib.import_module(modname)
    for r in generate(mod):
        if r.undecided_reason: print("UNDECIDED", r.contract.qualname, r.undecided_reason)
        for o in r.obligations:
            if pattern in o.name:
                open(out, "w").write(o.smt2())
                print("wrote", o.name, out, o.trail)
                return o
if __name__ == "__main__":
    o = dump(sys.argv[1], sys.argv[2])
    print("goal:", o.goal)
    for h in o.hyps[4:]: print("  H:", h)
