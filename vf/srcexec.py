"""Execute a function of a module that cannot be imported: the function's own source text,
extracted mechanically from /repo's working tree, is exec()'d in a namespace of stubs.
Dropped: decorators, the module's import side effects, everything else in the module."""
import ast

from . import extract


def load(relpath, qualname, ns=None, extra_defs=()):
    fn = extract.find_def(relpath, qualname)
    fn2 = ast.FunctionDef(name=fn.name, args=fn.args, body=fn.body, decorator_list=[], returns=None, type_comment=None, type_params=[])
    mod = ast.Module(body=[fn2], type_ignores=[])
    ast.fix_missing_locations(mod)
    env = dict(ns or {})
    for q in extra_defs:
        env[q.split(".")[-1]] = load(relpath, q, ns)
    exec(compile(mod, f"<{relpath}:{qualname}>", "exec"), env)
    return env[fn.name]
