"""E2 for C26: NumPy-level bounded runs of the real dask.array.overlap (bounded stand-in, not proof)."""
import itertools
import time

from . import rtc


def chunkings(n):
    """all compositions of n into positive parts"""
    if n == 0:
        yield ()
        return
    for first in range(1, n + 1):
        for rest in chunkings(n - first):
            yield (first,) + rest


def sweep(tier, seed=0):
    import numpy as np

    import dask
    import dask.array as da
    from dask.array.overlap import overlap_internal, trim_internal

    t0 = time.time()
    cases, fails = 0, []
    budget = 40 if tier == "quick" else 900
    with dask.config.set(scheduler="sync"):
        # (a) 2-D, a different boundary per axis (two different constants, constants mixed with modes): the reference pads
        #     the whole array axis by axis (axis 0 first), so the corner cells hold the LAST axis's fill
        modes = {"reflect": "symmetric", "periodic": "wrap", "nearest": "edge"}

        def pad_axis(p, ax, w, bnd):
            pw = [(0, 0)] * p.ndim
            pw[ax] = (w, w)
            return np.pad(p, pw, mode=modes[bnd]) if bnd in modes else np.pad(p, pw, mode="constant", constant_values=bnd)

        for shape, ch in [((6, 5), ((2, 2, 2), (3, 2))), ((9, 11), ((2, 2, 2, 3), (6, 5))), ((4, 4), ((4,), (4,)))]:
            x = np.arange(1, shape[0] * shape[1] + 1).reshape(shape)
            for depth in [(1, 1), (2, 1), (1, 2)]:
                for bnd in [(5, 7), (0, 100), (7, "reflect"), ("periodic", 3), ("nearest", "reflect"), {0: 5, 1: 7}, {1: 9, 0: "periodic"}]:
                    cases += 1
                    bb = bnd if isinstance(bnd, dict) else dict(enumerate(bnd))

                    def full(b, depth=depth):
                        out = np.zeros_like(b)
                        for i in range(-depth[0], depth[0] + 1):
                            for j in range(-depth[1], depth[1] + 1):
                                out = out + np.roll(np.roll(b, i, 0), j, 1)
                        return out

                    try:
                        got = da.from_array(x, chunks=ch).map_overlap(full, depth=depth, boundary=bnd, dtype=x.dtype).compute()
                        p = pad_axis(pad_axis(x, 0, depth[0], bb[0]), 1, depth[1], bb[1])
                        want = full(p)[depth[0]:-depth[0], depth[1]:-depth[1]]
                        msg = None if got.shape == want.shape and np.array_equal(got, want) else f"differs from the padded whole-array stencil at {np.argwhere(got != want)[:3].tolist() if got.shape == want.shape else got.shape}"
                    except Exception as e:  # noqa
                        msg = f"{type(e).__name__}: {e}"
                    if msg and len(fails) < 3:
                        fails.append(rtc.Failure("map_overlap", {"shape": shape, "chunks": ch, "depth": depth, "boundary": bnd}, "ensures", "C26-map_overlap-equals-padded-stencil", msg))
        # (b) several arrays of the same rank with a depth (and boundary) per array: every array is padded with its own
        #     depth, the result is trimmed with the depth of the FIRST array of maximal rank
        rng = np.random.default_rng(seed)
        for n, ch in [(12, (4, 4, 4)), (17, (5, 3, 6, 3)), (9, (9,))]:
            xn, yn = rng.integers(0, 100, n), rng.integers(0, 100, n)
            for (dx, dy) in [(1, 2), (2, 1), (1, 3)]:
                for bnd in ["reflect", "periodic", "nearest"]:
                    cases += 1
                    k = dy - dx

                    def two(xb, yb, dx=dx, dy=dy):
                        # result has the shape of xb; uses y at offsets -min(dx,dy)..+min(dx,dy) around each cell
                        m = min(dx, dy)
                        off = dy - dx
                        n_ = xb.shape[0]
                        yy = yb[off:off + n_] if off >= 0 else np.concatenate([np.zeros(-off, yb.dtype), yb, np.zeros(-off, yb.dtype)])
                        return xb + np.roll(yy, m) + np.roll(yy, -m)

                    try:
                        got = da.map_overlap(two, da.from_array(xn, chunks=(ch,)), da.from_array(yn, chunks=(ch,)), depth=[dx, dy], boundary=bnd, dtype=xn.dtype).compute()
                        want = two(np.pad(xn, dx, mode=modes[bnd]), np.pad(yn, dy, mode=modes[bnd]))[dx:-dx]
                        msg = None if got.shape == want.shape and np.array_equal(got, want) else f"result (shape {got.shape}) differs from pad-each-array / apply / trim-by-the-first-depth (shape {want.shape})"
                    except Exception as e:  # noqa
                        msg = f"{type(e).__name__}: {e}"
                    if msg and len(fails) < 3:
                        fails.append(rtc.Failure("map_overlap", {"n": n, "chunks": ch, "depth": [dx, dy], "boundary": bnd, "arrays": 2}, "ensures", "C26-map_overlap-equals-padded-stencil", msg))
        # (b2) drop_axis with a boundary per axis that mixes 'none' with a padded kind; a single-block lower-rank FIRST
        #      array next to a chunked higher-rank one (boundary 'none'): both against the unchunked computation
        xd = np.arange(48.0).reshape(6, 8)
        for ch in [((3, 3), (4, 4)), ((2, 2, 2), (3, 5))]:
            for dep, bnd, drop in [({1: 2}, {1: "reflect"}, 0), ({0: 1}, {0: "periodic"}, 1), ({1: 1}, {1: "nearest", 0: "none"}, 0), ({0: 2, 1: 0}, {0: "reflect", 1: "none"}, 1)]:
                cases += 1
                keep = 1 - drop
                d_ = dep.get(keep, 0)

                def red(b, drop=drop):
                    out = b.sum(axis=drop)
                    return out

                try:
                    got = da.from_array(xd, chunks=ch).map_overlap(red, depth=dep, boundary=bnd, drop_axis=drop, dtype=xd.dtype).compute()
                    want = xd.sum(axis=drop)
                    msg = None if (got.shape == want.shape and np.allclose(got, want)) else f"map_overlap(sum over axis {drop}, depth={dep}, boundary={bnd}, drop_axis={drop}) on chunks {ch}: shape {got.shape} vs {want.shape}, or values differ"
                except Exception as e:  # noqa
                    msg = f"{type(e).__name__}: {e}"
                if msg and len(fails) < 3:
                    fails.append(rtc.Failure("map_overlap", {"shape": (6, 8), "chunks": ch, "depth": dep, "boundary": bnd, "drop_axis": drop}, "ensures", "C26-map_overlap-equals-padded-stencil", msg))
        v1 = np.arange(8.0)
        for ch2 in [((3, 3), (8,)), ((2, 2, 2), (4, 4)), ((6,), (8,))]:
            for order in ("low-rank first", "high-rank first"):
                cases += 1

                def rowdiff(*bl):
                    a2 = bl[0] if bl[0].ndim == 2 else bl[1]
                    a1 = bl[1] if bl[0].ndim == 2 else bl[0]
                    up = np.roll(a2, 1, axis=0)
                    dn = np.roll(a2, -1, axis=0)
                    return up + dn + a1

                try:
                    A2, A1 = da.from_array(xd, chunks=ch2), da.from_array(v1, chunks=(ch2[1],))
                    args_ = (A1, A2) if order == "low-rank first" else (A2, A1)
                    got = da.map_overlap(rowdiff, *args_, depth=[{0: 1, 1: 0}, {0: 0}] if order == "high-rank first" else [{0: 0}, {0: 1, 1: 0}], boundary="none", dtype=xd.dtype, align_arrays=True).compute()
                    want = rowdiff(xd, v1)
                    inner = slice(1, -1)
                    msg = None if (got.shape == want.shape and np.allclose(got[inner], want[inner])) else f"map_overlap over a 1-d and a 2-d array ({order}, chunks {ch2}): interior rows differ from the unchunked computation"
                except Exception as e:  # noqa
                    msg = f"{type(e).__name__}: {e}"
                if msg and len(fails) < 3:
                    fails.append(rtc.Failure("map_overlap", {"shapes": [(8,), (6, 8)], "chunks": ch2, "order": order, "boundary": "none"}, "ensures", "C26-map_overlap-equals-padded-stencil", msg))
        # (c) sliding_window_view equals NumPy's: every chunking of short 1-D arrays x every window length, some 2-D cases
        from numpy.lib.stride_tricks import sliding_window_view as np_swv
        for n in range(2, 9 if tier == "quick" else 11):
            xs = np.arange(n) * 3 + 1
            for ch in chunkings(n):
                for w in range(1, n + 1):
                    cases += 1
                    try:
                        got = da.lib.stride_tricks.sliding_window_view(da.from_array(xs, chunks=(ch,)), w)
                        want = np_swv(xs, w)
                        msg = None if (got.shape == want.shape and np.array_equal(got.compute(), want)) else f"sliding_window_view(window={w}) on chunks {ch}: shape {got.shape}, NumPy's {want.shape}, or values differ"
                    except Exception as e:  # noqa
                        msg = f"sliding_window_view(window={w}) on chunks {ch} raised {type(e).__name__}: {e}"
                    if msg and len(fails) < 3:
                        fails.append(rtc.Failure("sliding_window_view", {"n": n, "chunks": ch, "window": w}, "ensures", "C26-sliding-window-equals-numpy", msg))
        x2s = np.arange(42).reshape(6, 7)
        for ch in [((3, 3), (4, 3)), ((3, 3), (4, 2, 1)), ((2, 2, 2), (7,)), ((6,), (3, 2, 2)), ((4, 2), (5, 2))]:
            for w, ax in [((2, 3), None), ((3, 2), None), (3, 0), (2, 1), ((2, 3), (0, 0)), ((2, 2), (1, 0))]:
                cases += 1
                try:
                    kw = {} if ax is None else {"axis": ax}
                    got = da.lib.stride_tricks.sliding_window_view(da.from_array(x2s, chunks=ch), w, **kw)
                    want = np_swv(x2s, w, **kw)
                    msg = None if (got.shape == want.shape and np.array_equal(got.compute(), want)) else f"sliding_window_view({w}, axis={ax}) on chunks {ch}: shape {got.shape} vs NumPy's {want.shape}, or values differ"
                except Exception as e:  # noqa
                    msg = f"sliding_window_view({w}, axis={ax}) on chunks {ch} raised {type(e).__name__}: {e}"
                if msg and len(fails) < 3:
                    fails.append(rtc.Failure("sliding_window_view", {"shape": (6, 7), "chunks": ch, "window": w, "axis": ax}, "ensures", "C26-sliding-window-equals-numpy", msg))
        # 1-D and 2-D: overlap then trim is the identity, for every chunking and depth (int / asymmetric tuple)
        for n in range(1, 6 if tier == "quick" else 8):
            x = np.arange(n)
            for ch in chunkings(n):
                for depth in [0, 1, 2, (1, 0), (0, 2), (2, 1)]:
                    dmax = max(depth) if isinstance(depth, tuple) else depth
                    if min(ch) < dmax:
                        continue
                    cases += 1
                    d = da.from_array(x, chunks=(ch,))
                    try:
                        r = trim_internal(overlap_internal(d, {0: depth}), {0: depth})
                        ok = r.chunks == d.chunks and np.array_equal(r.compute(), x)
                        msg = None if ok else f"chunks {r.chunks} vs {d.chunks}; values equal={np.array_equal(r.compute(), x)}"
                    except Exception as e:  # noqa
                        msg = f"{type(e).__name__}: {e}"
                    if msg:
                        fails.append(rtc.Failure("overlap_trim_identity", {"n": n, "chunks": ch, "depth": depth}, "ensures", "C26-overlap-then-trim-is-identity", msg))
            if time.time() - t0 > budget or len(fails) >= 3:
                break
        # 1-D map_overlap with two-sided asymmetric depths (boundary 'none'), chunks smaller than either side included
        # (allow_rechunk merges them): equals the truncated-window stencil on the whole array
        for n in range(2, 8 if tier == "quick" else 10):
            x = np.arange(1, n + 1) ** 2
            for ch in chunkings(n):
                for before, after in [(1, 2), (2, 1), (1, 3), (3, 1), (2, 3), (0, 2), (2, 0)]:
                    if before > n or after > n:
                        continue
                    cases += 1

                    def win(b, before=before, after=after):
                        out = np.zeros_like(b)
                        for k in range(-before, after + 1):
                            sh = np.zeros_like(b)
                            if k >= 0:
                                sh[: len(b) - k] = b[k:]
                            else:
                                sh[-k:] = b[: len(b) + k]
                            out = out + sh
                        return out

                    try:
                        got = da.from_array(x, chunks=(ch,)).map_overlap(win, depth={0: (before, after)}, boundary="none", dtype=x.dtype).compute()
                        want = win(x)
                        msg = None if got.shape == want.shape and np.array_equal(got, want) else f"map_overlap gives {got.tolist()}, the whole-array stencil {want.tolist()}"
                    except Exception as e:  # noqa
                        msg = f"{type(e).__name__}: {e}"
                    if msg:
                        fails.append(rtc.Failure("map_overlap", {"n": n, "chunks": ch, "depth": (before, after), "boundary": "none"}, "ensures", "C26-map_overlap-equals-padded-stencil", msg))
                        break
                if fails:
                    break
            if time.time() - t0 > budget or fails:
                break
        # map_overlap vs padding the whole array, 2-D, depth given as int / tuple / dict in any key order
        shapes = [(6, 10), (5, 4)] if tier == "quick" else [(6, 10), (5, 4), (7, 3), (4, 9)]
        for shape in shapes:
            x = np.arange(shape[0] * shape[1]).reshape(shape)
            chs = [((shape[0],), (shape[1],)), ((shape[0] - 1, 1), (1,) * shape[1]), ((2,) * (shape[0] // 2) + ((shape[0] % 2,) if shape[0] % 2 else ()), (shape[1] - 3, 3))]
            for ch in chs:
                for depth in [1, (1, 2), {0: 1, 1: 2}, {1: 2, 0: 1}, {1: 1}, {0: 2, 1: 0}]:
                    for boundary in ["none", "reflect", "periodic", "nearest", 0]:
                        cases += 1
                        d = da.from_array(x, chunks=ch)
                        dd = depth if isinstance(depth, dict) else ({0: depth, 1: depth} if isinstance(depth, int) else dict(enumerate(depth)))
                        pad = [(dd.get(a, 0), dd.get(a, 0)) for a in range(2)]

                        def stencil(b):
                            # sum of the (2*d0+1)x(2*d1+1) window, computed with rolls
                            out = np.zeros_like(b)
                            for i in range(-pad[0][0], pad[0][0] + 1):
                                for j in range(-pad[1][0], pad[1][0] + 1):
                                    out = out + np.roll(np.roll(b, i, 0), j, 1)
                            return out

                        try:
                            got = d.map_overlap(stencil, depth=depth, boundary=boundary, dtype=x.dtype).compute()
                            if boundary == "none":
                                want = None
                                ok = got.shape == x.shape
                            else:
                                mode = {"reflect": "symmetric", "periodic": "wrap", "nearest": "edge"}.get(boundary, "constant")
                                p = np.pad(x, pad, mode=mode) if mode != "constant" else np.pad(x, pad, mode="constant", constant_values=boundary)
                                want = stencil(p)[pad[0][0]:p.shape[0] - pad[0][1] or None, pad[1][0]:p.shape[1] - pad[1][1] or None]
                                ok = got.shape == want.shape and np.array_equal(got, want)
                            msg = None if ok else f"map_overlap result shape {got.shape} differs from the padded whole-array stencil (shape {None if want is None else want.shape})"
                        except Exception as e:  # noqa
                            msg = f"{type(e).__name__}: {e}"
                        if msg:
                            fails.append(rtc.Failure("map_overlap", {"shape": shape, "chunks": ch, "depth": depth, "boundary": boundary}, "ensures", "C26-map_overlap-equals-padded-stencil", msg))
                        if time.time() - t0 > budget or len(fails) >= 3:
                            break
                    if time.time() - t0 > budget or len(fails) >= 3:
                        break
                if time.time() - t0 > budget or len(fails) >= 3:
                    break
            if time.time() - t0 > budget or len(fails) >= 3:
                break
    return {"function": "dask/array/overlap.py: overlap_internal/trim_internal/map_overlap (real code, NumPy values; bounded only)", "bounded": True,
            "bound": {"1-D lengths": "1..5 (quick) / 1..7, all chunkings, depths 0,1,2,(1,0),(0,2),(2,1)", "1-D asymmetric": "lengths 2..7 (quick) / 2..9, all chunkings (chunks smaller than the depth included), depths (1,2),(2,1),(1,3),(3,1),(2,3),(0,2),(2,0), boundary none", "2-D": "fixed shapes x 3 chunkings x 6 depth specs (incl. dicts in both key orders) x 5 boundaries", "2-D per-axis boundary": "3 shapes x 3 depths x 7 per-axis boundary specs (two constants, constant + mode, dicts)", "two arrays": "3 lengths x depth pairs (1,2),(2,1),(1,3) x 3 modes", "sliding_window_view": "1-D lengths 2..8 (quick) / 2..10, every chunking x every window; 5 chunkings x 6 window/axis specs in 2-D", "time_budget_s": budget},
            "cases": cases, "distinct_nontrivial": cases, "failures_found": len(fails), "wall_s": round(time.time() - t0, 2),
            "samples": [{"native_case": {"shape": [6, 10], "chunks": [[6], [10]], "depth": {"1": 2, "0": 1}, "boundary": "reflect"}}], "failures": fails}
