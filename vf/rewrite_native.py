"""E2 for C51: RuleSet.iter_matches / rewrite on the real dask.rewrite vs a brute-force matcher (bounded)."""
import itertools
import random
import time

from . import rtc


def f(*a):
    return ("f",) + a


def g(*a):
    return ("g",) + a


def h(*a):
    return ("h",) + a


CONSTS = ["a", 0, 1, "", None]
VARS = ("x", "y")


def terms(depth, atoms):
    if depth == 0:
        return list(atoms)
    sub = terms(depth - 1, atoms)
    out = list(atoms)
    for t in sub:
        out.append((g, t))
    for t, u in itertools.product(sub, repeat=2):
        out.append((f, t, u))
    return out


def match(pat, term, vars, subs):
    """Syntactic matching of pattern against term: dict or None."""
    if isinstance(pat, str) and pat in vars:
        if pat in subs:
            return subs if _eq(subs[pat], term) else None
        s2 = dict(subs)
        s2[pat] = term
        return s2
    if isinstance(pat, tuple) and pat and callable(pat[0]):
        if not (isinstance(term, tuple) and term and callable(term[0]) and term[0] is pat[0] and len(term) == len(pat)):
            return None
        for p, t in zip(pat[1:], term[1:]):
            subs = match(p, t, vars, subs)
            if subs is None:
                return None
        return subs
    return subs if _eq(pat, term) and type(pat) is type(term) else None


def _eq(a, b):
    return type(a) is type(b) and a == b


def _arities(t, acc=None):
    """function symbol -> set of argument counts it is applied with inside t"""
    acc = {} if acc is None else acc
    if isinstance(t, tuple) and t and callable(t[0]):
        acc.setdefault(t[0].__name__, set()).add(len(t) - 1)
        for a in t[1:]:
            _arities(a, acc)
    return acc


def sweep(tier, seed=0):
    from dask.rewrite import RewriteRule, RuleSet

    t0 = time.time()
    rnd = random.Random(seed)
    pats = [p for p in terms(2, list(VARS) + ["a", 0]) if isinstance(p, tuple)]
    # keep patterns with at least one variable; rhs marks which rule fired
    pats = [p for p in pats if any(v in repr(p) for v in VARS)]
    tms = terms(2, CONSTS[:4]) if tier != "quick" else terms(2, CONSTS[:3])
    cases, fails = 0, []
    nsets = 120 if tier == "quick" else 1500
    rulesets = [[p] for p in rnd.sample(pats, min(len(pats), 40))]
    for _ in range(nsets):
        rulesets.append(rnd.sample(pats, rnd.choice([2, 2, 3])))
    # the shapes that matter: a specific non-linear rule next to a more general one
    rulesets += [[(f, (g, "x"), (g, "x")), (f, "x", "y")], [(f, "x", "x"), (f, "x", "y")], [(f, "x", "x")], [(f, "x", (g, "x")), (f, "x", "y"), (f, "a", "y")]]
    # rules whose left-hand side is a bare variable (stored under the root variable edge) or a constant, next to
    # ordinary rules: terms whose head starts no other rule must still reach them
    rulesets += [["x"], [(f, "x", "x"), "x"], [(f, "x", 1), 1, "x"], [0, (g, "x")], ["x", (g, (g, "x"))], [1, "a"]]
    for lhss in rulesets:
        rules = [RewriteRule(lhs, (h, i) + VARS[: 1 + ("y" in repr(lhs))] if False else (h, i), VARS) for i, lhs in enumerate(lhss)]
        rs = RuleSet(*rules)
        sample = tms if len(lhss) > 1 or tier != "quick" else tms[::3]
        for term in sample:
            cases += 1
            try:
                want = {}
                for i, lhs in enumerate(lhss):
                    m = match(lhs, term, VARS, {})
                    if m is not None:
                        want[i] = m
                got = {}
                msg = None
                for rule, subs in rs.iter_matches(term):
                    i = rules.index(rule)
                    if i in got:
                        msg = f"rule {i} yielded twice"
                    got[i] = subs
                if msg is None and set(got) != set(want):
                    msg = f"iter_matches yields rules {sorted(got)}, the rules whose left-hand side matches are {sorted(want)}"
                if msg is None:
                    for i in got:
                        if {k: repr(v) for k, v in got[i].items()} != {k: repr(v) for k, v in want[i].items()}:
                            msg = f"rule {i}: bindings {got[i]!r}, instantiating the lhs with them does not give the term (expected {want[i]!r})"
                            break
                if msg is None:
                    out = rs.rewrite(term, strategy="top_level")
                    if want:
                        ok = any(out == (h, i) for i in want)
                        if not ok:
                            msg = f"a rule matches ({sorted(want)}) but top-level rewrite returned {out!r}"
                    elif not (out is term or out == term):
                        msg = f"no rule matches but the term was rewritten to {out!r}"
            except Exception as e:  # noqa
                msg = f"{type(e).__name__}: {e}"
            if msg:
                fails.append(rtc.Failure("RuleSet.iter_matches", {"rules": [repr(x) for x in lhss], "term": repr(term)}, "ensures", "C51-sound-and-complete", msg))
                if len(fails) >= 5:
                    break
        if len(fails) >= 5:
            break
    # one function symbol applied with different numbers of arguments in the rule and in the term (the discrimination
    # net is built from a flat traversal and cannot see where the arguments of a task end)
    if len(fails) < 5:
        mixed_pats = [(f, (g, "x"), "y"), (f, "x", "y"), (f, "x", (g, "y")), (g, "x"), (f, (g, "x", "y"), "x")]
        sub = [1, 0, (g, 1), (g, 0, 1), (g,)]
        mixed_terms = [(f, a) for a in sub] + [(f, a, b) for a in sub for b in sub] + [(f, a, b, c) for a in sub[:3] for b in sub[:3] for c in sub[:2]] + [(g,), (g, 1), (g, 1, 0), (f,)]
        for lhs in mixed_pats:
            rule = RewriteRule(lhs, (h, 0), VARS)
            rs = RuleSet(rule)
            for term in mixed_terms:
                cases += 1
                want = match(lhs, term, VARS, {})
                mismatch = _arities(lhs) != {k: v for k, v in _arities(term).items() if k in _arities(lhs)} or any(k not in _arities(lhs) for k in _arities(term))
                try:
                    got = [sb for _, sb in rs.iter_matches(term)]
                    ok = (want is None and not got) or (want is not None and len(got) == 1 and {k: repr(v) for k, v in got[0].items()} == {k: repr(v) for k, v in want.items()})
                    msg = None if ok else f"iter_matches yields bindings {got!r}; instantiating the left-hand side with them does not give the term (correct answer: {want!r})"
                except Exception as e:  # noqa
                    msg = f"{type(e).__name__}: {e}"
                if msg:
                    fails.append(rtc.Failure("RuleSet.iter_matches", {"rules": [repr(lhs)], "term": repr(term), "arity_mismatch": bool(mismatch)}, "ensures", "C51-sound-and-complete", msg))
                    if sum(1 for x in fails if not x.args.get("arity_mismatch")) >= 3 or len(fails) >= 40:
                        break
            if len(fails) >= 40:
                break
    # right-hand sides that hold their variables inside lists (and lists inside lists): the result of a top-level
    # rewrite is the rhs with the bindings substituted everywhere
    def _inst(t, sb):
        # like dask.core.subs: lists and tasks (tuples headed by a callable) are traversed, other tuples are literals
        if isinstance(t, list) or (isinstance(t, tuple) and t and callable(t[0])):
            return type(t)(_inst(a_, sb) for a_ in t)
        try:
            return sb[t] if t in sb else t
        except TypeError:
            return t

    if sum(1 for x in fails if not x.args.get("arity_mismatch")) < 5:
        for lhs, rhs in [((f, "x", "y"), (g, ["x", ["y"]])), ((f, "x", "y"), ["y", "x"]), ((g, "x"), (h, "x", ["x", [0, "x"]])), ((f, "x", "x"), [["x"], 0])]:
            rs = RuleSet(RewriteRule(lhs, rhs, VARS))
            for term in [t for t in tms if isinstance(t, tuple)][:: 2 if tier == "quick" else 1]:
                cases += 1
                m = match(lhs, term, VARS, {})
                try:
                    got = rs.rewrite(term, strategy="top_level")
                    want = term if m is None else _inst(rhs, m)
                    msg = None if repr(got) == repr(want) else f"top-level rewrite of {term!r} with rhs {rhs!r} returned {got!r}, the rhs with the bindings {m!r} substituted is {want!r}"
                except Exception as e:  # noqa
                    msg = f"{type(e).__name__}: {e}"
                if msg:
                    fails.append(rtc.Failure("RuleSet.iter_matches", {"rules": [repr(lhs) + " -> " + repr(rhs)], "term": repr(term), "rhs_with_lists": True}, "ensures", "C51-sound-and-complete", msg))
                    break
    # a RuleSet that grows through RuleSet.add, with rewrites in between: after every add the answers are those of a
    # RuleSet built from the same rules at once (nothing remembered from before the add may survive)
    if sum(1 for x in fails if not x.args.get("arity_mismatch")) < 5:
        grow = [[(f, "x", "x"), (f, "x", "y"), (g, "x")], [(g, (g, "x")), (g, "x"), (f, (g, "x"), "y")], [(f, "a", "x"), (f, "x", 0), (f, "x", "y")]]
        probe = [t for t in tms if isinstance(t, tuple)][:: 2 if tier == "quick" else 1]
        for lhss in grow:
            rules = [RewriteRule(lhs, (h, i), VARS) for i, lhs in enumerate(lhss)]
            rs = RuleSet()
            for n, rule in enumerate(rules, 1):
                rs.add(rule)
                ref = RuleSet(*rules[:n])
                for term in probe:
                    cases += 1
                    try:
                        got, want = rs.rewrite(term, strategy="top_level"), ref.rewrite(term, strategy="top_level")
                        gm = sorted(rules.index(r) for r, _ in rs.iter_matches(term))
                        wm = sorted(i for i in range(n) if match(lhss[i], term, VARS, {}) is not None)
                        msg = None
                        if gm != wm:
                            msg = f"after add() number {n}: iter_matches yields rules {gm}, the matching rules are {wm}"
                        elif wm and not any(got == (h, i) for i in wm):
                            msg = f"after add() number {n}: rules {wm} match but top-level rewrite returned {got!r} (a RuleSet built at once returns {want!r})"
                        elif not wm and not (got is term or got == term):
                            msg = f"after add() number {n}: no rule matches but the term was rewritten to {got!r}"
                    except Exception as e:  # noqa
                        msg = f"{type(e).__name__}: {e}"
                    if msg:
                        fails.append(rtc.Failure("RuleSet.iter_matches", {"rules": [repr(x) for x in lhss[:n]], "term": repr(term), "history": "add/rewrite/add"}, "ensures", "C51-sound-and-complete", msg))
                        break
    return {"function": "dask/rewrite.py:RuleSet.iter_matches/_rewrite (real code) vs a brute-force matcher", "bounded": True,
            "bound": {"alphabet": "f/2, g/1, constants 'a', 0, 1, '' (falsy ones included), variables x, y", "pattern/term depth": 2, "rule sets": len(rulesets)},
            "cases": cases, "distinct_nontrivial": cases, "failures_found": len(fails), "wall_s": round(time.time() - t0, 2),
            "samples": [{"native_case": {"rules": ["(f, (g, 'x'), (g, 'x'))", "(f, 'x', 'y')"], "term": "(f, (g, 1), (g, 2))"}}], "failures": fails[:40]}
