"""E2 for C09: low-level graph optimisations on the real code preserve requested values (bounded)."""
import itertools
import random
import time

from . import rtc

NAMES = ["a-1", "a-2", "b-3", "b-c", "c", "out-1"]


def mkf(i):
    def f(*args):
        return (i,) + args
    f.__name__ = f"f{i}"
    return f


FUNCS = [mkf(i) for i in range(8)]


def graphs(n, rnd=None, count=None):
    """Legacy graphs: node i is data, an alias of an earlier key, or a task over a subset of earlier keys."""
    def options(i):
        opts = [("D", ())]
        for d in range(i):
            opts.append(("A", (d,)))
        for r in range(0, min(i, 3) + 1):
            for deps in itertools.combinations(range(i), r):
                opts.append(("T", deps))
        return opts

    if rnd is None:
        for combo in itertools.product(*[options(i) for i in range(n)]):
            yield combo
    else:
        for _ in range(count):
            yield tuple(rnd.choice(options(i)) for i in range(n))


def build(spec):
    names = NAMES[: len(spec)]
    dsk = {}
    for i, (kind, deps) in enumerate(spec):
        if kind == "D":
            dsk[names[i]] = ("lit", i)
        elif kind == "A":
            dsk[names[i]] = names[deps[0]]
        else:
            dsk[names[i]] = (FUNCS[i],) + tuple(names[d] for d in deps)
    return dsk


def reference(dsk, keys):
    memo = {}

    def ev(k):
        if k not in memo:
            t = dsk[k]
            if type(t) is tuple and t and callable(t[0]):
                memo[k] = t[0](*[ev(a) for a in t[1:]])
            elif isinstance(t, str) and t in dsk:
                memo[k] = ev(t)
            else:
                memo[k] = t
        return memo[k]

    return [ev(k) for k in keys]


def transforms():
    from dask import optimization as O
    from dask._task_spec import DependenciesMapping, convert_legacy_graph, fuse_linear_task_spec, resolve_aliases
    from dask.core import get_dependencies, reverse_dict

    def t_cull(dsk, keys):
        out, deps = O.cull(dsk, keys)
        return out, deps

    def t_inline(dsk, keys):
        return O.inline(dsk, [k for k in dsk if k not in keys][:2], inline_constants=True), None

    def t_inline_functions(dsk, keys):
        return O.inline_functions(dsk, keys, fast_functions=FUNCS[:4]), None

    def t_inline_functions_constants(dsk, keys):
        return O.inline_functions(dsk, keys, fast_functions=FUNCS[:4], inline_constants=True), None

    def t_inline_functions_dependencies(dsk, keys):
        return O.inline_functions(dsk, keys, fast_functions=FUNCS[:4], dependencies={k: get_dependencies(dsk, k) for k in dsk}), None

    def t_fuse_linear(dsk, keys):
        out, deps = O.fuse_linear(dsk, keys)
        return out, deps

    def mk_fuse(**kw):
        def t(dsk, keys):
            out, deps = O.fuse(dsk, keys, **kw)
            return out, deps
        t.__name__ = "fuse(%s)" % ",".join(f"{k}={v}" for k, v in kw.items())
        return t

    def t_fuse_spec(dsk, keys):
        g = convert_legacy_graph(dsk)
        return fuse_linear_task_spec(g, set(keys)), None

    def t_resolve_aliases(dsk, keys):
        g = convert_legacy_graph(dsk)
        return resolve_aliases(g, set(keys), reverse_dict(DependenciesMapping(g))), None

    ts = [t_cull, t_inline, t_inline_functions, t_inline_functions_constants, t_inline_functions_dependencies, t_fuse_linear, t_fuse_spec, t_resolve_aliases]
    for aw in (1, 2, float("inf")):
        for rk in (True, False):
            ts.append(mk_fuse(ave_width=aw, rename_keys=rk))
    ts.append(mk_fuse(ave_width=3, max_width=2, max_height=2, rename_keys=True))
    ts.append(mk_fuse(ave_width=2, max_depth_new_edges=1, rename_keys=lambda keys: "-".join(str(k).split("-")[0] for k in keys)))
    return ts


def check_one(t, dsk, keys):
    import dask
    from dask.core import get_dependencies

    want = reference(dsk, keys)
    out, deps = t(dict(dsk), list(keys))
    for k in keys:
        if k not in out:
            return f"requested key {k!r} is missing from the optimised graph"
    missing = [(k, d) for k in out for d in _deps_of(out, k) if d not in out]
    if missing:
        return f"dangling references in the optimised graph: {missing[:3]}"
    got = dask.get(out, list(keys))
    if list(got) != want:
        return f"values changed: {list(got)!r} instead of {want!r}"
    if deps is not None:
        for k in out:
            if set(deps.get(k, ())) != set(_deps_of(out, k)):
                return f"returned dependency map says {sorted(deps.get(k, ()))} for {k!r}, the returned graph says {sorted(_deps_of(out, k))}"
    return None


def _deps_of(g, k):
    from dask._task_spec import GraphNode
    from dask.core import get_dependencies

    v = g[k]
    if isinstance(v, GraphNode):
        return set(v.dependencies)
    return set(get_dependencies(g, k))


def sweep(tier, seed=0):
    t0 = time.time()
    rnd = random.Random(seed)
    ts = transforms()
    cases, fails = 0, []
    budget = 60 if tier == "quick" else 1500
    plan = [(n, None, None) for n in range(1, 5)] + [(5, rnd, 300 if tier == "quick" else 4000), (6, rnd, 200 if tier == "quick" else 4000)]
    seen_fail = set()
    for n, r, cnt in plan:
        for spec in graphs(n, r, cnt):
            dsk = build(spec)
            names = NAMES[:n]
            keysets = [[names[-1]]] + ([[names[-1], names[-2]]] if n > 1 else []) + ([rnd.sample(names, rnd.randrange(1, n + 1))] if n > 2 else [])
            for keys in keysets:
                for t in ts:
                    cases += 1
                    try:
                        msg = check_one(t, dsk, keys)
                    except Exception as e:  # noqa
                        msg = f"{type(e).__name__}: {e}"
                    if msg and t.__name__ not in seen_fail:
                        seen_fail.add(t.__name__)
                        fails.append(rtc.Failure(t.__name__.replace("t_", ""), {"graph": {k: repr(v) for k, v in dsk.items()}, "keys": keys}, "ensures", "C09-optimisation-preserves-requested-values", msg))
            if time.time() - t0 > budget:
                break
        if time.time() - t0 > budget:
            break
    return {"function": "dask/optimization.py + dask/_task_spec.py optimisations (real code) vs a reference evaluator", "bounded": True,
            "bound": {"exhaustive nodes": 4, "random 5-6 node graphs": plan[-1][2], "transforms": [t.__name__ for t in ts], "keys with hyphens (renaming collisions)": True, "time_budget_s": budget},
            "cases": cases, "distinct_nontrivial": cases, "failures_found": len(fails), "wall_s": round(time.time() - t0, 2),
            "samples": [{"native_case": {"graph": {"a-1": "('lit', 0)", "a-2": "(f1, 'a-1')"}, "keys": ["a-2"]}}], "failures": fails[:6]}
