"""E2 for the scheduler (C01–C05): the REAL dask.local.get_async driven by a controlled executor.

`submit` only records the batch; the (monkey-patched) `queue_get` chooses which pending batch
completes next.  Enumerating those choices enumerates completion interleavings on the real
code, deterministically.  After every transition the representation invariant WF — the same
contract text the prover uses (contracts/local.py) — is evaluated natively on the real `state`.

This is the bounded stand-in / replay harness: labelled bounded, never counted as proved.
"""
import itertools
from concurrent.futures import Future

from . import rtc


class Hang(Exception):
    pass


class Violation(Exception):
    def __init__(self, clause, detail):
        super().__init__(f"{clause}: {detail}")
        self.clause = clause
        self.detail = detail


_PRODUCER = False  # variant run: every task carries the data-producer flag that from_array / IO layers put on root tasks
_KEYNAMES = None  # optional renaming of the generated keys (falsy keys 0, '', () ...), set by the sweep for variant runs


def _rename(request):
    if not _KEYNAMES:
        return request
    if isinstance(request, list):
        return [_rename(r) for r in request]
    return _KEYNAMES.get(request, request)


def make_graph(spec, fail=()):
    """spec: tuple of (kind, deps) per node in topological order; kind in 'T' (task) 'D' (data) 'A' (alias).
    Returns (dsk, denote, counters)."""
    from dask._task_spec import Alias, DataNode, Task, TaskRef

    names = [chr(ord("A") + i) if i >= 26 else chr(ord("a") + i) for i in range(len(spec))]
    if _KEYNAMES:
        names = [_KEYNAMES.get(x, x) for x in names]
    runs = {}
    recv = {}
    denote = {}
    dsk = {}

    def mkfunc(name, deps):
        def f(*args):
            runs[name] = runs.get(name, 0) + 1
            recv[name] = args
            if name in fail:
                raise FailingTask(name)
            return (name,) + tuple(args)

        f.__name__ = f"f_{name}"
        return f

    for name, (kind, deps) in zip(names, spec):
        dn = [names[i] for i in deps]
        if kind == "C":
            denote[name] = ("ext", name)  # supplied through the caller's cache= mapping, not part of the graph
        elif kind == "D":
            dsk[name] = DataNode(name, ("lit", name))
            denote[name] = ("lit", name)
        elif kind in ("N", "Z"):
            # literal data whose value is None / falsy: still a value, never "missing"
            denote[name] = None if kind == "N" else 0
            dsk[name] = DataNode(name, denote[name])
        elif kind == "A":
            dsk[name] = Alias(name, dn[0])
            denote[name] = denote[dn[0]]
        else:
            dsk[name] = Task(name, mkfunc(name, dn), *[TaskRef(d) for d in dn], **({"_data_producer": True} if _PRODUCER else {}))
            denote[name] = (name,) + tuple(denote[d] for d in dn)
    return dsk, denote, runs, recv


class FailingTask(Exception):
    pass


def closure(dsk, keys):
    seen = set()
    stack = list(keys)
    while stack:
        k = stack.pop()
        if k in seen:
            continue
        seen.add(k)
        if k in dsk:
            stack.extend(dsk[k].dependencies)
    return seen


def wf_clauses():
    from contracts import local as L

    return L.WF("state", "EMPTY") + [L.GRAPH[1]] + [("submitted-once", 'SUB == state["running"] | state["finished"]')]


def native_ns(dsk, denote, state, results, SUB):
    from dask._task_spec import DataNode

    univ = sorted(set(dsk) | set(denote), key=str)

    def forall(f, *tys):
        n = f.__code__.co_argcount
        return all(f(*c) for c in itertools.product(univ, repeat=n)) if tys else all(f(*c) for c in itertools.product(range(len(state.get("ready", ())) + 1), repeat=n))

    def exists(f, *tys):
        n = f.__code__.co_argcount
        return any(f(*c) for c in itertools.product(range(len(state.get("ready", ())) + 1), repeat=n))

    return {
        "state": state, "results": set(results), "dsk": dsk, "SUB": SUB,
        "forall": forall, "exists": exists,
        "isdata": lambda k: k not in dsk or isinstance(dsk[k], DataNode),
        "denote": lambda k: denote[k],
        "EMPTY": set(), "Key": "Key",
        "distinct": lambda s: len(set(s)) == len(s),
        "same": lambda a, b: a == b,
    }


def check_wf(dsk, denote, state, results, SUB, where):
    ns = native_ns(dsk, denote, state, results, SUB)
    for label, src in wf_clauses():
        try:
            ok = rtc.eval_clause(src, ns)
        except Exception as e:  # noqa
            raise Violation(label, f"clause not evaluable at {where}: {e!r}")
        if not ok:
            raise Violation(label, f"representation invariant broken at {where}: state={_show(state)}")


def _show(state):
    return {k: (dict(v) if isinstance(v, dict) else v) for k, v in state.items() if k != "cache"} | {"cache-keys": sorted(state.get("cache", {}))}


def run_one(spec, request, num_workers, chunksize, schedule, fail=(), check_invariant=True, callbacks_extra=None, packed=False, rerun=False):
    """Run the real get_async once under `schedule` (iterator of choice indices).
    Returns dict(outcome=..., choices=[(n_pending, chosen)...]).  Raises Violation on a property failure."""
    import dask.local as L

    dsk, denote, runs, recv = make_graph(spec, fail)
    request = _rename(request)
    flat = list(L.flatten(request)) if isinstance(request, list) else [request]
    flat = [k for k in flat if not isinstance(k, list)]
    needed = closure(dsk, flat)
    from dask._task_spec import DataNode

    from dask._task_spec import Task as _Task

    tasks_needed = {k for k in needed if isinstance(dsk.get(k), _Task)}  # aliases run no user function
    ext = {k: denote[k] for k in needed if k not in dsk}
    user_cache = dict(ext) if ext else None
    pending = []
    choices = []
    events = []
    SUB = set()
    finished_order = []
    started = {}

    def submit(fn, *args):
        fut = Future()
        pending.append((fut, fn, args))
        for a in args[0]:
            if a[0] in SUB:
                raise Violation("C02-submitted-once", f"task {a[0]!r} submitted twice")
            SUB.add(a[0])
        return fut

    sched = iter(schedule)

    def queue_get(q):
        if q.empty():
            if not pending:
                raise Hang("scheduler waits although nothing is in flight")
            try:
                c = next(sched)
            except StopIteration:
                c = 0
            c %= len(pending)
            choices.append((len(pending), c))
            fut, fn, args = pending.pop(c)
            try:
                fut.set_result(fn(*args))
            except BaseException as e:  # noqa
                fut.set_exception(e)
        return q.get()

    state_box = {}

    def cb_start_state(d, state):
        state_box["s"] = state
        if check_invariant:
            check_wf(dsk, denote, state, flat, set(), "start")

    def cb_pretask(key, d, state):
        events.append(("pre", key))
        started[key] = set(state["finished"])
        for dep in dsk[key].dependencies:
            if dep not in state["cache"]:
                raise Violation("C03-not-released-early", f"dependency {dep!r} of starting task {key!r} is not in the cache")
            if dep in dsk and not isinstance(dsk[dep], DataNode) and dep not in state["finished"]:
                raise Violation("C02-deps-finished", f"task {key!r} started before its dependency {dep!r} finished")

    def cb_posttask(key, res, d, state, wid):
        events.append(("post", key))
        finished_order.append(key)
        if res != denote[key]:
            raise Violation("C01-value", f"task {key!r} produced {res!r}, graph denotes {denote[key]!r}")
        if check_invariant:
            check_wf(dsk, denote, state, flat, SUB, f"after finish_task({key!r})")

    fin = []

    def cb_finish(d, state, failed):
        fin.append(failed)

    cbs = [(None, cb_start_state, cb_pretask, cb_posttask, cb_finish)] + list(callbacks_extra or [])
    old_qg = L.queue_get
    L.queue_get = queue_get
    outcome = None
    try:
        try:
            kw_pack = {}
            if packed:
                # the way dask.threaded.get calls get_async: a failing task is reported through the result queue
                # (failed=True) and re-raised by the scheduler loop; the default of get_async re-raises inside the worker
                import dask.threaded as _TH
                kw_pack = {"pack_exception": _TH.pack_exception}
            if rerun:
                kw_pack["rerun_exceptions_locally"] = True   # a debugging aid: must not change what is kept or released
            res = L.get_async(submit, num_workers, dsk, request, callbacks=cbs, chunksize=chunksize, cache=user_cache, **kw_pack)
            outcome = ("value", res)
        except FailingTask as e:
            outcome = ("raised", str(e))
    finally:
        L.queue_get = old_qg
    state = state_box.get("s", {})
    if fin != [outcome[0] == "raised"]:
        raise Violation("C04-finish-callback", f"finish callbacks saw {fin}, outcome {outcome[0]}")
    if outcome[0] == "value":
        expect = L.nested_get(request, denote)
        if outcome[1] != expect:
            raise Violation("C01-value", f"result {outcome[1]!r} != denotation {expect!r}")
        if set(runs) != tasks_needed or any(v != 1 for v in runs.values()):
            raise Violation("C02-exactly-once", f"executions {runs}, needed {sorted(tasks_needed)}")
        if set(state["cache"]) != set(flat):
            raise Violation("C03-nothing-leaked", f"cache holds {sorted(state['cache'])} at return, requested {sorted(set(flat))}")
    else:
        if not fail:
            raise Violation("C04-spurious-failure", f"raised {outcome[1]} without a failing task")
        if any(v != 1 for v in runs.values()) or not set(runs) <= tasks_needed:
            raise Violation("C02-exactly-once", f"executions {runs}")
        bad = [k for k in runs if k not in fail and any(d in fail for d in closure(dsk, [k]) - {k})]
        if bad:
            raise Violation("C04-dependent-of-failed-ran", f"{bad} ran although a dependency failed")
    for k, args in recv.items():
        want = tuple(denote[d] for d in dsk[k].dependencies) if False else None
    for k in runs:
        exp_args = denote[k][1:] if k not in fail else None
        if exp_args is not None and tuple(recv[k]) != tuple(exp_args):
            raise Violation("C02-received-values", f"task {k!r} received {recv[k]!r}, expected {exp_args!r}")
    pre = [k for e, k in events if e == "pre"]
    post = [k for e, k in events if e == "post"]
    if len(set(pre)) != len(pre) or len(set(post)) != len(post) or not set(post) <= set(pre):
        raise Violation("C05-pre-post", f"events {events}")
    for k in post:
        if events.index(("pre", k)) > events.index(("post", k)):
            raise Violation("C05-pre-post", f"posttask of {k!r} before its pretask: {events}")
    if outcome[0] == "value" and set(pre) != set(post):
        raise Violation("C05-pre-post", f"tasks with a pretask but no posttask call: {sorted(set(pre) - set(post))}")
    if not set(runs) <= set(pre) or (outcome[0] == "value" and not set(runs) <= set(post)):
        raise Violation("C05-pre-post", f"executed tasks {sorted(runs)} without pretask/posttask calls (pre {pre}, post {post})")
    return {"outcome": outcome[0], "choices": choices}


def raising_start_case(spec, request, num_workers, chunksize):
    """C05: a start callback raises after another callback's start already ran: the latter must still get its finish."""
    import dask.local as L

    dsk, denote, runs, recv = make_graph(spec)
    log = []

    class Boom(Exception):
        pass

    def boom(d):
        raise Boom()

    for order in (0, 1):
        log.clear()
        good = (lambda d: log.append("start"), None, None, None, lambda d, s, failed: log.append(("finish", failed)))
        bad = (boom, None, None, None, lambda d, s, failed: log.append(("finish-bad", failed)))
        cbs = [good, bad] if order == 0 else [bad, good]
        try:
            L.get_async(L.synchronous_executor.submit, num_workers, dsk, request, callbacks=cbs, chunksize=chunksize)
            raise Violation("C05-start-raise", "a raising start callback did not propagate")
        except Boom:
            pass
        if order == 0 and log != ["start", ("finish", True)]:
            raise Violation("C05-finish-after-failed-start", f"callback whose start had run saw {log}, expected ['start', ('finish', True)]")
        if order == 1 and log != []:
            raise Violation("C05-finish-without-start", f"callback that was never started saw {log}")


def all_schedules(spec, request, num_workers, chunksize, fail=(), limit=400, **kw):
    """DFS over completion choices: explore every interleaving (up to `limit` runs)."""
    done = 0
    stack = [[]]
    seen = set()
    while stack and done < limit:
        prefix = stack.pop()
        r = run_one(spec, request, num_workers, chunksize, prefix, fail, **kw)
        done += 1
        ch = r["choices"]
        key = tuple(c for _, c in ch)
        if key in seen:
            continue
        seen.add(key)
        # branch on every position at or beyond the prefix where another choice existed
        for i in range(len(prefix), len(ch)):
            n, c = ch[i]
            for alt in range(n):
                if alt != c:
                    stack.append([x for _, x in ch[:i]] + [alt])
    return done


def graph_specs(n, kinds=("T", "D")):
    """All DAG shapes with n nodes in topological order (node i depends on a subset of earlier nodes)."""
    def rec(i):
        if i == n:
            yield ()
            return
        for rest in rec(i + 1):
            pass
        return

    specs = [()]
    for i in range(n):
        new = []
        for s in specs:
            for kind in kinds:
                if kind in ("D", "C"):
                    new.append(s + ((kind, ()),))
                elif kind == "A":
                    for d in range(i):
                        new.append(s + (("A", (d,)),))
                else:
                    for r in range(i + 1):
                        for deps in itertools.combinations(range(i), r):
                            new.append(s + (("T", deps),))
        specs = new
    return specs


def requests_for(n):
    names = [chr(ord("a") + i) for i in range(n)]
    out = []
    for r in range(1, n + 1):
        for c in itertools.combinations(names, r):
            out.append(list(c) if len(c) > 1 else c[0])
    out.append([names[-1], [names[0], names[-1]]])
    out.append([])
    out.append([[], []])
    return out


def sweep(tier, seed=0, with_failures=True, time_budget=None):
    """-> report dict in the shape vf.cli expects."""
    import time

    t0 = time.time()
    budget = time_budget or {"quick": 25, "deep": 150}.get(tier, 600)
    nmax = 3 if tier == "quick" else 4
    configs = [(1, 1), (2, 1), (3, 2), (2, -1)] if tier == "quick" else [(1, 1), (2, 1), (3, 1), (2, 2), (3, 2), (8, 3), (1, -1), (2, -1), (3, -1)]
    cases = runs = 0
    fails = []
    sample = None
    def with_null_literals(n):
        for spec in graph_specs(n, ("T", "D", "A", "C") if n <= 3 else ("T", "D")):
            yield spec
            if n <= 3 and any(k == "D" for k, _ in spec):
                yield tuple(("N" if k == "D" else k, d) for k, d in spec)
                yield tuple(("Z" if k == "D" else k, d) for k, d in spec)

    # keys that are falsy (0, '', ()) or compare equal to other Python values: every graph with <= 3 nodes once more
    global _KEYNAMES
    _KEYNAMES = {"a": 0, "b": "", "c": ()}
    try:
        for n in range(1, 4):
            for spec in graph_specs(n, ("T", "D", "A")):
                for req in requests_for(n):
                    for nw, cs in configs[:2]:
                        cases += 1
                        args = {"graph": spec, "request": _rename(req), "num_workers": nw, "chunksize": cs, "failing": (), "keys": "0, '', ()"}
                        try:
                            runs += all_schedules(spec, req, nw, cs, (), limit=20)
                        except Violation as v:
                            fails.append(rtc.Failure("get_async", args, "ensures", v.clause, v.detail))
                        except Hang as h:
                            fails.append(rtc.Failure("get_async", args, "timeout", "C04-never-hangs", str(h)))
                        except BaseException as e:  # noqa
                            fails.append(rtc.Failure("get_async", args, "exception", type(e).__name__, repr(e)))
                        if fails:
                            break
                    if fails:
                        break
                if fails:
                    break
            if fails:
                break
    finally:
        _KEYNAMES = None
    # tasks that carry the data-producer flag (as from_array / IO root tasks do) are tasks like any other for the scheduler
    global _PRODUCER
    _PRODUCER = True
    try:
        for n in range(1, 4):
            for spec in graph_specs(n, ("T", "D", "A")):
                for req in requests_for(n)[:3]:
                    nw, cs = configs[1]
                    cases += 1
                    args = {"graph": spec, "request": req, "num_workers": nw, "chunksize": cs, "failing": (), "tasks": "flagged _data_producer=True"}
                    try:
                        runs += all_schedules(spec, req, nw, cs, (), limit=10)
                    except Violation as v:
                        fails.append(rtc.Failure("get_async", args, "ensures", v.clause, v.detail))
                    except Hang as h:
                        fails.append(rtc.Failure("get_async", args, "timeout", "C04-never-hangs", str(h)))
                    except BaseException as e:  # noqa
                        fails.append(rtc.Failure("get_async", args, "exception", type(e).__name__, repr(e)))
                    if fails:
                        break
                if fails:
                    break
            if fails:
                break
    finally:
        _PRODUCER = False
    # rerun_exceptions_locally=True with no failing task: same values, same releases, nothing left in the cache
    for n in range(1, 4):
        for spec in graph_specs(n, ("T", "D", "A")):
            for req in requests_for(n)[:4]:
                nw, cs = configs[1]
                cases += 1
                args = {"graph": spec, "request": req, "num_workers": nw, "chunksize": cs, "failing": (), "rerun_exceptions_locally": True}
                try:
                    runs += all_schedules(spec, req, nw, cs, (), limit=10, rerun=True)
                except Violation as v:
                    fails.append(rtc.Failure("get_async", args, "ensures", v.clause, v.detail))
                except Hang as h:
                    fails.append(rtc.Failure("get_async", args, "timeout", "C04-never-hangs", str(h)))
                except BaseException as e:  # noqa
                    fails.append(rtc.Failure("get_async", args, "exception", type(e).__name__, repr(e)))
                if fails:
                    break
            if fails:
                break
        if fails:
            break
    for n in range(1, nmax + 1):
        for spec in with_null_literals(n):
            null_variant = any(k in ("N", "Z") for k, _ in spec)
            for req in requests_for(n):
                for nw, cs in (configs[:2] if null_variant else configs):
                    failsets = [()]
                    if with_failures and not null_variant:
                        tnames = [chr(ord("a") + i) for i, (k, _) in enumerate(spec) if k == "T"]
                        failsets += [(t,) for t in tnames]
                    for fl in failsets:
                        cases += 1
                        if sample is None and n == 3:
                            sample = {"graph": spec, "request": req, "num_workers": nw, "chunksize": cs, "failing": fl}
                        try:
                            if not fl and (nw, cs) == configs[0]:
                                raising_start_case(spec, req, nw, cs)
                            runs += all_schedules(spec, req, nw, cs, fl, limit=60 if tier == "quick" else 400)
                            if fl:
                                runs += all_schedules(spec, req, nw, cs, fl, limit=60 if tier == "quick" else 400, packed=True)
                        except Violation as v:
                            fails.append(rtc.Failure("get_async", {"graph": spec, "request": req, "num_workers": nw, "chunksize": cs, "failing": fl}, "ensures", v.clause, v.detail))
                        except Hang as h:
                            fails.append(rtc.Failure("get_async", {"graph": spec, "request": req, "num_workers": nw, "chunksize": cs, "failing": fl}, "timeout", "C04-never-hangs", str(h)))
                        except BaseException as e:  # noqa
                            fails.append(rtc.Failure("get_async", {"graph": spec, "request": req, "num_workers": nw, "chunksize": cs, "failing": fl}, "exception", type(e).__name__, repr(e)))
                        if len(fails) >= 3 or time.time() - t0 > budget:
                            break
                    if len(fails) >= 3 or time.time() - t0 > budget:
                        break
                if len(fails) >= 3 or time.time() - t0 > budget:
                    break
            if len(fails) >= 3 or time.time() - t0 > budget:
                break
    # wide graphs: many independent tasks feeding one reducer, saturating batches (fire_tasks arithmetic);
    # layered variant a_i -> b_i: tasks become ready a few at a time, leaving partially filled batches in flight
    import random as _random
    rnd = _random.Random(seed)

    def wide_specs():
        for width in ((7, 12) if tier == "quick" else (5, 7, 9, 12, 16, 27)):
            yield tuple(("T", ()) for _ in range(width)) + (("T", tuple(range(width))),)
            half = width // 2 + 1
            yield tuple(("T", ()) for _ in range(half)) + tuple(("T", (i,)) for i in range(half)) + (("T", tuple(range(half, 2 * half))),)

    def forest_specs(count):
        # random fan-out forests / DAGs with a final sink (tasks become ready in irregular bursts)
        for _ in range(count):
            n = rnd.randrange(8, 28)
            nodes = []
            for i in range(n):
                if i < 3 or rnd.random() < 0.1:
                    nodes.append(("T", ()))
                elif rnd.random() < 0.8:
                    nodes.append(("T", (rnd.randrange(0, i),)))
                else:
                    nodes.append(("T", tuple(sorted(rnd.sample(range(i), min(i, 2))))))
            used = {d for _, ds in nodes for d in ds}
            leaves = tuple(i for i in range(n) if i not in used)
            yield tuple(nodes) + (("T", leaves),)

    # random forests, many runs, outcome checks only (invariant checking off: ~2500 runs/s)
    nforest = {"quick": 500, "deep": 2500}.get(tier, 5000)
    for spec in forest_specs(nforest):
        if len(fails) >= 3:
            break
        names_w = [chr(ord("A") + i) if i >= 26 else chr(ord("a") + i) for i in range(len(spec))]
        for nw, cs in [(3, 2), (4, 2), (3, 3), (4, 3)]:
            for _ in range(10):
                cases += 1
                sched = [rnd.randrange(0, 8) for _ in range(6 * len(spec))]
                args = {"graph": spec, "request": names_w[-1], "num_workers": nw, "chunksize": cs, "failing": (), "schedule": sched}
                try:
                    run_one(spec, names_w[-1], nw, cs, sched, check_invariant=False)
                    runs += 1
                except Violation as v:
                    fails.append(rtc.Failure("get_async", args, "ensures", v.clause, v.detail))
                except Hang as h:
                    fails.append(rtc.Failure("get_async", args, "timeout", "C04-never-hangs", str(h)))
                except BaseException as e:  # noqa
                    fails.append(rtc.Failure("get_async", args, "exception", type(e).__name__, repr(e)))
    for spec in wide_specs():
        if time.time() - t0 > budget * 1.5 or len(fails) >= 3:
            break
        names_w = [chr(ord("A") + i) if i >= 26 else chr(ord("a") + i) for i in range(len(spec))]
        for nw, cs in [(3, 2), (4, 2), (3, 3), (2, 4), (4, 3)]:
            for _ in range(6 if tier == "quick" else 60):
                cases += 1
                sched = [rnd.randrange(0, 8) for _ in range(6 * len(spec))]
                args = {"graph": spec, "request": names_w[-1], "num_workers": nw, "chunksize": cs, "failing": (), "schedule": sched}
                try:
                    run_one(spec, names_w[-1], nw, cs, sched)
                    runs += 1
                except Violation as v:
                    fails.append(rtc.Failure("get_async", args, "ensures", v.clause, v.detail))
                except Hang as h:
                    fails.append(rtc.Failure("get_async", args, "timeout", "C04-never-hangs", str(h)))
                except BaseException as e:  # noqa
                    fails.append(rtc.Failure("get_async", args, "exception", type(e).__name__, repr(e)))
                if len(fails) >= 3:
                    break
            if len(fails) >= 3:
                break
    return {
        "function": "dask/local.py:get_async (real code, controlled executor)",
        "bounded": True,
        "bound": {"max_nodes": nmax, "node_kinds": "task/data/alias/external-cache entry; literal data also with the values None and 0; all graphs <= 3 nodes again with the falsy keys 0, '', ()", "configs(num_workers,chunksize)": configs, "all completion interleavings up to": 60 if tier == "quick" else 400, "time_budget_s": budget},
        "cases": cases,
        "distinct_nontrivial": cases,
        "executions": runs,
        "failures_found": len(fails),
        "wall_s": round(time.time() - t0, 2),
        "samples": [{"native_case": rtc._jsonable(sample)}] if sample else [],
        "failures": fails,
    }


def replay(native):
    args = eval(native["args_repr"])
    global _PRODUCER
    if args.get("rerun_exceptions_locally"):
        try:
            all_schedules(tuple(args["graph"]), args["request"], args["num_workers"], args["chunksize"], (), limit=10, rerun=True)
        except (Violation, Hang) as v:
            return {"reproduced": True, "detail": str(v)}
        except BaseException as e:  # noqa
            return {"reproduced": True, "detail": repr(e)}
        return None
    if "tasks" in args:
        _PRODUCER = True
        try:
            all_schedules(tuple(args["graph"]), args["request"], args["num_workers"], args["chunksize"], (), limit=10)
        except (Violation, Hang) as v:
            return {"reproduced": True, "detail": str(v)}
        except BaseException as e:  # noqa
            return {"reproduced": True, "detail": repr(e)}
        finally:
            _PRODUCER = False
        return None
    if args.get("entry_point"):
        r = packing_sweep("quick")
        hit = [f for f in r["failures"] if f.args.get("scheduler") == args.get("scheduler")]
        return {"reproduced": True, "detail": hit[0].detail} if hit else None
    if "raises" in args:
        r = raising_kinds_sweep("quick")
        hit = [f for f in r["failures"] if f.args == args]
        return {"reproduced": True, "detail": hit[0].detail} if hit else ({"reproduced": "another case of the family fails", "detail": r["failures"][0].detail} if r["failures"] else None)
    try:
        if "schedule" in args:
            run_one(tuple(args["graph"]), args["request"], args["num_workers"], args["chunksize"], args["schedule"], tuple(args["failing"]), check_invariant=False)
        all_schedules(tuple(args["graph"]), args["request"], args["num_workers"], args["chunksize"], tuple(args["failing"]), limit=400)
        if args.get("failing"):
            all_schedules(tuple(args["graph"]), args["request"], args["num_workers"], args["chunksize"], tuple(args["failing"]), limit=400, packed=True)
    except (Violation, Hang) as v:
        return {"reproduced": True, "detail": str(v)}
    except BaseException as e:  # noqa
        return {"reproduced": True, "detail": repr(e)}
    return None


def remote_exception_sweep(tier, seed=0):
    """C04 (multiprocessing): the re-raised exception must be an instance of the type the task raised, same message."""
    import time

    from dask.multiprocessing import remote_exception

    t0 = time.time()
    cases, fails = 0, []

    def make_error(base, name="TaskError"):
        class TaskError(base):
            pass
        TaskError.__name__ = name
        return TaskError

    classes = [ValueError, KeyError, LookupError, ZeroDivisionError, RuntimeError, make_error(LookupError), make_error(ValueError), make_error(Exception),
               make_error(ArithmeticError), make_error(OSError), type("Dyn", (TypeError,), {}), type("Dyn", (IndexError,), {})]
    # exception classes whose constructor does not take exactly one argument (the wrapper type is cached after the
    # first failure: the second failure of the same type must come back as that type too)
    class HttpError(Exception):
        def __init__(self, status, reason):
            super().__init__(status, reason)
            self.status, self.reason = status, reason

        def __str__(self):
            return f"{self.status} {self.reason}"

    multi = [(UnicodeDecodeError, lambda m: UnicodeDecodeError("utf-8", b"\xff", 0, 1, m)), (HttpError, lambda m: HttpError(500, m)),
             (OSError, lambda m: OSError(2, m)), (KeyError, lambda m: KeyError(m, "second-arg"))]
    for rounds in range(3):
        for cls, mk in multi:
            cases += 1
            tag = "boom-m%d" % cases
            try:
                r = remote_exception(mk(tag), "traceback text")
                msg = None
                if not isinstance(r, cls):
                    msg = f"failure number {rounds + 1} of this type: re-raised exception is a {type(r).__mro__[:3]}, not an instance of {cls.__name__}"
                elif tag not in str(r) and tag not in repr(r.args):
                    msg = f"message lost: {str(r)!r}"
            except Exception as ex:  # noqa
                msg = f"failure number {rounds + 1} of this type: remote_exception raised {type(ex).__name__}: {ex}"
            if msg:
                fails.append(rtc.Failure("remote_exception", {"class": cls.__name__, "constructor": "several arguments", "round": rounds}, "ensures", "C04-same-type-same-message", msg))
    for rounds in range(2):
        for cls in classes:
            cases += 1
            try:
                e = cls("boom-%d" % cases)
                r = remote_exception(e, "traceback text")
                msg = None
                if not isinstance(r, cls):
                    msg = f"re-raised exception is a {type(r).__mro__[:3]}, not an instance of the raised type {cls.__mro__[:2]}"
                elif "boom-%d" % cases not in str(r):
                    msg = f"message lost: {str(r)!r}"
            except Exception as ex:  # noqa
                msg = f"{type(ex).__name__}: {ex}"
            if msg:
                fails.append(rtc.Failure("remote_exception", {"class": f"{cls.__module__}.{cls.__qualname__}", "bases": [b.__name__ for b in cls.__bases__], "round": rounds}, "ensures", "C04-same-type-same-message", msg))
    return {"function": "dask/multiprocessing.py:remote_exception (real code)", "bounded": True, "bound": {"exception classes": len(classes), "rounds": 2, "incl": "same-named classes from a factory with different bases; classes with multi-argument constructors, three failures each"},
            "cases": cases, "distinct_nontrivial": cases, "failures_found": len(fails), "wall_s": round(time.time() - t0, 2),
            "samples": [{"native_case": {"class": "make_error.<locals>.TaskError", "bases": ["LookupError"]}}], "failures": fails[:3]}


def raising_kinds_sweep(tier, seed=0):
    """C04 for the in-process schedulers: whatever exception type a task raises -- including the ones Python treats
    specially inside generators and iterators (StopIteration, StopAsyncIteration, GeneratorExit) -- get() raises an
    exception of the same type with the same arguments, runs no dependent, and calls finish(failed=True) once."""
    import time

    import dask.local as L
    import dask.threaded as TH
    from dask._task_spec import Task, TaskRef

    t0 = time.time()
    cases, fails = 0, []

    class Custom(Exception):
        pass

    kinds = [lambda: StopIteration("boom"), lambda: StopAsyncIteration("boom"), lambda: GeneratorExit("boom"), lambda: KeyError("boom"), lambda: ValueError("boom", 2),
             lambda: Custom("boom"), lambda: LookupError(), lambda: AssertionError("boom"), lambda: OSError(2, "boom"), lambda: next(iter([]))]

    def scenario(mk, where):
        ran = []

        def bad():
            e = mk()
            raise e if isinstance(e, BaseException) else RuntimeError("unreachable")

        def ok():
            ran.append("ok")
            return 1

        def dep(*a):
            ran.append("dep")
            return a

        if where == "leaf":
            dsk = {"a": Task("a", bad), "b": Task("b", ok), "c": Task("c", dep, TaskRef("a"), TaskRef("b"))}
        else:
            dsk = {"b": Task("b", ok), "a": Task("a", lambda x: bad(), TaskRef("b")), "c": Task("c", dep, TaskRef("a"))}
        return dsk, ran

    from multiprocessing.pool import ThreadPool as _ThreadPool

    def _with_pool(call):
        tp = _ThreadPool(2)   # a fresh pool per call: a worker that died in one case must not starve the next
        try:
            return call(tp)
        finally:
            tp.terminate()

    try:
        ref_types = []
        for mk in kinds:
            try:
                mk_e = mk()
                ref_types.append((type(mk_e), mk_e.args))
            except BaseException as e:  # next(iter([])) raises while being built
                ref_types.append((type(e), e.args))
        runners = [("get_sync", lambda d: L.get_sync(d, "c")), ("threaded.get(num_workers=2)", lambda d: TH.get(d, "c", num_workers=2)), ("threaded.get(num_workers=2, chunksize=2)", lambda d: TH.get(d, "c", num_workers=2, chunksize=2)),
                   ("get_sync(rerun_exceptions_locally=True)", lambda d: L.get_sync(d, "c", rerun_exceptions_locally=True)),
                   # the adaptors for multiprocessing.pool-style pools (a thread pool here), with get_async's own defaults
                   ("get_async(MultiprocessingPoolExecutor(ThreadPool).submit)", lambda d: _with_pool(lambda tp: L.get_async(L.MultiprocessingPoolExecutor(tp).submit, 2, d, "c"))),
                   ("get_apply_async(ThreadPool.apply_async)", lambda d: _with_pool(lambda tp: L.get_apply_async(tp.apply_async, 2, d, "c"))),
                   ("threaded.get(pool=ThreadPool)", lambda d: _with_pool(lambda tp: TH.get(d, "c", pool=tp)))]
        for (mk, (ety, eargs)) in zip(kinds, ref_types):
            for where in ("leaf", "inner"):
                for rname, run in runners:
                    if "ThreadPool" in rname and "threaded.get" not in rname and not issubclass(ety, Exception):
                        # with get_async's default pack_exception the exception escapes inside the pool worker, and
                        # multiprocessing.pool workers only report Exception subclasses (a BaseException kills the worker)
                        continue
                    cases += 1
                    dsk, ran = scenario(mk, where)
                    fin = []
                    from dask.callbacks import Callback
                    msg = None
                    import signal as _signal

                    class _Stuck(BaseException):
                        pass

                    def _alarm(*a_):
                        raise _Stuck()

                    old_h = _signal.signal(_signal.SIGALRM, _alarm)
                    _signal.setitimer(_signal.ITIMER_REAL, 10)
                    try:
                        with Callback(finish=lambda d, s, failed: fin.append(failed)):
                            run(dsk)
                        msg = f"{rname}: a task raising {ety.__name__} did not make get() raise"
                    except _Stuck:
                        msg = f"{rname}: a task raising {ety.__name__} makes get() block (no exception after 10 s)"
                    except BaseException as e:  # noqa
                        if type(e) is not ety or e.args != eargs:
                            msg = f"{rname}: the task raised {ety.__name__}{eargs!r} but get() raised {type(e).__name__}{e.args!r}"
                    finally:
                        _signal.setitimer(_signal.ITIMER_REAL, 0)
                        _signal.signal(_signal.SIGALRM, old_h)
                    if msg and "block" in msg:
                        fails.append(rtc.Failure("get_async", {"raises": ety.__name__, "failing_task": where, "scheduler": rname}, "timeout", "C04-never-hangs", msg))
                        Callback.active = set()
                        break
                    if msg is None and "dep" in ran:
                        msg = f"{rname}: a dependent of the failed task ran"
                    if msg is None and fin != [True]:
                        msg = f"{rname}: finish callbacks saw {fin}, expected [True]"
                    if msg:
                        fails.append(rtc.Failure("get_async", {"raises": ety.__name__, "failing_task": where, "scheduler": rname}, "ensures", "C04-same-type-same-message", msg))
                        if len(fails) >= 4:
                            break
                if len(fails) >= 4:
                    break
            if len(fails) >= 4:
                break
        # an explicit rerun_exceptions_locally=False wins over the configuration: the failing task runs once, on a worker,
        # and get() raises (it is not re-run in the scheduler thread)
        import dask as _dask
        import threading as _threading

        where_ran = []

        def _boom2():
            where_ran.append(_threading.current_thread() is _threading.main_thread())
            raise ValueError("boom")

        for rname, run in (("threaded.get(rerun_exceptions_locally=False) under config True", lambda d: TH.get(d, "c", num_workers=2, rerun_exceptions_locally=False)),):
            cases += 1
            where_ran.clear()
            dsk2 = {"a": Task("a", _boom2), "c": Task("c", lambda v: v, TaskRef("a"))}
            msg = None
            try:
                with _dask.config.set(rerun_exceptions_locally=True):
                    run(dsk2)
                msg = f"{rname}: a failing task did not make get() raise"
            except ValueError:
                pass
            except BaseException as e:  # noqa
                msg = f"{rname}: raised {type(e).__name__}: {e}"
            if msg is None and where_ran != [False]:
                msg = f"{rname}: the failing task ran {len(where_ran)} time(s) (in the scheduler thread: {where_ran}); an explicit False must not be overridden by the configuration"
            if msg:
                fails.append(rtc.Failure("get_async", {"raises": "ValueError", "failing_task": "leaf", "scheduler": rname}, "ensures", "C04-same-type-same-message", msg))
    finally:
        from dask.callbacks import Callback
        Callback.active = set()
    return {"function": "dask/local.py:get_async via get_sync / threaded.get (real code)", "bounded": True,
            "bound": {"exception kinds": "StopIteration, StopAsyncIteration, GeneratorExit, KeyError, ValueError(2 args), custom, LookupError(), AssertionError, OSError(2 args), next(iter([]))", "failing task": "leaf / inner", "schedulers": "get_sync, threaded.get (2 settings), rerun_exceptions_locally, MultiprocessingPoolExecutor / get_apply_async / threaded.get over a multiprocessing.pool.ThreadPool", "hang detection": "10 s alarm per call"},
            "cases": cases, "distinct_nontrivial": cases, "failures_found": len(fails), "wall_s": round(time.time() - t0, 2),
            "samples": [{"native_case": {"raises": "StopIteration", "failing_task": "leaf", "scheduler": "get_sync"}}], "failures": fails}


def _mp_inc(x):
    return x + 1


def _mp_add(x, y):
    return x + y


def _mp_pair(*a):
    return a


def packing_sweep(tier, seed=0):
    """C01 through the public entry points of every local scheduler (dask.get, dask.threaded.get,
    dask.multiprocessing.get with one shared process pool): the result is packed in the same nesting as the request."""
    import time
    from concurrent.futures import ProcessPoolExecutor

    import dask
    import dask.multiprocessing as MP
    import dask.threaded as TH
    from dask.local import get_sync

    t0 = time.time()
    cases, fails = 0, []
    dsk = {"a": 1, "b": (_mp_inc, "a"), "c": (_mp_add, "a", "b"), "d": (_mp_add, "c", 10), "e": "d"}
    val = {"a": 1, "b": 2, "c": 3, "d": 13, "e": 13}

    def pack(req):
        return tuple(pack(r) for r in req) if isinstance(req, list) else val[req]

    requests = ["a", "d", ["a"], ["b", "c"], [["b"], "c"], [[], ["d"]], [["a", ["b", ["c"]]], "e"], [["e", "e"], ["a"]], [], [[]], [[], []], [[], [[]], []]]
    pool = ProcessPoolExecutor(2)
    try:
        runners = [("get_sync", lambda r: get_sync(dsk, r)), ("threaded.get", lambda r: TH.get(dsk, r, num_workers=2)),
                   ("multiprocessing.get", lambda r: MP.get(dsk, r, pool=pool)), ("multiprocessing.get(optimize_graph=False)", lambda r: MP.get(dsk, r, pool=pool, optimize_graph=False)),
                   ("multiprocessing.get(chunksize=1)", lambda r: MP.get(dsk, r, pool=pool, chunksize=1))]
        for rname, run in runners:
            for req in requests:
                cases += 1
                try:
                    got = run(req)
                    want = pack(req)
                    msg = None if got == want else f"{rname}(dsk, {req!r}) = {got!r}, the request's nesting gives {want!r}"
                except Exception as e:  # noqa
                    msg = f"{rname}(dsk, {req!r}) raised {type(e).__name__}: {e}"
                if msg:
                    fails.append(rtc.Failure("get_async", {"request": req, "scheduler": rname, "entry_point": True}, "ensures", "C01-value", msg))
                    break
        # keys that are referenced only from inside a plain (non-task) tuple or set argument are references all the same
        # (in-process schedulers; dask.multiprocessing.get culls with the legacy dependency finder first and is left out:
        # observed on the unchanged tree, see DESIGN section 7)
        dsk_t = {"a": 1, "b": 2, "c": (_mp_pair, ("a", "b")), "m": (_mp_pair, [("a", "b"), "a"]), "t": ("a", "b")}
        want_t = {"c": ((1, 2),), "m": ([(1, 2), 1],), "t": (1, 2)}
        for rname, run in (("get_sync", lambda k: get_sync(dsk_t, k)), ("threaded.get", lambda k: TH.get(dsk_t, k, num_workers=2)), ("dask.get", lambda k: dask.get(dsk_t, k))):
            for k, w in want_t.items():
                cases += 1
                try:
                    got = run(k)
                    msg = None if got == w else f"{rname}(dsk, {k!r}) = {got!r}, evaluating the graph gives {w!r}"
                except Exception as e:  # noqa
                    msg = f"{rname}(dsk, {k!r}) raised {type(e).__name__}: {e}"
                if msg:
                    fails.append(rtc.Failure("get_async", {"request": k, "scheduler": rname, "entry_point": True, "graph": "keys inside plain tuples"}, "ensures", "C01-value", msg))
                    break
    finally:
        pool.shutdown(wait=True, cancel_futures=True)
    return {"function": "dask/local.py, dask/threaded.py, dask/multiprocessing.py: public get() entry points (real code, one shared process pool)", "bounded": True,
            "bound": {"graph": "5 keys (literal, tasks, alias)", "requests": len(requests), "schedulers": 5},
            "cases": cases, "distinct_nontrivial": cases, "failures_found": len(fails), "wall_s": round(time.time() - t0, 2),
            "samples": [{"native_case": {"request": [["b"], "c"], "scheduler": "multiprocessing.get"}}], "failures": fails[:3]}
