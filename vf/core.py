"""Core data structures of the VC generator: symbolic values, path state, outcomes."""
import itertools

import z3

from . import ty as T


class Unsupported(Exception):
    """The code (or contract) left the verified subset: the proof is UNDECIDED, not failed."""


class SV:
    """Symbolic value: one z3 term + its spec type."""

    __slots__ = ("t", "ty")

    def __init__(self, t, ty):
        self.t = t
        self.ty = ty

    def __repr__(self):
        return f"SV({self.t}:{self.ty})"


class Alias:
    """A local bound to a container that lives inside another variable (write-through)."""

    __slots__ = ("root", "sels")

    def __init__(self, root, sels):
        self.root = root
        self.sels = list(sels)  # [('field', name) | ('key', SV) | ('idx', SV)]


class FuncVal:
    """A callable known to the engine: contracted function / closure / uninterpreted / external."""

    def __init__(self, name, kind, info=None):
        self.name = name
        self.kind = kind  # 'contract' | 'uf' | 'external' | 'lambda'
        self.info = info


_counter = itertools.count()


def fresh(ty, hint="v"):
    return SV(z3.Const(f"{hint}!{next(_counter)}", ty.sort()), ty)


def fresh_name(hint):
    return f"{hint}!{next(_counter)}"


class State:
    def __init__(self):
        self.env = {}
        self.pc = []  # path condition: list of z3 Bool
        self.old = None  # env at function entry (for old())
        self.trail = []  # human readable branch decisions
        self.rebound = set()  # names that were assigned to (no longer the caller's object)

    def copy(self):
        s = State()
        s.env = dict(self.env)
        s.pc = list(self.pc)
        s.old = self.old
        s.trail = list(self.trail)
        s.rebound = set(self.rebound)
        return s

    def assume(self, c):
        if not z3.is_true(c):
            self.pc.append(c)


class Outcome:
    def __init__(self, kind, st, value=None, exc=None):
        self.kind = kind  # 'normal' | 'break' | 'continue' | 'return' | 'raise'
        self.st = st
        self.value = value
        self.exc = exc  # exception class name for 'raise'


# ---- psum: prefix sums of an int array (definitional axioms, instantiated by triggers) ----
_IA = z3.ArraySort(z3.IntSort(), z3.IntSort())
psum = z3.Function("psum", _IA, z3.IntSort(), z3.IntSort())


def psum_axioms():
    A = z3.Const("A", _IA)
    n, k, v = z3.Ints("n k v")
    ax0 = z3.ForAll([A, n], z3.Implies(n <= 0, psum(A, n) == 0), patterns=[psum(A, n)])
    ax1 = z3.ForAll(
        [A, n],
        z3.Implies(n >= 0, psum(A, n + 1) == psum(A, n) + A[n]),
        patterns=[z3.MultiPattern(psum(A, n), A[n])],
    )
    # frame: a store at index k does not change the prefix sum below k (consequence by induction;
    # stated and proved in lemmas/IntLemmas.lean: psum_store_frame)
    ax2 = z3.ForAll(
        [A, k, v, n],
        z3.Implies(n <= k, psum(z3.Store(A, k, v), n) == psum(A, n)),
        patterns=[psum(z3.Store(A, k, v), n)],
    )
    # a store at index k shifts every prefix sum above k by (v - A[k])  (lemma psum_store_above)
    ax3 = z3.ForAll(
        [A, k, v, n],
        z3.Implies(z3.And(n > k, k >= 0), psum(z3.Store(A, k, v), n) == psum(A, n) - A[k] + v),
        patterns=[psum(z3.Store(A, k, v), n)],
    )
    return [ax0, ax1, ax2, ax3]


def pydiv(a, b):
    """Python floor division on ints (b != 0 is a separate safety obligation)."""
    if z3.is_int_value(b):
        bv = b.as_long()
        if bv > 0:
            return a / b
        if bv < 0:
            return (-a) / z3.IntVal(-bv)
    return z3.If(b > 0, a / b, (-a) / (-b))


def pymod(a, b):
    if z3.is_int_value(b) and b.as_long() > 0:
        return a % b
    return a - b * pydiv(a, b)
