"""Expression evaluation: Python ast expression -> z3 term (+ safety obligations).

The same evaluator serves code (spec=False: implicit failures become obligations) and
contract formulas (spec=True: `old`, `result`, quantifiers, no safety obligations).
"""
import ast
from contextlib import contextmanager

import z3

from . import ty as T
from .core import SV, Alias, FuncVal, Unsupported, fresh, fresh_name, psum, pydiv, pymod

MUTATORS = {
    "append", "add", "remove", "pop", "discard", "extend", "reverse", "update", "clear",
    "insert", "sort", "setdefault", "popitem", "appendleft", "popleft",
}

_UFDIV = z3.Function("pyfloordiv", z3.IntSort(), z3.IntSort(), z3.IntSort())
_UFMOD = z3.Function("pymod", z3.IntSort(), z3.IntSort(), z3.IntSort())

card_cache = {}


def card_fn(setty):
    """Cardinality of a finite set: uninterpreted, constrained by instances emitted at use sites."""
    key = setty.name
    if key not in card_cache:
        card_cache[key] = z3.Function("card_" + T._mangle(key), setty.sort(), z3.IntSort())
    return card_cache[key]



class UnionSlice:
    """u[lo:hi] of a value whose type is a union of tuple shapes; only meaningful as the left operand of `+ (..)`."""

    def __init__(self, base, lo, hi):
        self.base, self.lo, self.hi = base, lo, hi
        self.ty = None

class ExprMixin:
    # ------------------------------------------------------------------ element set of a sequence
    def seqset_fn(self, sty):
        """elems(s): the set of elements of sequence s, with a skolem index witness (no ∃ in clauses)."""
        key = sty.name
        if key not in self._seqset:
            es = T.Set(sty.elem)
            f = z3.Function("elems_" + T._mangle(key), sty.sort(), es.sort())
            w = z3.Function("widx_" + T._mangle(key), sty.sort(), sty.elem.sort(), z3.IntSort())
            s_ = z3.Const("s", sty.sort())
            i = z3.Int("i")
            x = z3.Const("x", sty.elem.sort())
            a1 = z3.ForAll([s_, i], z3.Implies(z3.And(0 <= i, i < sty.len(s_)), z3.Select(f(s_), z3.Select(sty.arr(s_), i))),
                           patterns=[z3.MultiPattern(f(s_), z3.Select(sty.arr(s_), i))])
            a2 = z3.ForAll([s_, x], z3.Implies(z3.Select(f(s_), x), z3.And(0 <= w(s_, x), w(s_, x) < sty.len(s_), z3.Select(sty.arr(s_), w(s_, x)) == x)),
                           patterns=[z3.Select(f(s_), x)])
            self.axioms.extend([a1, a2])
            self.heavy_ids.add(a2.get_id())
            self._seqset[key] = (f, w)
        return self._seqset[key][0]

    def elems(self, sv):
        return SV(self.seqset_fn(sv.ty)(sv.t), T.Set(sv.ty.elem))

    # ------------------------------------------------------------------ helpers
    def check(self, st, cond, kind, node, label=""):
        """Safety obligation (code mode only), then assume it."""
        if self.spec_mode:
            return
        if self.guards:
            cond_g = z3.Implies(z3.And(*self.guards), cond) if self.guards else cond
        else:
            cond_g = cond
        if self.cur is not None and getattr(self.cur, "exceptions_not_checked", False):
            # the contract is explicitly about the normal runs of the fragment only: `if it raises nothing, then ...`;
            # the condition is assumed, the omission is recorded in the evidence
            self.used_models.add("exception freedom NOT checked for this fragment (contract option exceptions_not_checked)")
            st.assume(cond_g)
            return
        self.emit(st, cond_g, "safety:" + kind, node, label)
        st.assume(cond_g)

    @contextmanager
    def guarded(self, g):
        self.guards.append(g)
        try:
            yield
        finally:
            self.guards.pop()

    @contextmanager
    def spec(self, on=True):
        prev = self.spec_mode
        self.spec_mode = on
        try:
            yield
        finally:
            self.spec_mode = prev

    def pynone(self, sv):
        """`v is None` for a value of an opaque sort that the contract module declared nullable (an arbitrary Python
        object, which may be None itself): an uninterpreted predicate."""
        self.used_models.add(f"opaque {sv.ty.name} may be None: uninterpreted predicate")
        return z3.Function("is_pynone_" + sv.ty.name, sv.ty.sort(), z3.BoolSort())(sv.t)

    def truthy(self, sv):
        ty = sv.ty
        if ty == T.Bool:
            return sv.t
        if ty == T.Int:
            return sv.t != 0
        if ty == T.Real:
            return sv.t != 0
        if isinstance(ty, T.TNone):
            return z3.BoolVal(False)
        if isinstance(ty, T.Opt):
            inner = self.truthy(SV(ty.val(sv.t), ty.inner))
            return z3.And(ty.is_some(sv.t), inner)
        if isinstance(ty, T.Seq):
            return ty.len(sv.t) != 0
        if isinstance(ty, T.Set):
            return sv.t != ty.empty()
        if isinstance(ty, T.Map):
            return ty.dom(sv.t) != T.Set(ty.key).empty()
        if isinstance(ty, T.U):
            # an opaque Python object: its truth value is unknown (0, '', empty containers are falsy)
            # unless the contract module declares the sort always-truthy (callables, plain objects)
            if ty.name in self.always_truthy:
                return z3.BoolVal(True)
            self.used_models.add(f"truthiness of opaque {ty.name}: uninterpreted")
            tr = z3.Function("truthy_" + ty.name, ty.sort(), z3.BoolSort())(sv.t)
            if ty.name in self.nullable_sorts:
                return z3.And(z3.Not(self.pynone(sv)), tr)
            return tr
        if isinstance(ty, (T.Rec, T.Tup, T.Enum)):
            if isinstance(ty, T.Tup) and not ty.items:
                return z3.BoolVal(False)
            return z3.BoolVal(True)
        raise Unsupported(f"truthiness of {ty}")

    def coerce(self, sv, want, st=None, node=None):
        if want is None or sv.ty == want:
            return sv
        if isinstance(want, T.Opt):
            if isinstance(sv.ty, T.TNone):
                return SV(want.none(), want)
            if sv.ty == want.inner:
                return SV(want.some(sv.t), want)
            inner = self.coerce(sv, want.inner, st, node)
            return SV(want.some(inner.t), want)
        if want == T.Real and sv.ty == T.Int:
            return SV(z3.ToReal(sv.t), T.Real)
        if want == T.Int and sv.ty == T.Bool:
            return SV(z3.If(sv.t, z3.IntVal(1), z3.IntVal(0)), T.Int)
        if isinstance(sv.ty, T.Opt) and sv.ty.inner == want:
            if st is not None:
                self.check(st, sv.ty.is_some(sv.t), "none-deref", node)
            return SV(sv.ty.val(sv.t), want)
        if isinstance(want, T.Union):
            for tag, aty in want.alts.items():
                if aty == sv.ty:
                    return SV(want.inj(tag, sv.t), want)
        if isinstance(sv.ty, T.Union):
            for tag, aty in sv.ty.alts.items():
                if aty == want:
                    if st is not None:
                        self.check(st, sv.ty.is_(tag, sv.t), "type", node)
                    return SV(sv.ty.proj(tag, sv.t), want)
        if isinstance(want, T.Seq) and isinstance(sv.ty, T.Seq) and sv.ty.elem == want.elem:
            return sv
        raise Unsupported(f"cannot coerce {sv.ty} to {want}")

    def to_int(self, sv, st=None, node=None):
        if sv.ty == T.Int:
            return sv.t
        return self.coerce(sv, T.Int, st, node).t

    def unify(self, a, b):
        """Common type for the two branches of a conditional / `or`."""
        if a.ty == b.ty:
            return a, b
        if isinstance(a.ty, T.TNone) and not isinstance(b.ty, T.Opt):
            o = T.Opt(b.ty)
            return SV(o.none(), o), SV(o.some(b.t), o)
        if isinstance(b.ty, T.TNone) and not isinstance(a.ty, T.Opt):
            o = T.Opt(a.ty)
            return SV(o.some(a.t), o), SV(o.none(), o)
        if isinstance(a.ty, T.Opt):
            return a, self.coerce(b, a.ty)
        if isinstance(b.ty, T.Opt):
            return self.coerce(a, b.ty), b
        if {a.ty, b.ty} == {T.Int, T.Real}:
            return self.coerce(a, T.Real), self.coerce(b, T.Real)
        if {a.ty, b.ty} == {T.Int, T.Bool}:
            return self.coerce(a, T.Int), self.coerce(b, T.Int)
        raise Unsupported(f"cannot unify {a.ty} and {b.ty}")

    # ------------------------------------------------------------------ paths
    def deref(self, st, v):
        if isinstance(v, Alias):
            return self.read_path(st, v.root, v.sels)
        return v

    def read_name(self, st, name, node=None):
        if name in st.env:
            return self.deref(st, st.env[name])
        if name in self.consts:
            return self.consts[name]
        if name in self.funcs:
            return self.funcs[name]
        raise Unsupported(f"unknown name {name!r}")

    def read_path(self, st, root, sels):
        v = st.env[root]
        if isinstance(v, Alias):
            return self.read_path(st, v.root, v.sels + list(sels))
        for kind, s in sels:
            v = self.select(st, v, kind, s, None)
        return v

    def select(self, st, v, kind, s, node):
        if isinstance(v.ty, T.Opt) and isinstance(v.ty.inner, (T.Seq, T.Map, T.Rec)):
            if node is not None:
                self.check(st, v.ty.is_some(v.t), "none-deref", node)
            v = SV(v.ty.val(v.t), v.ty.inner)
        ty = v.ty
        if kind == "field":
            if isinstance(ty, T.Rec):
                if s not in ty.fields:
                    raise Unsupported(f"record {ty} has no field {s}")
                return SV(ty.get(v.t, s), ty.fields[s])
            raise Unsupported(f"field {s} of {ty}")
        if kind == "key":
            if isinstance(ty, T.Map):
                k = self.coerce(s, ty.key)
                if node is not None:
                    self.check(st, z3.Select(ty.dom(v.t), k.t), "KeyError", node)
                return SV(z3.Select(ty.valarr(v.t), k.t), ty.val)
            if isinstance(ty, T.Seq):
                return self.select(st, v, "idx", s, node)
            raise Unsupported(f"subscript of {ty}")
        if kind == "idx":
            if isinstance(ty, T.Seq):
                i = self.to_int(s)
                n = ty.len(v.t)
                if node is not None:
                    self.check(st, z3.And(i >= -n, i < n), "IndexError", node)
                i2 = self.norm_index(st, i, n)
                return SV(z3.Select(ty.arr(v.t), i2), ty.elem)
            if isinstance(ty, T.Tup):
                if not z3.is_int_value(s.t):
                    raise Unsupported("tuple index must be constant")
                j = s.t.as_long()
                if j < 0:
                    j += len(ty.items)
                return SV(ty.get(v.t, j), ty.items[j])
            if isinstance(ty, T.Map):
                return self.select(st, v, "key", s, node)
            raise Unsupported(f"index of {ty}")
        raise Unsupported(kind)

    def norm_index(self, st, i, n):
        """Python index normalisation: negative indices count from the end."""
        i = z3.simplify(i)
        if z3.is_int_value(i):
            return i if i.as_long() >= 0 else z3.simplify(n + i)
        if self.spec_mode:
            # contract formulas index with non-negative expressions only (negative literals handled above)
            return i
        g = z3.And(*self.guards) if self.guards else None
        s = z3.Solver()
        s.set("rlimit", 200000)  # deterministic budget
        for h in st.pc:
            s.add(h)
        if g is not None:
            s.add(g)
        s.add(i < 0)
        if s.check() == z3.unsat:
            return i
        return z3.If(i < 0, i + n, i)

    def _nonneg(self, i):
        i = z3.simplify(i)
        return z3.is_int_value(i) and i.as_long() >= 0

    def update(self, st, v, sels, newv, node):
        """Functional update of value v along sels with newv (SV) -> SV."""
        if not sels:
            return self.coerce(newv, v.ty)
        (kind, s), rest = sels[0], sels[1:]
        ty = v.ty
        if kind == "field":
            inner = SV(ty.get(v.t, s), ty.fields[s])
            upd = self.update(st, inner, rest, newv, node)
            return SV(ty.set(v.t, s, upd.t), ty)
        if isinstance(ty, T.Map):
            k = self.coerce(s, ty.key)
            if rest:
                if node is not None:
                    self.check(st, z3.Select(ty.dom(v.t), k.t), "KeyError", node)
                inner = SV(z3.Select(ty.valarr(v.t), k.t), ty.val)
                upd = self.update(st, inner, rest, newv, node)
            else:
                upd = self.coerce(newv, ty.val)
            return SV(ty.mk(z3.Store(ty.dom(v.t), k.t, True), z3.Store(ty.valarr(v.t), k.t, upd.t)), ty)
        if isinstance(ty, T.Seq):
            i = self.to_int(s)
            n = ty.len(v.t)
            if node is not None:
                self.check(st, z3.And(i >= -n, i < n), "IndexError", node)
            i2 = self.norm_index(st, i, n)
            if rest:
                inner = SV(z3.Select(ty.arr(v.t), i2), ty.elem)
                upd = self.update(st, inner, rest, newv, node)
            else:
                upd = self.coerce(newv, ty.elem)
            return SV(ty.mk(z3.Store(ty.arr(v.t), i2, upd.t), n), ty)
        raise Unsupported(f"update of {ty}")

    def note_mutation(self, st, root, node):
        """An in-place modification through the name `root`: an obligation when `root` is a parameter the contract
        declares immutable and the name still denotes the caller's object (it was not assigned to)."""
        cur = st.env.get(root)
        if isinstance(cur, Alias):
            return self.note_mutation(st, cur.root, node)
        if self.cur is not None and root in self.cur.immutable and root not in st.rebound and not self.in_ghost:
            self.emit(st, z3.BoolVal(False), "frame", node, f"argument-{root}-not-modified")

    def write_path(self, st, root, sels, newv, node=None):
        cur = st.env.get(root)
        if isinstance(cur, Alias):
            return self.write_path(st, cur.root, cur.sels + list(sels), newv, node)

        if not sels:
            if cur is not None and isinstance(cur, SV) and cur.ty != newv.ty:
                try:
                    newv = self.coerce(newv, cur.ty)
                except Unsupported:
                    pass
            st.env[root] = newv
            return
        st.env[root] = self.update(st, cur, list(sels), newv, node)

    def lvalue(self, node, st):
        """Name / Subscript / Attribute chain -> (root, sels) or None."""
        if isinstance(node, ast.Name):
            if node.id in st.env:
                v = st.env[node.id]
                if isinstance(v, Alias):
                    return v.root, list(v.sels)
                return node.id, []
            return None
        if isinstance(node, ast.Subscript) and not isinstance(node.slice, ast.Slice):
            base = self.lvalue(node.value, st)
            if base is None:
                return None
            root, sels = base
            bv = self.read_path(st, root, sels)
            if isinstance(bv.ty, (T.Union, T.Tup)):
                return None  # immutable value: not a storage path
            if isinstance(bv.ty, T.Rec) and isinstance(node.slice, ast.Constant) and isinstance(node.slice.value, str):
                return root, sels + [("field", node.slice.value)]
            k = self.ev(node.slice, st)
            if isinstance(bv.ty, T.Map) and not self.spec_mode and self.is_defaultdict((root, sels)):
                # defaultdict: subscripting inserts the default for a missing key
                self.defaultdict_touch(st, (root, sels), bv, self.coerce(k, bv.ty.key))
            return root, sels + [("key" if isinstance(bv.ty, T.Map) else "idx", k)]
        if isinstance(node, ast.Attribute):
            base = self.lvalue(node.value, st)
            if base is None:
                return None
            root, sels = base
            bv = self.read_path(st, root, sels)
            if isinstance(bv.ty, T.Rec) and node.attr in bv.ty.fields:
                return root, sels + [("field", node.attr)]
            return None
        return None

    def is_mutable(self, ty):
        return isinstance(ty, (T.Seq, T.Set, T.Map)) or (
            isinstance(ty, T.Rec) and ty.name in self.mutable_records
        )

    # ------------------------------------------------------------------ evaluation
    def ev(self, node, st, want=None):
        m = getattr(self, "ev_" + type(node).__name__, None)
        if m is None:
            raise Unsupported(f"expression {type(node).__name__}: {ast.unparse(node)}")
        v = m(node, st, want)
        if want is not None and isinstance(v, SV) and v.ty != want:
            if want == T.Bool:
                # a local declared Bool in the contract is only ever used for its truth value
                return SV(self.truthy(v), T.Bool)
            v = self.coerce(v, want, st, node)
        return v

    def ev_Constant(self, node, st, want):
        c = node.value
        if c is None:
            if isinstance(want, T.Opt):
                return SV(want.none(), want)
            return SV(T.NoneT.value(), T.NoneT)
        if isinstance(c, bool):
            return SV(z3.BoolVal(c), T.Bool)
        if isinstance(c, int):
            return SV(z3.IntVal(c), T.Int)
        if isinstance(c, float):
            from fractions import Fraction

            f = Fraction(c)
            return SV(z3.RealVal(f"{f.numerator}/{f.denominator}"), T.Real)
        if isinstance(c, str):
            if isinstance(want, T.Enum) and c in want.values:
                return SV(want.const(c), want)
            for e in self.enums:
                if c in e.values:
                    return SV(e.const(c), e)
            return SV(z3.StringVal(c), T.Str)
        raise Unsupported(f"constant {c!r}")

    def ev_Name(self, node, st, want):
        if (self.spec_mode or getattr(self, "in_ghost", 0)) and node.id == "result":
            if self.result_sv is not None:
                return self.result_sv
            if node.id not in st.env:
                raise Unsupported("result used outside postcondition")
        if node.id in self.bound:
            return self.bound[node.id]
        return self.read_name(st, node.id, node)

    def ev_Tuple(self, node, st, want):
        if isinstance(want, T.Seq):
            return self._seq_literal(node.elts, st, want)
        wants = want.items if isinstance(want, T.Tup) and len(want.items) == len(node.elts) else [None] * len(node.elts)
        if any(isinstance(e, ast.Starred) for e in node.elts):
            raise Unsupported("starred tuple")
        vals = [self.ev(e, st, w) for e, w in zip(node.elts, wants)]
        tt = T.Tup(*[v.ty for v in vals])
        return SV(tt.mk(*[v.t for v in vals]), tt)

    def _seq_literal(self, elts, st, want):
        arr = z3.K(z3.IntSort(), self.default_of(want.elem))
        for i, e in enumerate(elts):
            arr = z3.Store(arr, i, self.ev(e, st, want.elem).t)
        return SV(want.mk(arr, z3.IntVal(len(elts))), want)

    def default_of(self, ty):
        return z3.Const("dflt_" + T._mangle(ty.name), ty.sort())

    def ev_List(self, node, st, want):
        if want is None:
            if not node.elts:
                raise Unsupported("empty list literal needs a declared type (contract `locals`)")
            first = self.ev(node.elts[0], st)
            want = T.Seq(first.ty)
        return self._seq_literal(node.elts, st, want)

    def ev_Set(self, node, st, want):
        vals = [self.ev(e, st, want.elem if isinstance(want, T.Set) else None) for e in node.elts]
        sty = want if isinstance(want, T.Set) else T.Set(vals[0].ty)
        s = sty.empty()
        for v in vals:
            s = z3.Store(s, v.t, True)
        return SV(s, sty)

    def ev_Dict(self, node, st, want):
        if isinstance(want, T.Rec):
            vals = {}
            for k, v in zip(node.keys, node.values):
                if not (isinstance(k, ast.Constant) and isinstance(k.value, str)):
                    raise Unsupported("record literal with non-constant key")
                vals[k.value] = self.ev(v, st, want.fields[k.value]).t
            if set(vals) != set(want.fields):
                raise Unsupported(f"record literal fields {sorted(vals)} != {sorted(want.fields)}")
            return SV(want.mk(**vals), want)
        if isinstance(want, T.Map):
            m = SV(want.mk(T.Set(want.key).empty(), z3.K(want.key.sort(), self.default_of(want.val))), want)
            for k, v in zip(node.keys, node.values):
                kk = self.ev(k, st, want.key)
                vv = self.ev(v, st, want.val)
                m = SV(want.mk(z3.Store(want.dom(m.t), kk.t, True), z3.Store(want.valarr(m.t), kk.t, vv.t)), want)
            return m
        raise Unsupported("dict literal needs a declared type")

    def ev_UnaryOp(self, node, st, want):
        if isinstance(node.op, ast.Not):
            return SV(z3.Not(self.truthy(self.ev(node.operand, st))), T.Bool)
        v = self.ev(node.operand, st)
        if isinstance(node.op, ast.USub):
            if v.ty == T.Real:
                return SV(-v.t, T.Real)
            return SV(-self.to_int(v, st, node), T.Int)
        if isinstance(node.op, ast.UAdd):
            return v
        raise Unsupported(ast.unparse(node))

    def ev_BoolOp(self, node, st, want):
        vals = []
        first = self.ev(node.values[0], st)
        is_and = isinstance(node.op, ast.And)
        # pure boolean chain -> And/Or with guarded evaluation of later operands
        acc = first
        for nxt in node.values[1:]:
            g = self.truthy(acc)
            with self.guarded(g if is_and else z3.Not(g)):
                r = self.ev(nxt, st)
            if acc.ty == T.Bool and r.ty == T.Bool:
                acc = SV(z3.And(acc.t, r.t) if is_and else z3.Or(acc.t, r.t), T.Bool)
            else:
                # value-returning and/or:  a or b == a if truthy(a) else b
                if isinstance(acc.ty, T.Opt) and acc.ty.inner == r.ty and not is_and:
                    # Opt[T] or T  ->  T   (a falsy Some(x) also yields b)
                    a2 = SV(acc.ty.val(acc.t), r.ty)
                    acc = SV(z3.If(g, a2.t, r.t), r.ty)
                else:
                    try:
                        a2, r2 = self.unify(acc, r)
                        acc = SV(z3.If(g, r2.t, a2.t) if is_and else z3.If(g, a2.t, r2.t), a2.ty)
                    except Unsupported:
                        # operands of unrelated types: only the truth value can be used (tests of if/while)
                        rt = self.truthy(r)
                        acc = SV(z3.And(g, rt) if is_and else z3.Or(g, rt), T.Bool)
        return acc

    def ev_IfExp(self, node, st, want):
        c = self.truthy(self.ev(node.test, st))
        with self.guarded(c):
            a = self.ev(node.body, st, want)
        with self.guarded(z3.Not(c)):
            b = self.ev(node.orelse, st, want)
        a, b = self.unify(a, b)
        return SV(z3.If(c, a.t, b.t), a.ty)

    def ev_Compare(self, node, st, want):
        left = self.ev(node.left, st)
        res = []
        for op, rn in zip(node.ops, node.comparators):
            right = self.ev(rn, st)
            res.append(self.compare(op, left, right, st, node))
            left = right
        return SV(z3.And(*res) if len(res) > 1 else res[0], T.Bool)

    def seq_eq(self, a, b):
        ty = a.ty
        i = z3.Int(fresh_name("i"))
        return z3.And(
            ty.len(a.t) == ty.len(b.t),
            z3.ForAll([i], z3.Implies(z3.And(0 <= i, i < ty.len(a.t)), self.val_eq(
                SV(z3.Select(ty.arr(a.t), i), ty.elem), SV(z3.Select(ty.arr(b.t), i), ty.elem)))),
        )

    def val_eq(self, a, b):
        if a.ty != b.ty:
            try:
                a, b = self.unify(a, b)
            except Unsupported:
                return z3.BoolVal(False)
        if isinstance(a.ty, T.Seq):
            return self.seq_eq(a, b)
        if isinstance(a.ty, T.Map):
            ty = a.ty
            k = z3.Const(fresh_name("k"), ty.key.sort())
            return z3.And(
                ty.dom(a.t) == ty.dom(b.t),
                z3.ForAll([k], z3.Implies(z3.Select(ty.dom(a.t), k), self.val_eq(
                    SV(z3.Select(ty.valarr(a.t), k), ty.val), SV(z3.Select(ty.valarr(b.t), k), ty.val)))),
            )
        return a.t == b.t

    def compare(self, op, a, b, st, node):
        if isinstance(op, (ast.Is, ast.IsNot, ast.Eq, ast.NotEq)):
            neg = isinstance(op, (ast.IsNot, ast.NotEq))
            if isinstance(b.ty, T.TNone) and isinstance(a.ty, T.Opt):
                r = a.ty.is_none(a.t)
            elif isinstance(a.ty, T.TNone) and isinstance(b.ty, T.Opt):
                r = b.ty.is_none(b.t)
            elif isinstance(b.ty, T.TNone) and isinstance(a.ty, T.U) and a.ty.name in self.nullable_sorts:
                r = self.pynone(a)
            elif isinstance(a.ty, T.TNone) and isinstance(b.ty, T.U) and b.ty.name in self.nullable_sorts:
                r = self.pynone(b)
            elif isinstance(a.ty, T.TNone) or isinstance(b.ty, T.TNone):
                r = z3.BoolVal(isinstance(a.ty, T.TNone) and isinstance(b.ty, T.TNone))
            else:
                r = self.val_eq(a, b)
            return z3.Not(r) if neg else r
        if isinstance(op, (ast.In, ast.NotIn)):
            r = self.contains(b, a, st, node)
            return z3.Not(r) if isinstance(op, ast.NotIn) else r
        if isinstance(a.ty, T.Set) and isinstance(b.ty, T.Set):
            if isinstance(op, ast.LtE):
                return z3.IsSubset(a.t, b.t)
            if isinstance(op, ast.GtE):
                return z3.IsSubset(b.t, a.t)
            raise Unsupported("strict set comparison")
        if self.user_order and a.ty == b.ty and a.ty.name in self.user_order:
            lt = self.user_order[a.ty.name]
            if isinstance(op, ast.Lt):
                return lt(a.t, b.t)
            if isinstance(op, ast.LtE):
                return z3.Or(lt(a.t, b.t), a.t == b.t)
            if isinstance(op, ast.Gt):
                return lt(b.t, a.t)
            if isinstance(op, ast.GtE):
                return z3.Or(lt(b.t, a.t), a.t == b.t)
        if a.ty == T.Real or b.ty == T.Real:
            x, y = self.coerce(a, T.Real, st, node).t, self.coerce(b, T.Real, st, node).t
        else:
            x, y = self.to_int(a, st, node), self.to_int(b, st, node)
        if isinstance(op, ast.Lt):
            return x < y
        if isinstance(op, ast.LtE):
            return x <= y
        if isinstance(op, ast.Gt):
            return x > y
        if isinstance(op, ast.GtE):
            return x >= y
        raise Unsupported(ast.dump(op))

    def contains(self, cont, x, st, node):
        if isinstance(cont.ty, T.Opt):
            cont = self.unwrap(cont, st, node)
        ty = cont.ty
        if isinstance(ty, T.Set):
            return z3.Select(cont.t, self.coerce(x, ty.elem).t)
        if isinstance(ty, T.Map):
            return z3.Select(ty.dom(cont.t), self.coerce(x, ty.key).t)
        if isinstance(ty, T.Seq):
            xe = self.coerce(x, ty.elem)
            return z3.Select(self.elems(cont).t, xe.t)
        if isinstance(ty, T.Rec) and ty.name in self.dict_records and x.ty == T.Str and z3.is_string_value(x.t):
            f = x.t.as_string()
            if f in ty.fields:
                fty = ty.fields[f]
                return fty.is_some(ty.get(cont.t, f)) if isinstance(fty, T.Opt) else z3.BoolVal(True)
            raise Unsupported(f"key {f!r} outside the declared key universe of {ty.name}")
        raise Unsupported(f"`in` on {ty}")

    def ev_BinOp(self, node, st, want):
        if isinstance(want, T.Seq) and isinstance(node.op, ast.Add):
            a = self.ev(node.left, st, want)
            b = self.ev(node.right, st, want)
        elif isinstance(want, T.Seq) and isinstance(node.op, ast.Mult):
            a = self.ev(node.left, st, want)
            b = self.ev(node.right, st)
        else:
            a = self.ev(node.left, st)
            b = self.ev(node.right, st)
        op = node.op
        if isinstance(a, UnionSlice):
            # u[lo:hi] + (x, ..) on a union of tuple shapes: the (unique) shape for which the result is again a shape of the union
            if not (isinstance(op, ast.Add) and isinstance(b.ty, T.Tup)):
                raise Unsupported("slice of a union of tuple shapes outside `u[a:b] + (..)`")
            u = a.base
            cands = []
            for tag, aty in u.ty.alts.items():
                if isinstance(aty, T.Tup):
                    idx = list(range(len(aty.items)))[slice(a.lo, a.hi)]
                    ext = T.Tup(*([aty.items[i] for i in idx] + list(b.ty.items)))
                    if any(x == ext for x in u.ty.alts.values()):
                        cands.append((tag, aty, idx, ext))
            if len(cands) != 1:
                raise Unsupported(f"tuple slice + concatenation on {u.ty}")
            tag, aty, idx, ext = cands[0]
            self.check(st, u.ty.is_(tag, u.t), f"model(record is not in its {tag} form)", node)
            pv = u.ty.proj(tag, u.t)
            return SV(ext.mk(*([aty.get(pv, i) for i in idx] + [b.ty.get(b.t, i) for i in range(len(b.ty.items))])), ext)
        if isinstance(a.ty, T.Set) and isinstance(b.ty, T.Set):
            if isinstance(op, ast.BitOr):
                return SV(z3.SetUnion(a.t, b.t), a.ty)
            if isinstance(op, ast.BitAnd):
                return SV(z3.SetIntersect(a.t, b.t), a.ty)
            if isinstance(op, ast.Sub):
                return SV(z3.SetDifference(a.t, b.t), a.ty)
            raise Unsupported("set op")
        if isinstance(op, ast.Add) and isinstance(b.ty, T.Tup) and isinstance(a.ty, (T.Tup, T.Union)):
            # tuple concatenation; for a union of tuple shapes: the (unique) shape whose extension is again a shape of
            # the union (a record that grows from its short to its long form) -- other shapes leave the model
            if isinstance(a.ty, T.Union):
                cands = []
                for tag, aty in a.ty.alts.items():
                    if isinstance(aty, T.Tup):
                        ext = T.Tup(*(list(aty.items) + list(b.ty.items)))
                        if any(x == ext for x in a.ty.alts.values()):
                            cands.append((tag, aty))
                if len(cands) != 1:
                    raise Unsupported(f"tuple concatenation on {a.ty}")
                self.check(st, a.ty.is_(cands[0][0], a.t), f"model(record is not in its {cands[0][0]} form)", node)
                a = SV(a.ty.proj(cands[0][0], a.t), cands[0][1])
            rt = T.Tup(*(list(a.ty.items) + list(b.ty.items)))
            return SV(rt.mk(*([a.ty.get(a.t, i) for i in range(len(a.ty.items))] + [b.ty.get(b.t, i) for i in range(len(b.ty.items))])), rt)
        if isinstance(a.ty, T.Seq) and isinstance(b.ty, T.Seq) and isinstance(op, ast.Add):
            return self.seq_concat(a, b, st)
        if isinstance(a.ty, T.Seq) and isinstance(op, ast.Mult):
            # [v] * n
            n = self.to_int(b, st, node)
            la = a.ty.len(a.t)
            if z3.is_int_value(z3.simplify(la)) and z3.simplify(la).as_long() == 1:
                v0 = z3.Select(a.ty.arr(a.t), 0)
                return SV(a.ty.mk(z3.K(z3.IntSort(), v0), z3.If(n > 0, n, 0)), a.ty)
            raise Unsupported("sequence repetition")
        if a.ty == T.Real or b.ty == T.Real or isinstance(op, ast.Div):
            return self.float_binop(op, a, b, st, node)
        x, y = self.to_int(a, st, node), self.to_int(b, st, node)
        if isinstance(op, ast.Pow):
            xs, ys = z3.simplify(x), z3.simplify(y)
            if z3.is_int_value(xs) and z3.is_int_value(ys) and ys.as_long() >= 0:
                return SV(z3.IntVal(xs.as_long() ** ys.as_long()), T.Int)
            raise Unsupported("** with non-constant operands")
        if isinstance(op, ast.Add):
            return SV(x + y, T.Int)
        if isinstance(op, ast.Sub):
            return SV(x - y, T.Int)
        if isinstance(op, ast.Mult):
            return SV(x * y, T.Int)
        if isinstance(op, ast.FloorDiv):
            self.check(st, y != 0, "ZeroDivisionError", node)
            return SV(self.idiv(x, y), T.Int)
        if isinstance(op, ast.Mod):
            self.check(st, y != 0, "ZeroDivisionError", node)
            return SV(self.imod(x, y), T.Int)
        raise Unsupported(ast.unparse(node))

    def idiv(self, x, y):
        y = z3.simplify(y)
        if z3.is_int_value(y) or not self.uninterp_divmod:
            return pydiv(x, y)
        return self.uf_div(x, y)

    def imod(self, x, y):
        y = z3.simplify(y)
        if z3.is_int_value(y) or not self.uninterp_divmod:
            return pymod(x, y)
        return self.uf_mod(x, y)

    def uf_div(self, x, y):
        self.used_models.add("// with symbolic divisor: uninterpreted, facts only through lemmas")
        return _UFDIV(x, y)

    def uf_mod(self, x, y):
        self.used_models.add("% with symbolic divisor: uninterpreted, facts only through lemmas")
        return _UFMOD(x, y)

    EPS = z3.RealVal("1/9007199254740992")  # 2**-53: unit round-off of IEEE double, round-to-nearest
    BIG = z3.RealVal(2 ** 53)

    def fresh_q(self, sort, hint):
        """Fresh value; inside a comprehension a Skolem function of the bound variables."""
        qs = [v for vs, _ in self.qscope for v in vs]
        if qs:
            f = z3.Function(fresh_name(hint), *[v.sort() for v in qs], sort)
            return f(*qs)
        return z3.Const(fresh_name(hint), sort)

    def assume_q(self, st, fact, pattern=None):
        qs = [v for vs, _ in self.qscope for v in vs]
        if qs:
            guard = z3.And(*[g for _, g in self.qscope])
            st.assume(z3.ForAll(qs, z3.Implies(guard, fact), patterns=[pattern] if pattern is not None else []))
        else:
            st.assume(fact)

    def unwrap(self, sv, st, node):
        """Optional[T] used where a T is needed: none-deref obligation, then the payload."""
        if isinstance(sv.ty, T.Opt):
            self.check(st, sv.ty.is_some(sv.t), "none-deref", node)
            return SV(sv.ty.val(sv.t), sv.ty.inner)
        return sv

    def float_round(self, st, exact, hint="fl"):
        """IEEE-754 double rounding, abstracted: |r - x| <= 2**-53 * |x|, exact when x is an integer of
        magnitude <= 2**53 (those are representable), sign preserved.  Overflow/underflow/NaN excluded
        (listed as an assumption).  NOT `floats are reals`."""
        self.used_models.add("float: relative rounding error 2**-53 per operation, integers up to 2**53 exact")
        qs = [v for vs, _ in self.qscope for v in vs]
        if qs:
            # inside a comprehension: the rounded value is a (Skolem) function of the bound variables
            f = z3.Function(fresh_name(hint), *[v.sort() for v in qs], z3.RealSort())
            r = f(*qs)
        else:
            r = z3.Real(fresh_name(hint))
        ax = z3.If(exact >= 0, exact, -exact)
        # fl = floor(exact), named explicitly (an Int; a Skolem function of the bound variables inside comprehensions)
        if qs:
            ff = z3.Function(fresh_name(hint + "_floor"), *[v.sort() for v in qs], z3.IntSort())
            fl = ff(*qs)
        else:
            fl = z3.Int(fresh_name(hint + "_floor"))
        flr = z3.ToReal(fl)
        facts = z3.And(
            flr <= exact, exact < flr + 1,
            r >= exact - self.EPS * ax, r <= exact + self.EPS * ax,
            # integers up to 2**53 are representable: an integral exact result is not rounded
            z3.Implies(z3.And(exact == flr, ax <= self.BIG), r == exact),
            z3.Implies(exact >= 0, r >= 0), z3.Implies(exact <= 0, r <= 0),
            # rounding is monotone, so the result cannot cross a (representable) integer
            z3.Implies(ax <= self.BIG, z3.And(r >= flr, r <= flr + 1)),
        )
        if qs:
            guard = z3.And(*[g for _, g in self.qscope])
            st.assume(z3.ForAll(qs, z3.Implies(guard, facts), patterns=[r]))
        else:
            st.assume(facts)
        return r

    def float_binop(self, op, a, b, st, node):
        x = self.coerce(a, T.Real, st, node).t
        y = self.coerce(b, T.Real, st, node).t
        if isinstance(op, ast.Div):
            self.check(st, y != 0, "ZeroDivisionError", node)
            exact = x / y
        elif isinstance(op, ast.Mult):
            exact = x * y
        elif isinstance(op, ast.Add):
            exact = x + y
        elif isinstance(op, ast.Sub):
            exact = x - y
        else:
            raise Unsupported(f"float operator {type(op).__name__}")
        return SV(self.float_round(st, exact), T.Real)

    def seq_concat(self, a, b, st=None):
        ty = a.ty
        if st is not None and not self.spec_mode:
            la, lb = ty.len(a.t), ty.len(b.t)
            r = fresh(ty, "cat")
            ra = ty.arr(r.t)
            j = z3.Int(fresh_name("j"))
            st.assume(ty.len(r.t) == la + lb)
            st.assume(z3.ForAll([j], z3.Implies(z3.And(0 <= j, j < la), z3.Select(ra, j) == z3.Select(ty.arr(a.t), j)), patterns=[z3.Select(ra, j)]))
            st.assume(z3.ForAll([j], z3.Implies(z3.And(la <= j, j < la + lb), z3.Select(ra, j) == z3.Select(ty.arr(b.t), j - la)), patterns=[z3.Select(ra, j)]))
            return r
        i = z3.Int("i!cc")
        la, lb = ty.len(a.t), ty.len(b.t)
        arr = z3.Lambda([i], z3.If(i < la, z3.Select(ty.arr(a.t), i), z3.Select(ty.arr(b.t), i - la)))
        return SV(ty.mk(arr, la + lb), ty)

    def ev_Subscript(self, node, st, want):
        if not self.spec_mode and not isinstance(node.slice, ast.Slice) and self.defaultdicts:
            lv0 = self.lvalue(node.value, st)
            if lv0 is not None and self.is_defaultdict(lv0):
                self.lvalue(node, st)  # performs the defaultdict auto-insert
        base = self.ev(node.value, st)
        if isinstance(base, SV) and isinstance(base.ty, T.Opt) and isinstance(base.ty.inner, (T.Seq, T.Map)):
            base = self.unwrap(base, st, node)
        if isinstance(base, SV) and isinstance(base.ty, T.Union):
            cands = [(tag, aty) for tag, aty in base.ty.alts.items() if isinstance(aty, (T.Tup, T.Seq, T.Map))]
            if len(cands) == 1:
                tag, aty = cands[0]
                self.check(st, base.ty.is_(tag, base.t), "TypeError(subscript)", node)
                base = SV(base.ty.proj(tag, base.t), aty)
        if isinstance(node.slice, ast.Slice) and isinstance(base, SV) and isinstance(base.ty, (T.Union, T.Tup)) and node.slice.step is None:
            # t[lo:hi] with literal bounds on a tuple (or on a union of tuple shapes: resolved by the `+ (..)` that follows)
            def lit(e):
                if e is None:
                    return None
                v = ast.literal_eval(e) if isinstance(e, (ast.Constant, ast.UnaryOp)) else "?"
                return v
            lo_, hi_ = lit(node.slice.lower), lit(node.slice.upper)
            if all(x is None or isinstance(x, int) for x in (lo_, hi_)):
                if isinstance(base.ty, T.Tup):
                    idx = list(range(len(base.ty.items)))[slice(lo_, hi_)]
                    rt = T.Tup(*[base.ty.items[i] for i in idx])
                    return SV(rt.mk(*[base.ty.get(base.t, i) for i in idx]), rt)
                return UnionSlice(base, lo_, hi_)
        if isinstance(node.slice, ast.Slice):
            return self.seq_slice(base, node.slice, st, node)
        if isinstance(base.ty, T.Rec) and isinstance(node.slice, ast.Constant) and isinstance(node.slice.value, str):
            v = self.select(st, base, "field", node.slice.value, node)
            if base.ty.name in self.dict_records and isinstance(v.ty, T.Opt) and not self.spec_mode:
                # a dict with a fixed universe of optional string keys: d["k"] raises KeyError when "k" is absent
                self.check(st, v.ty.is_some(v.t), f"KeyError({node.slice.value!r})", node)
                return SV(v.ty.val(v.t), v.ty.inner)
            return v
        k = self.ev(node.slice, st)
        kind = "key" if isinstance(base.ty, T.Map) else "idx"
        return self.select(st, base, kind, k, node)

    def clamp_slice(self, n, lo_sv, hi_sv):
        def clamp(v, default):
            if v is None:
                return default
            x = z3.If(v < 0, v + n, v)
            return z3.If(x < 0, 0, z3.If(x > n, n, x))

        lo = clamp(lo_sv, z3.IntVal(0))
        hi = clamp(hi_sv, n)
        return z3.simplify(lo), z3.simplify(hi)

    def seq_slice(self, base, sl, st, node):
        ty = base.ty
        if not isinstance(ty, T.Seq):
            raise Unsupported(f"slice of {ty}")
        if sl.step is not None:
            raise Unsupported("extended slice of a sequence")
        n = ty.len(base.t)
        lo = self.to_int(self.ev(sl.lower, st), st, node) if sl.lower is not None else None
        hi = self.to_int(self.ev(sl.upper, st), st, node) if sl.upper is not None else None
        lo, hi = self.clamp_slice(n, lo, hi)
        if self.spec_mode:
            i = z3.Int("i!sl")
            arr = z3.Lambda([i], z3.Select(ty.arr(base.t), i + lo))
            return SV(ty.mk(arr, z3.If(hi > lo, hi - lo, 0)), ty)
        # code mode: a fresh sequence characterised in both directions, so that E-matching can move
        # between indices of the slice and indices of the base (the shifted index term is created)
        # name the clamped bounds so that (i - lo) + lo normalises to i inside instantiations
        lo_c, hi_c = z3.Int(fresh_name("lo")), z3.Int(fresh_name("hi"))
        st.assume(lo_c == lo)
        st.assume(hi_c == hi)
        lo, hi = lo_c, hi_c
        r = fresh(ty, "slice")
        ra, rn = ty.arr(r.t), ty.len(r.t)
        barr = ty.arr(base.t)
        j, i2 = z3.Int(fresh_name("j")), z3.Int(fresh_name("i"))
        st.assume(rn == z3.If(hi > lo, hi - lo, 0))
        st.assume(z3.ForAll([j], z3.Implies(z3.And(0 <= j, j < rn), z3.Select(ra, j) == z3.Select(barr, j + lo)), patterns=[z3.Select(ra, j)]))
        st.assume(z3.ForAll([i2], z3.Implies(z3.And(lo <= i2, i2 < hi), z3.Select(ra, i2 - lo) == z3.Select(barr, i2)), patterns=[z3.Select(barr, i2)]))
        return r

    def ev_Attribute(self, node, st, want):
        if isinstance(node.value, ast.Name) and node.value.id in ("set", "list", "dict") and node.value.id not in st.env and node.attr in MUTATORS:
            # unbound method of a builtin container used as a value (`_add = set.add`): called later as _add(obj, x)
            return FuncVal(f"{node.value.id}.{node.attr}", "unbound", node.attr)
        base = self.ev(node.value, st)
        if isinstance(base, SV) and isinstance(base.ty, (T.Seq, T.Set, T.Map)) and node.attr in MUTATORS | {"get", "keys", "items", "values", "copy"}:
            # bound method used as a value (`wpop = work.pop`): re-dispatched as a method call at the call site
            return FuncVal(f"{ast.unparse(node)}", "bound", node)
        if isinstance(base, SV) and isinstance(base.ty, T.Rec) and node.attr in base.ty.fields:
            return SV(base.ty.get(base.t, node.attr), base.ty.fields[node.attr])
        if isinstance(base, SV) and isinstance(base.ty, T.Union):
            # attribute of the unique alternative that has it (type obligation)
            cands = [(tag, aty) for tag, aty in base.ty.alts.items() if isinstance(aty, T.Rec) and node.attr in aty.fields]
            if len(cands) == 1:
                tag, aty = cands[0]
                self.check(st, base.ty.is_(tag, base.t), "type", node)
                inner = base.ty.proj(tag, base.t)
                return SV(aty.get(inner, node.attr), aty.fields[node.attr])
        key = ("attr", base.ty.name if isinstance(base, SV) else "?", node.attr)
        if key in self.attr_models:
            return self.attr_models[key](self, st, base, node)
        raise Unsupported(f"attribute {ast.unparse(node)} of {getattr(base, 'ty', base)}")

    def ev_JoinedStr(self, node, st, want):
        if self.fstring_model is not None:
            r = self.fstring_model(self, node, st, want)
            if r is not None:
                return r
        # error-message formatting is dropped by the extraction: an opaque string
        return fresh(T.U("Msg"), "msg")

    def ev_Lambda(self, node, st, want):
        return FuncVal("<lambda>", "lambda", node)

    # ---------------------------------------------------------------- comprehensions / quantifiers
    def iter_domain(self, it_node, st):
        """-> (mk_binding, guard_fn, var) description used by quantifier-like consumers.
        Returns list of (bound z3 vars, guard z3, {target_name: SV})-producing closure."""
        raise NotImplementedError

    def bind_target(self, target, sv, binds):
        if isinstance(target, ast.Name):
            binds[target.id] = sv
        elif isinstance(target, (ast.Tuple, ast.List)):
            if not isinstance(sv.ty, T.Tup) or len(sv.ty.items) != len(target.elts):
                raise Unsupported("tuple unpacking of non-tuple in comprehension")
            for j, e in enumerate(target.elts):
                self.bind_target(e, SV(sv.ty.get(sv.t, j), sv.ty.items[j]), binds)
        else:
            raise Unsupported("comprehension target")

    def gen_domain(self, gen, st):
        """One `for target in iter` clause -> (vars, guard, binds)."""
        it = gen.iter
        binds = {}
        if isinstance(it, ast.Call) and isinstance(it.func, ast.Name) and it.func.id == "range":
            args = [self.to_int(self.ev(a, st), st, it) for a in it.args]
            lo, hi = (z3.IntVal(0), args[0]) if len(args) == 1 else (args[0], args[1])
            if len(args) == 3:
                raise Unsupported("range step in comprehension")
            v = z3.Int(fresh_name("q"))
            self.bind_target(gen.target, SV(v, T.Int), binds)
            return [v], z3.And(lo <= v, v < hi), binds, ("range", lo, hi)
        if isinstance(it, ast.Call) and isinstance(it.func, ast.Name) and it.func.id == "enumerate" and len(it.args) == 1 \
                and isinstance(it.args[0], ast.Call) and isinstance(it.args[0].func, ast.Name) and it.args[0].func.id == "zip":
            # enumerate(zip(a, b, ...)): position + the tuple of elements at that position
            ss = [self.ev(a, st) for a in it.args[0].args]
            v = z3.Int(fresh_name("q"))
            inner = T.Tup(*[s_.ty.elem for s_ in ss])
            tt = T.Tup(T.Int, inner)
            self.bind_target(gen.target, SV(tt.mk(v, inner.mk(*[z3.Select(s_.ty.arr(s_.t), v) for s_ in ss])), tt), binds)
            g = z3.And(0 <= v, *[v < s_.ty.len(s_.t) for s_ in ss])
            return [v], g, binds, ("zip", ss)
        if isinstance(it, ast.Call) and isinstance(it.func, ast.Name) and it.func.id == "enumerate":
            s = self.ev(it.args[0], st)
            v = z3.Int(fresh_name("q"))
            tt = T.Tup(T.Int, s.ty.elem)
            self.bind_target(gen.target, SV(tt.mk(v, z3.Select(s.ty.arr(s.t), v)), tt), binds)
            return [v], z3.And(0 <= v, v < s.ty.len(s.t)), binds, ("seq", s)
        if isinstance(it, ast.Call) and isinstance(it.func, ast.Name) and it.func.id == "zip":
            ss = [self.ev(a, st) for a in it.args]
            v = z3.Int(fresh_name("q"))
            tt = T.Tup(*[s.ty.elem for s in ss])
            self.bind_target(gen.target, SV(tt.mk(*[z3.Select(s.ty.arr(s.t), v) for s in ss]), tt), binds)
            g = z3.And(0 <= v, *[v < s.ty.len(s.t) for s in ss])
            return [v], g, binds, ("zip", ss)
        if isinstance(it, ast.Call) and isinstance(it.func, ast.Attribute) and it.func.attr == "items" and not it.args:
            m = self.ev(it.func.value, st)
            if isinstance(m.ty, T.Opt):
                m = self.unwrap(m, st, it)
            if isinstance(m.ty, T.Map) and isinstance(gen.target, (ast.Tuple, ast.List)) and len(gen.target.elts) == 2 \
                    and all(isinstance(e, ast.Name) for e in gen.target.elts):
                v = z3.Const(fresh_name("q"), m.ty.key.sort())
                binds[gen.target.elts[0].id] = SV(v, m.ty.key)
                binds[gen.target.elts[1].id] = SV(z3.Select(m.ty.valarr(m.t), v), m.ty.val)
                return [v], z3.Select(m.ty.dom(m.t), v), binds, ("set", SV(m.ty.dom(m.t), T.Set(m.ty.key)))
            raise Unsupported("comprehension over .items() of a non-map / with a non-pair target")
        s = self.ev(it, st)
        if isinstance(s.ty, T.Opt):
            s = self.unwrap(s, st, it)
        if isinstance(s.ty, T.Seq):
            v = z3.Int(fresh_name("q"))
            self.bind_target(gen.target, SV(z3.Select(s.ty.arr(s.t), v), s.ty.elem), binds)
            return [v], z3.And(0 <= v, v < s.ty.len(s.t)), binds, ("seq", s)
        if isinstance(s.ty, T.Set):
            v = z3.Const(fresh_name("q"), s.ty.elem.sort())
            self.bind_target(gen.target, SV(v, s.ty.elem), binds)
            return [v], z3.Select(s.t, v), binds, ("set", s)
        if isinstance(s.ty, T.Map):
            v = z3.Const(fresh_name("q"), s.ty.key.sort())
            self.bind_target(gen.target, SV(v, s.ty.key), binds)
            return [v], z3.Select(s.ty.dom(s.t), v), binds, ("set", SV(s.ty.dom(s.t), T.Set(s.ty.key)))
        raise Unsupported(f"iteration over {s.ty} in comprehension")

    @contextmanager
    def binding(self, binds):
        saved = dict(self.bound)
        self.bound.update(binds)
        try:
            yield
        finally:
            self.bound = saved

    def quantify(self, genexp, st, universal):
        """all(...)/any(...) over generator clauses."""
        def rec(gens, st):
            if not gens:
                return self.truthy(self.ev(genexp.elt, st))
            g = gens[0]
            vs, guard, binds, _ = self.gen_domain(g, st)
            with self.binding(binds):
                # fresh values created while evaluating the body (rounded floats, results of contracted calls) are
                # Skolem functions of the bound variables, their facts are quantified over them
                self.qscope.append((vs, guard))
                try:
                    conds = [self.truthy(self.ev(c, st)) for c in g.ifs]
                finally:
                    self.qscope.pop()
                self.qscope.append((vs, z3.And(guard, *conds)))
                try:
                    with self.guarded(z3.And(guard, *conds)):
                        body = rec(gens[1:], st)
                finally:
                    self.qscope.pop()
            full_guard = z3.And(guard, *conds)
            if universal:
                return z3.ForAll(vs, z3.Implies(full_guard, body))
            return z3.Exists(vs, z3.And(full_guard, body))

        return SV(rec(genexp.generators, st), T.Bool)

    def ev_ListComp(self, node, st, want):
        if len(node.generators) != 1:
            raise Unsupported("nested list comprehension")
        g = node.generators[0]
        vs, guard, binds, dom = self.gen_domain(g, st)
        if dom[0] == "set":
            raise Unsupported("list comprehension over a set (order)")
        if g.ifs:
            return self.filtered_listcomp(node, g, vs, guard, binds, dom, st, want)
        with self.binding(binds):
            with self.guarded(guard):
                self.qscope.append((vs, guard))
                try:
                    body = self.ev(node.elt, st, want.elem if isinstance(want, T.Seq) else None)
                finally:
                    self.qscope.pop()
        sty = T.Seq(body.ty)
        v = vs[0]
        if dom[0] == "range":
            lo, hi = dom[1], dom[2]
            j = z3.Int("i!lc")
            arr = z3.Lambda([j], z3.substitute(body.t, (v, j + lo)))
            return SV(sty.mk(arr, z3.If(hi > lo, hi - lo, 0)), sty)
        if dom[0] == "seq":
            ln = dom[1].ty.len(dom[1].t)
        else:
            ss = dom[1]
            ln = ss[0].ty.len(ss[0].t)
            for s in ss[1:]:
                ln = z3.If(s.ty.len(s.t) < ln, s.ty.len(s.t), ln)
        j = z3.Int("i!lc")
        arr = z3.Lambda([j], z3.substitute(body.t, (v, j)))
        return SV(sty.mk(arr, ln), sty)

    ev_GeneratorExp = ev_ListComp

    def filtered_listcomp(self, node, g, vs, guard, binds, dom, st, want):
        """[elt(x) for x in xs if cond(x)]: a fresh sequence r together with an order-preserving bijection between its
        positions and the source positions that satisfy the condition:
          pick: [0, len r) -> source positions, strictly increasing, cond holds there, r[j] == elt at pick(j);
          slot: source positions with cond -> [0, len r), pick(slot(i)) == i."""
        if dom[0] not in ("seq", "range"):
            raise Unsupported("filtered list comprehension over zip()")
        v = vs[0]
        with self.binding(binds):
            self.qscope.append((vs, guard))
            try:
                conds = [self.truthy(self.ev(c, st)) for c in g.ifs]
            finally:
                self.qscope.pop()
            cond = z3.And(*conds)
            with self.guarded(z3.And(guard, cond)):
                self.qscope.append((vs, z3.And(guard, cond)))
                try:
                    body = self.ev(node.elt, st, want.elem if isinstance(want, T.Seq) else None)
                finally:
                    self.qscope.pop()
        sty = T.Seq(body.ty)
        r = fresh(sty, "filtered")
        n, arr = sty.len(r.t), sty.arr(r.t)
        pick = z3.Function(fresh_name("pick"), z3.IntSort(), z3.IntSort())
        slot = z3.Function(fresh_name("slot"), z3.IntSort(), z3.IntSort())
        j, k = z3.Int(fresh_name("j")), z3.Int(fresh_name("k"))

        def at(term, pos):
            return z3.substitute(term, (v, pos))

        st.assume(n >= 0)
        st.assume(z3.ForAll([j], z3.Implies(z3.And(0 <= j, j < n), z3.And(at(guard, pick(j)), at(cond, pick(j)), arr[j] == at(body.t, pick(j)), slot(pick(j)) == j)),
                            patterns=[pick(j)]))
        st.assume(z3.ForAll([j, k], z3.Implies(z3.And(0 <= j, j < k, k < n), pick(j) < pick(k)), patterns=[z3.MultiPattern(pick(j), pick(k))]))
        pats = [slot(v)]
        if dom[0] == "seq":
            pats.append(z3.Select(dom[1].ty.arr(dom[1].t), v))  # any mention of xs[i] asks whether i was kept
        st.assume(z3.ForAll([v], z3.Implies(z3.And(guard, cond), z3.And(0 <= slot(v), slot(v) < n, pick(slot(v)) == v)), patterns=pats))
        # instantiation help: every element access r[j] mentions pick(j)
        st.assume(z3.ForAll([j], z3.Implies(z3.And(0 <= j, j < n), arr[j] == at(body.t, pick(j))), patterns=[arr[j]]))
        self.used_models.add("filtered list comprehension: order-preserving bijection with the source positions satisfying the condition")
        return r

    def ev_SetComp(self, node, st, want):
        if len(node.generators) != 1:
            raise Unsupported("nested set comprehension")
        g = node.generators[0]
        vs, guard, binds, dom = self.gen_domain(g, st)
        with self.binding(binds):
            self.qscope.append((vs, guard))
            try:
                conds = [self.truthy(self.ev(c, st)) for c in g.ifs]
                body = self.ev(node.elt, st)
            finally:
                self.qscope.pop()
        sty = T.Set(body.ty)
        y = z3.Const("y!sc", body.ty.sort())
        return SV(z3.Lambda([y], z3.Exists(vs, z3.And(guard, *conds, body.t == y))), sty)

    def dictcomp_computed_key(self, node, g, vs, guard, binds, st, want):
        """{key(c): val(c) for c in ...}: a fresh map R with  key(c) in R for every c of the domain, and every entry of R
        is (key(c), val(c)) for SOME c of the domain (when two elements share a key, one of them wins)."""
        if len(vs) != 1:
            raise Unsupported("dict comprehension over several variables")
        v = vs[0]
        with self.binding(binds):
            self.qscope.append((vs, guard))
            try:
                conds = [self.truthy(self.ev(c, st)) for c in g.ifs]
            finally:
                self.qscope.pop()
            full = z3.And(guard, *conds)
            with self.guarded(full):
                self.qscope.append((vs, full))
                try:
                    key = self.ev(node.key, st, want.key if isinstance(want, T.Map) else None)
                    val = self.ev(node.value, st, want.val if isinstance(want, T.Map) else None)
                finally:
                    self.qscope.pop()
        mty = T.Map(key.ty, val.ty)
        r = fresh(mty, "dictcomp")
        dom_, arr_ = mty.dom(r.t), mty.valarr(r.t)
        st.assume(z3.ForAll([v], z3.Implies(full, z3.Select(dom_, key.t)), patterns=[key.t] if not z3.is_const(key.t) or True else []))
        k = z3.Const(fresh_name("k"), key.ty.sort())
        src = z3.Function(fresh_name("src"), key.ty.sort(), v.sort())
        at = lambda t: z3.substitute(t, (v, src(k)))
        st.assume(z3.ForAll([k], z3.Implies(z3.Select(dom_, k), z3.And(at(full), at(key.t) == k, z3.Select(arr_, k) == at(val.t))), patterns=[z3.Select(dom_, k)]))
        self.used_models.add("dict comprehension with a computed key: every element contributes its key; every entry comes from some element")
        return r

    def ev_DictComp(self, node, st, want):
        if len(node.generators) != 1:
            raise Unsupported("nested dict comprehension")
        g = node.generators[0]
        vs, guard, binds, dom = self.gen_domain(g, st)
        if not (isinstance(node.key, ast.Name) and len(vs) == 1 and node.key.id in binds and binds[node.key.id].t.eq(vs[0])):
            return self.dictcomp_computed_key(node, g, vs, guard, binds, st, want)
        if g.ifs:
            with self.binding(binds):
                self.qscope.append((vs, guard))
                try:
                    conds = [self.truthy(self.ev(c, st)) for c in g.ifs]
                finally:
                    self.qscope.pop()
            guard = z3.And(guard, *conds)
        with self.binding(binds):
            with self.guarded(guard):
                self.qscope.append((vs, guard))
                try:
                    val = self.ev(node.value, st, want.val if isinstance(want, T.Map) else None)
                finally:
                    self.qscope.pop()
        kty = binds[node.key.id].ty
        mty = T.Map(kty, val.ty)
        k = z3.Const("k!dc", kty.sort())
        domset = z3.Lambda([k], z3.substitute(guard, (vs[0], k)))
        valarr = z3.Lambda([k], z3.substitute(val.t, (vs[0], k)))
        return SV(mty.mk(domset, valarr), mty)
