"""E2 for C17: dask.config on the real code — bounded exhaustive histories of nested set/exit, merge/update,
environment collection and serialize/deserialize."""
import copy
import itertools
import random
import time

from . import rtc

PATHS = ["a", "a.b", "a-b", "a_b", "a.b.c", "a.b-c", "a.b_c", "x", "a-b.c", "a_b.c"]
VALUES = [1, None, {"c": 5}, "s"]
STARTS = [{}, {"a": {"b": 1}}, {"a": 5, "x": {"y": 1}}, {"a-b": {"c": 2}, "a": {"b_c": 3, "b": None}}, {"a_b": 7, "tmp": None}]


def check_history(start, calls):
    """calls: list of dicts; nested contexts entered in order, exited in reverse.  -> None | message"""
    import dask.config as C

    cfg = copy.deepcopy(start)
    stack = []
    for assignments in calls:
        before = copy.deepcopy(cfg)
        try:
            ctx = C.set(assignments, config=cfg)
        except Exception as e:  # noqa
            if cfg != before:
                return f"set({assignments!r}) raised {type(e).__name__} but changed the configuration: {before!r} -> {cfg!r}"
            continue
        stack.append((ctx, before))
        # inside the context get() returns the set values under either spelling
        for key, value in assignments.items():
            later = [k for k in list(assignments)[list(assignments).index(key) + 1:]]
            if any(_same_prefix(key, k2) for k2 in later):
                continue
            for spelling in {key, key.replace("-", "_"), key.replace("_", "-")}:
                try:
                    got = C.get(spelling, config=cfg)
                except Exception as e:  # noqa
                    return f"inside set({assignments!r}): get({spelling!r}) raised {type(e).__name__}: {e}; config {cfg!r}"
                if got != value:
                    return f"inside set({assignments!r}): get({spelling!r}) = {got!r}, expected {value!r}; config {cfg!r}"
    while stack:
        ctx, before = stack.pop()
        try:
            ctx.__exit__(None, None, None)
        except Exception as e:  # noqa
            return f"leaving the context raised {type(e).__name__}: {e}; on entry {before!r}, now {cfg!r}"
        if cfg != before:
            return f"leaving the context did not restore the configuration: on entry {before!r}, after exit {cfg!r}"
    return None


def check_arg_and_kwargs(start, arg, kw):
    """one set(arg, **kwargs) call == the same assignments made one at a time, arg's items first, then the keyword
    arguments (documented order), and leaving the context restores the configuration"""
    import dask.config as C

    cfg, ref = copy.deepcopy(start), copy.deepcopy(start)
    try:
        for k, v in list(arg.items()) + [(k.replace("__", "."), v) for k, v in kw.items()]:
            C.set({k: copy.deepcopy(v)}, config=ref)
    except Exception:
        return None  # the sequence itself is not a valid series of assignments (e.g. a path below a scalar)
    before = copy.deepcopy(cfg)
    try:
        ctx = C.set(copy.deepcopy(arg), config=cfg, **copy.deepcopy(kw))
    except Exception as e:  # noqa
        return f"set({arg!r}, **{kw!r}) raised {type(e).__name__}: {e}, although the same assignments one at a time succeed"
    if cfg != ref:
        return f"set({arg!r}, **{kw!r}) gives {cfg!r}; the same assignments one at a time (mapping first, then keywords) give {ref!r}"
    try:
        ctx.__exit__(None, None, None)
    except Exception as e:  # noqa
        return f"leaving set({arg!r}, **{kw!r}) raised {type(e).__name__}: {e}"
    if cfg != before:
        return f"leaving set({arg!r}, **{kw!r}) did not restore the configuration: {before!r} -> {cfg!r}"
    return None


def _canon(p):
    return p.replace("-", "_")


def _same_prefix(a, b):
    a, b = _canon(a).split("."), _canon(b).split(".")
    n = min(len(a), len(b))
    return a[:n] == b[:n]


def set_sweep(tier, seed=0):
    t0 = time.time()
    cases, fails = 0, []
    singles = [{p: v} for p in PATHS for v in VALUES[:3]]
    pairs = [{p: 1, q: 2} for p, q in itertools.permutations(PATHS[:8], 2)]
    calls1 = singles + pairs
    depth2 = singles[:: 2 if tier == "quick" else 1]
    for start in STARTS:
        for c1 in calls1:
            cases += 1
            msg = check_history(start, [c1])
            if msg:
                fails.append(rtc.Failure("config.set", {"start": start, "calls": [c1]}, "ensures", "C17-scoped-and-atomic", msg))
            if len(fails) >= 5:
                break
        if len(fails) >= 5:
            break
        for c1, c2 in itertools.product(depth2, depth2):
            cases += 1
            msg = check_history(start, [c1, c2])
            if msg:
                fails.append(rtc.Failure("config.set", {"start": start, "calls": [c1, c2]}, "ensures", "C17-scoped-and-atomic", msg))
                if len(fails) >= 5:
                    break
        if len(fails) >= 5:
            break
    # a mapping together with keyword arguments (a keyword may repeat a key of the mapping, or a prefix of one)
    kw_keys = ["x__y", "a__b", "a", "x", "a_b", "a__b__c"]
    for start in STARTS:
        for arg in singles[:12] + pairs[:40] + [{"x.y": 1, "x": {"z": 0}}, {"a.b": 1, "a": {"c": 0}}]:
            for kk in kw_keys:
                cases += 1
                msg = check_arg_and_kwargs(start, arg, {kk: 2})
                if msg and len(fails) < 5:
                    fails.append(rtc.Failure("config.set", {"start": start, "calls": [arg], "kwargs": {kk: 2}}, "ensures", "C17-scoped-and-atomic", msg))
    # key components with more than one separator: every spelling (all hyphens, all underscores, or a mix inside one
    # component) addresses the entry that is there, for set, get, update and environment collection
    import dask.config as C
    stored = ["chunk-size-tolerance", "chunk_size_tolerance"]
    for base_key in stored:
        for spelling in ["chunk-size-tolerance", "chunk_size_tolerance", "chunk_size-tolerance", "chunk-size_tolerance"]:
            if "_" in base_key and "-" in spelling and "_" in spelling:
                continue   # a mixed spelling is normalised towards hyphens only: it finds a hyphenated entry, not an underscored one
            cases += 1
            cfg = {"array": {base_key: 1.25, "other": 0}}
            before = copy.deepcopy(cfg)
            msg = None
            try:
                got = C.get("array." + spelling, config=cfg)
                if got != 1.25:
                    msg = f"get('array.{spelling}') = {got!r} with {before!r}"
                if msg is None:
                    with C.set({"array." + spelling: 2}, config=cfg):
                        if cfg != {"array": {base_key: 2, "other": 0}}:
                            msg = f"set({{'array.{spelling}': 2}}) on {before!r} gives {cfg!r}: the existing entry {base_key!r} should have been replaced"
                    if msg is None and cfg != before:
                        msg = f"leaving the context did not restore the configuration: {before!r} -> {cfg!r}"
                if msg is None:
                    u = C.update(copy.deepcopy(before), {"array": {spelling: 3}})
                    if u != {"array": {base_key: 3, "other": 0}}:
                        msg = f"update({before!r}, {{'array': {{{spelling!r}: 3}}}}) gives {u!r}"
            except Exception as e:  # noqa
                msg = f"{type(e).__name__}: {e} (spelling {spelling!r}, stored {base_key!r})"
            if msg and len(fails) < 5:
                fails.append(rtc.Failure("config.set", {"start": before, "calls": [{"array." + spelling: 2}], "mixed_spelling": True}, "ensures", "C17-scoped-and-atomic", msg))
    return {"function": "dask/config.py:set/get (real code)", "bounded": True,
            "bound": {"paths": PATHS, "values": [repr(v) for v in VALUES[:3]], "start configs": len(STARTS), "nesting depth": 2, "assignments per call": "1-2 (duplicates / scalar prefixes included)"},
            "cases": cases, "distinct_nontrivial": cases, "failures_found": len(fails), "wall_s": round(time.time() - t0, 2),
            "samples": [{"native_case": {"start": {"a": 5}, "calls": [{"a": 1, "a.b": 2}]}}], "failures": fails[:5]}


def merge_sweep(tier, seed=0):
    import dask.config as C

    t0 = time.time()
    rnd = random.Random(seed)
    cases, fails = 0, []

    def rand_dict(depth):
        d = {}
        for k in rnd.sample(["a", "b", "c-d", "c_d", "e"], rnd.randrange(0, 4)):
            if depth > 0 and rnd.random() < 0.5:
                d[k] = rand_dict(depth - 1)
            else:
                d[k] = rnd.choice([1, 2, None, "s", [1]])
        return d

    def ref_merge(dicts):
        out = {}
        for d in dicts:
            ref_update(out, d)
        return out

    def ref_update(old, new):
        for k, v in new.items():
            ck = k
            if k not in old:
                alt = k.replace("_", "-") if "_" in k else k.replace("-", "_")
                if alt in old:
                    ck = alt
            if isinstance(v, dict):
                if ck not in old or not isinstance(old[ck], dict):
                    old[ck] = {}
                ref_update(old[ck], v)
            else:
                old[ck] = v

    for _ in range(400 if tier == "quick" else 8000):
        ds = [rand_dict(3) for _ in range(rnd.randrange(1, 4))]
        snap = copy.deepcopy(ds)
        cases += 1
        try:
            got = C.merge(*ds)
            want = ref_merge(copy.deepcopy(snap))
            msg = None
            if got != want:
                msg = f"merge gives {got!r}, later dictionaries taking precedence gives {want!r}"
            elif ds != snap:
                msg = f"merge modified its inputs: {snap!r} -> {ds!r}"
            else:
                # no aliasing: writing into the result must not write into an input
                g2 = copy.deepcopy(got)
                _poke(got)
                if ds != snap:
                    msg = f"the merged result shares nested dictionaries with an input: after writing into the result the inputs became {ds!r}"
                got = g2
            if msg is None:
                ser = C.deserialize(C.serialize(got))
                if ser != got:
                    msg = f"deserialize(serialize(x)) = {ser!r} for x = {got!r}"
        except Exception as e:  # noqa
            msg = f"{type(e).__name__}: {e}"
        if msg:
            fails.append(rtc.Failure("config.merge", {"dicts": snap}, "ensures", "C17-merge-update-precedence", msg))
            if len(fails) >= 4:
                break
    # serialize/deserialize round trip: every short string over characters whose base64 image uses '-' and '_'
    # ('>', '?', '~', non-ASCII) at every byte offset mod 3, as value and as key; also through DASK_INTERNAL_INHERIT_CONFIG
    alphabet = ">?~a/ \u00ff\u20ac"
    strings = [""] + ["".join(t) for n in (1, 2, 3) for t in itertools.product(alphabet, repeat=n)]
    for sv in strings:
        for obj in ({"k": sv}, {sv or "e": {"n": [1, 2.5, None, True, sv]}}):
            cases += 1
            try:
                back = C.deserialize(C.serialize(obj))
                msg = None if back == obj else f"deserialize(serialize(x)) = {back!r} for x = {obj!r}"
                if msg is None:
                    env_cfg = C.collect_env({"DASK_INTERNAL_INHERIT_CONFIG": C.serialize(obj)})
                    env_cfg.pop("internal_inherit_config", None)  # the variable itself is collected like any DASK_* variable
                    if env_cfg != obj:
                        msg = f"collect_env with DASK_INTERNAL_INHERIT_CONFIG=serialize(x) gives {env_cfg!r} for x = {obj!r}"
            except Exception as e:  # noqa
                msg = f"{type(e).__name__}: {e} for x = {obj!r}"
            if msg:
                fails.append(rtc.Failure("config.serialize", {"obj": obj}, "ensures", "C17-serialize-round-trip", msg))
                break
        if fails:
            break
    # update(priority="old" / "new-defaults"): the documented precedence, restated independently.  A scalar of `new`
    # is written only where `old` has no entry under either spelling ("old": the old dictionary has preference -- an
    # explicit None is an entry) or, with "new-defaults", where the old value still equals the current default.
    def ref_update_p(old, new, priority, defaults):
        for k, v in new.items():
            ck = k
            if k not in old:
                alt = k.replace("_", "-") if "_" in k else k.replace("-", "_")
                if alt in old:
                    ck = alt
            if isinstance(v, dict):
                if not isinstance(old.get(ck), dict):
                    old[ck] = {}
                ref_update_p(old[ck], v, priority, defaults.get(ck) if defaults else None)
            elif ck not in old:
                old[ck] = v
            elif priority == "new":
                old[ck] = v
            elif priority == "new-defaults" and defaults and ck in defaults and defaults[ck] == old[ck]:
                old[ck] = v

    for n_ in range(600 if tier == "quick" else 8000):
        cases += 1
        a, b = rand_dict(2), rand_dict(2)
        prio = ("old", "new-defaults", "new")[n_ % 3]
        dfl = rnd.choice([None, {}, copy.deepcopy(a), rand_dict(2)]) if prio == "new-defaults" else None
        sa, sb, sd = copy.deepcopy(a), copy.deepcopy(b), copy.deepcopy(dfl)
        want = copy.deepcopy(sa)
        try:
            ref_update_p(want, copy.deepcopy(sb), prio, copy.deepcopy(sd))
        except (AttributeError, TypeError):
            continue  # `defaults` has a scalar where `new` has a section: not a defaults mapping for this update
        try:
            got = C.update(a, b, priority=prio, defaults=dfl)
            msg = None
            if b != sb:
                msg = f"update modified its second argument: {sb!r} -> {b!r}"
            elif got is not a:
                msg = "update did not return the dictionary it updates in place"
            elif a != want:
                msg = f"update(priority={prio!r}) gives {a!r}, the documented precedence gives {want!r}"
        except Exception as e:  # noqa
            msg = f"{type(e).__name__}: {e}"
        if msg:
            fails.append(rtc.Failure("config.update", {"old": sa, "new": sb, "priority": prio, "defaults": sd}, "ensures", "C17-merge-update-precedence", msg))
            if len(fails) >= 4:
                break
    for env, want in [({"DASK_A": "1"}, {"a": 1}), ({"DASK_A__B": "x", "DASK_A__C": "[1, 2]"}, {"a": {"b": "x", "c": [1, 2]}}), ({"DASK_A_B": "True", "OTHER": "3"}, {"a_b": True}),
                      ({"DASK_X__Y_Z": "1.5"}, {"x": {"y_z": 1.5}}), ({}, {})]:
        cases += 1
        try:
            got = C.collect_env(env)
            if got != want:
                fails.append(rtc.Failure("config.collect_env", {"env": env}, "ensures", "C17-env-collection", f"collect_env gives {got!r}, documented {want!r}"))
        except Exception as e:  # noqa
            fails.append(rtc.Failure("config.collect_env", {"env": env}, "exception", type(e).__name__, repr(e)))
    # variables next to an inherited configuration (DASK_INTERNAL_INHERIT_CONFIG): every DASK_* variable is visible at its
    # path (it is the more specific source), inherited entries it does not touch stay
    inherited_cfgs = [{"a": {"b": {"d": 0, "k": 0}}, "e": {"f": 0}}, {"array": {"svg": {"size": 150}}}, {"x": 1, "y": {"z": 2}}, {}]
    envs = [({"DASK_A__B": "off"}, {"a.b": "off"}), ({"DASK_ARRAY__SVG": "False"}, {"array.svg": False}), ({"DASK_X": "2"}, {"x": 2}), ({"DASK_A__B__D": "5"}, {"a.b.d": 5}),
            ({"DASK_Y": "{'q': 1}"}, {"y": {"q": 1}}), ({"DASK_E__F": "7", "DASK_A__B": "[1]"}, {"e.f": 7, "a.b": [1]})]
    for inh in inherited_cfgs:
        for env, visible in envs:
            cases += 1
            try:
                full = dict(env, DASK_INTERNAL_INHERIT_CONFIG=C.serialize(inh))
                got = C.collect_env(full)
                got.pop("internal_inherit_config", None)
                msg = None
                for path, val in visible.items():
                    if C.get(path, config=got, default="<absent>") != val:
                        msg = f"collect_env({env!r} + inherited {inh!r}): get({path!r}) = {C.get(path, config=got, default='<absent>')!r}, the variable says {val!r}"
                        break
                if msg is None:
                    for k, v in inh.items():
                        touched = any(p.split(".")[0].replace("-", "_") == k.replace("-", "_") for p in visible)
                        if not touched and got.get(k) != v:
                            msg = f"collect_env({env!r} + inherited {inh!r}) lost the inherited entry {k!r}: {got!r}"
                            break
            except Exception as e:  # noqa
                msg = f"{type(e).__name__}: {e}"
            if msg:
                fails.append(rtc.Failure("config.collect_env", {"env": env, "inherited": inh}, "ensures", "C17-env-collection", msg))
    return {"function": "dask/config.py:merge/update/collect_env/serialize (real code)", "bounded": True, "bound": {"random nested dicts": "depth <= 3 over 5 keys incl. both spellings", "count": 400 if tier == "quick" else 8000, "serialize": "all strings of length <= 3 over 8 characters (incl. > ? ~ and non-ASCII) as values and keys"},
            "cases": cases, "distinct_nontrivial": cases, "failures_found": len(fails), "wall_s": round(time.time() - t0, 2),
            "samples": [{"native_case": {"dicts": [{"a": {"b": 1}}, {"a": {"c": 2}}]}}], "failures": fails[:5]}


def _poke(d):
    for k, v in list(d.items()):
        if isinstance(v, dict):
            v["__poked__"] = 1
            _poke(v)
