"""Calls: builtin/stdlib models (trusted, cross-checked against CPython), methods of
containers, calls through contracts (never through bodies), uninterpreted callables."""
import ast

import z3

from . import ty as T
from .core import SV, Alias, FuncVal, Outcome, Unsupported, fresh, fresh_name, psum
from .expr import MUTATORS, card_fn


class CallMixin:
    def ev_Call(self, node, st, want):
        f = node.func
        # spec-only forms
        if isinstance(f, ast.Name):
            name = f.id
            if self.spec_mode and name == "old":
                return self.ev_old(node.args[0], st)
            if name == "implies":
                a = self.truthy(self.ev(node.args[0], st))
                with self.guarded(a):
                    b = self.truthy(self.ev(node.args[1], st))
                return SV(z3.Implies(a, b), T.Bool)
            if name == "truthy":
                return SV(self.truthy(self.ev(node.args[0], st)), T.Bool)
            if name == "same":
                a_, b_ = self.ev(node.args[0], st), self.ev(node.args[1], st)
                if a_.ty != b_.ty:
                    try:
                        a_, b_ = self.unify(a_, b_)
                    except Unsupported:
                        return SV(z3.BoolVal(False), T.Bool)  # values of different types are not the same object
                    if a_.t.sort() != b_.t.sort():
                        return SV(z3.BoolVal(False), T.Bool)
                return SV(a_.t == b_.t, T.Bool)
            if name == "distinct":
                q = self.ev(node.args[0], st)
                i_, j_ = z3.Int(fresh_name("i")), z3.Int(fresh_name("j"))
                arr_, n_ = q.ty.arr(q.t), q.ty.len(q.t)
                return SV(z3.ForAll([i_, j_], z3.Implies(z3.And(0 <= i_, i_ < j_, j_ < n_), z3.Select(arr_, i_) != z3.Select(arr_, j_))), T.Bool)
            if name == "pick":
                sset = self.ev(node.args[0], st)
                pf = z3.Function("pick_" + T._mangle(sset.ty.name), sset.ty.sort(), sset.ty.elem.sort())
                st.assume(z3.Implies(sset.t != sset.ty.empty(), z3.Select(sset.t, pf(sset.t))))
                return SV(pf(sset.t), sset.ty.elem)
            if name in ("forall", "exists"):
                return self.spec_quant(node, st, name == "forall")
            if name in self.spec_funcs and name not in st.env:
                args = [self.ev(a, st) for a in node.args]
                return self.spec_funcs[name](self, st, *args)
            m = getattr(self, "bi_" + name, None)
            if m is not None and name not in st.env and name not in self.funcs:
                self.used_models.add(name)
                return m(node, st, want)
        if isinstance(f, ast.Attribute):
            # module function e.g. bisect.bisect_left, math.ceil
            dotted = ast.unparse(f)
            if dotted in self.funcs:
                return self.call_funcval(self.funcs[dotted], node, st, want)
            m = getattr(self, "bi_" + dotted.replace(".", "_"), None)
            if m is not None and isinstance(f.value, ast.Name) and f.value.id not in st.env:
                self.used_models.add(dotted)
                return m(node, st, want)
            return self.method_call(node, st, want)
        fv = self.ev(f, st)
        if isinstance(fv, FuncVal):
            return self.call_funcval(fv, node, st, want)
        if isinstance(fv, SV) and fv.ty.name in self.callable_sorts:
            return self.callable_sorts[fv.ty.name](self, st, fv, node, want)
        raise Unsupported(f"call of {ast.unparse(f)}")

    def ev_old(self, arg, st):
        if st.old is None:
            raise Unsupported("old() without pre-state")
        s2 = st.copy()
        s2.env = dict(st.old)
        saved, self.result_sv = self.result_sv, None  # inside old(), `result` can only be a parameter of that name
        try:
            return self.ev(arg, s2)
        finally:
            self.result_sv = saved

    def spec_quant(self, node, st, universal):
        lam = node.args[0]
        if not isinstance(lam, ast.Lambda):
            raise Unsupported("forall/exists need a lambda")
        tys = []
        for a in node.args[1:]:
            tys.append(self.spec_types[ast.unparse(a)] if ast.unparse(a) in self.spec_types else eval(ast.unparse(a), {"T": T, **T.__dict__}))
        names = [a.arg for a in lam.args.args]
        while len(tys) < len(names):
            tys.append(T.Int)
        vs = [z3.Const(fresh_name(n), t.sort()) for n, t in zip(names, tys)]
        with self.binding({n: SV(v, t) for n, v, t in zip(names, vs, tys)}):
            body = self.truthy(self.ev(lam.body, st))
        return SV(z3.ForAll(vs, body) if universal else z3.Exists(vs, body), T.Bool)

    # ------------------------------------------------------------------ builtins
    def bi_len(self, node, st, want):
        v = self.unwrap(self.ev(node.args[0], st), st, node)
        if isinstance(v.ty, T.Seq):
            return SV(v.ty.len(v.t), T.Int)
        if isinstance(v.ty, T.Tup):
            return SV(z3.IntVal(len(v.ty.items)), T.Int)
        if isinstance(v.ty, T.Union) and all(isinstance(a, T.Tup) for a in v.ty.alts.values()):
            r = z3.IntVal(-1)
            for tag, aty in v.ty.alts.items():
                r = z3.If(v.ty.is_(tag, v.t), z3.IntVal(len(aty.items)), r)
            return SV(r, T.Int)
        if isinstance(v.ty, T.Set):
            return self.card(st, v)
        if isinstance(v.ty, T.Map):
            return self.card(st, SV(v.ty.dom(v.t), T.Set(v.ty.key)))
        raise Unsupported(f"len of {v.ty}")

    def card(self, st, s):
        c = card_fn(s.ty)
        t = c(s.t)
        st.assume(t >= 0)
        st.assume((t == 0) == (s.t == s.ty.empty()))
        return SV(t, T.Int)

    def _two_or_seq(self, node, st):
        if len(node.args) == 1:
            return None, self.ev(node.args[0], st)
        return [self.ev(a, st) for a in node.args], None

    def bi_min(self, node, st, want):
        return self._minmax(node, st, True)

    def bi_max(self, node, st, want):
        return self._minmax(node, st, False)

    def _minmax_key(self, node, st, is_min):
        """min(S, key=m.__getitem__) over a set / sequence S of keys of an int-valued map m: some element of S whose
        m-value is minimal.  ValueError on an empty S, KeyError when an element is not a key of m."""
        kw = node.keywords[0]
        if len(node.keywords) != 1 or kw.arg != "key" or len(node.args) != 1:
            raise Unsupported("min/max with these keywords")
        kf = kw.value
        if not (isinstance(kf, ast.Attribute) and kf.attr == "__getitem__"):
            raise Unsupported("min/max with a key function other than <map>.__getitem__")
        m = self.ev(kf.value, st)
        if not (isinstance(m.ty, T.Map) and m.ty.val == T.Int):
            raise Unsupported(f"min/max key map of type {m.ty}")
        src = self.ev(node.args[0], st)
        member = src if isinstance(src.ty, T.Set) else (self.elems(src) if isinstance(src.ty, T.Seq) else None)
        if member is None or member.ty.elem != m.ty.key:
            raise Unsupported(f"min/max over {src.ty} with key map {m.ty}")
        dom, val = m.ty.dom(m.t), m.ty.valarr(m.t)
        x = z3.Const(fresh_name("x"), m.ty.key.sort())
        self.check(st, member.t != member.ty.empty(), "ValueError(min/max of an empty collection)", node)
        self.check(st, z3.ForAll([x], z3.Implies(z3.Select(member.t, x), z3.Select(dom, x))), "KeyError(key function)", node)
        r = fresh(m.ty.key, "argmin" if is_min else "argmax")
        st.assume(z3.Select(member.t, r.t))
        cmp = (lambda a, b: a <= b) if is_min else (lambda a, b: a >= b)
        st.assume(z3.ForAll([x], z3.Implies(z3.Select(member.t, x), cmp(z3.Select(val, r.t), z3.Select(val, x))), patterns=[z3.Select(member.t, x)]))
        return r

    def _minmax_gen(self, node, st, is_min):
        """max(expr(x) for x in S) / min(..): a value r that bounds expr over S and is attained by some element of S.
        ValueError when S is empty.  Any iteration order gives the same result, so S may be a set."""
        ge = node.args[0]
        g = ge.generators[0]
        vs, guard, binds, dom = self.gen_domain(g, st)
        with self.binding(binds):
            with self.guarded(guard):
                self.qscope.append((vs, guard))
                try:
                    body = self.ev(ge.elt, st)
                finally:
                    self.qscope.pop()
        if body.ty not in (T.Int, T.Real):
            raise Unsupported(f"min/max of a generator of {body.ty}")
        ws = [z3.Const(fresh_name("w"), v.sort()) for v in vs]
        sub = list(zip(vs, ws))
        self.check(st, z3.Exists(vs, guard), "ValueError(min/max of an empty generator)", node)
        r = fresh(body.ty, "mm")
        st.assume(z3.Implies(z3.Exists(vs, guard), z3.And(z3.substitute(guard, *sub), r.t == z3.substitute(body.t, *sub))))
        st.assume(z3.ForAll(vs, z3.Implies(guard, (r.t <= body.t) if is_min else (r.t >= body.t))))
        return r

    def _minmax(self, node, st, is_min):
        if node.keywords:
            return self._minmax_key(node, st, is_min)
        if len(node.args) == 1 and isinstance(node.args[0], (ast.GeneratorExp, ast.ListComp)) and len(node.args[0].generators) == 1 \
                and not node.args[0].generators[0].ifs and not self.qscope:
            try:
                return self._minmax_gen(node, st, is_min)
            except Unsupported:
                pass
        args, seq = self._two_or_seq(node, st)
        if args is not None:
            if any(a.ty == T.Real for a in args):
                args = [self.coerce(a, T.Real) for a in args]
                ty = T.Real
                ts = [a.t for a in args]
            else:
                ts = [self.to_int(a, st, node) for a in args]
                ty = T.Int
            r = ts[0]
            for t in ts[1:]:
                r = z3.If(t < r, t, r) if is_min else z3.If(t > r, t, r)
            return SV(r, ty)
        if isinstance(seq.ty, T.Union):
            cands = [(tag, aty) for tag, aty in seq.ty.alts.items() if isinstance(aty, (T.Tup, T.Seq))]
            if len(cands) == 1:
                self.check(st, seq.ty.is_(cands[0][0], seq.t), "TypeError(min/max of a non-iterable)", node)
                seq = SV(seq.ty.proj(cands[0][0], seq.t), cands[0][1])
        if isinstance(seq.ty, T.Tup) and seq.ty.items and all(t == T.Int for t in seq.ty.items):
            r = seq.ty.get(seq.t, 0)
            for k in range(1, len(seq.ty.items)):
                t = seq.ty.get(seq.t, k)
                r = z3.If(t < r, t, r) if is_min else z3.If(t > r, t, r)
            return SV(r, T.Int)
        if not isinstance(seq.ty, T.Seq) or seq.ty.elem != T.Int:
            raise Unsupported("min/max of non-int sequence")
        n = seq.ty.len(seq.t)
        self.check(st, n > 0, "ValueError(min/max of empty)", node)
        # inside a comprehension / quantifier the result and its witness position are functions of the bound variables
        r = self.fresh_q(z3.IntSort(), "mm")
        j = self.fresh_q(z3.IntSort(), "mmpos")
        i = z3.Int(fresh_name("i"))
        arr = seq.ty.arr(seq.t)
        self.assume_q(st, z3.ForAll([i], z3.Implies(z3.And(0 <= i, i < n), (r <= arr[i]) if is_min else (r >= arr[i])), patterns=[arr[i]]), r)
        self.assume_q(st, z3.Implies(n > 0, z3.And(0 <= j, j < n, arr[j] == r)), r)
        return SV(r, T.Int)

    def bi_sum(self, node, st, want):
        a = node.args[0]
        if isinstance(a, ast.Subscript) and isinstance(a.slice, ast.Slice) and a.slice.step is None:
            base = self.ev(a.value, st)
            if isinstance(base.ty, T.Seq) and base.ty.elem == T.Int:
                n = base.ty.len(base.t)
                lo = self.to_int(self.ev(a.slice.lower, st)) if a.slice.lower is not None else None
                hi = self.to_int(self.ev(a.slice.upper, st)) if a.slice.upper is not None else None
                lo, hi = self.clamp_slice(n, lo, hi)
                arr = base.ty.arr(base.t)
                return SV(z3.If(hi > lo, psum(arr, hi) - psum(arr, lo), 0), T.Int)
        v = self.ev(a, st)
        if isinstance(v.ty, T.Union):
            cands = [(tag, aty) for tag, aty in v.ty.alts.items() if isinstance(aty, (T.Tup, T.Seq))]
            if len(cands) == 1:
                self.check(st, v.ty.is_(cands[0][0], v.t), "TypeError(sum)", node)
                v = SV(v.ty.proj(cands[0][0], v.t), cands[0][1])
        if isinstance(v.ty, T.Tup) and all(t == T.Int for t in v.ty.items):
            tot = z3.IntVal(0)
            for i in range(len(v.ty.items)):
                tot = tot + v.ty.get(v.t, i)
            return SV(tot, T.Int)
        if isinstance(v.ty, T.Seq) and v.ty.elem == T.Int:
            return SV(psum(v.ty.arr(v.t), v.ty.len(v.t)), T.Int)
        raise Unsupported(f"sum of {v.ty}")

    def bi_psum(self, node, st, want):
        v = self.ev(node.args[0], st)
        i = self.to_int(self.ev(node.args[1], st))
        return SV(psum(v.ty.arr(v.t), i), T.Int)

    def bi_abs(self, node, st, want):
        x = self.to_int(self.ev(node.args[0], st), st, node)
        return SV(z3.If(x < 0, -x, x), T.Int)

    def bi_int(self, node, st, want):
        v = self.ev(node.args[0], st)
        if v.ty == T.Int:
            return v
        if v.ty == T.Bool:
            return self.coerce(v, T.Int)
        if v.ty == T.Real:
            # truncation toward zero
            fl = z3.ToInt(v.t)
            return SV(z3.If(v.t >= 0, fl, -z3.ToInt(-v.t)), T.Int)
        return SV(self.to_int(v, st, node), T.Int)

    def bi_bool(self, node, st, want):
        return SV(self.truthy(self.ev(node.args[0], st)), T.Bool)

    def bi_tuple(self, node, st, want):
        if not node.args:
            raise Unsupported("tuple()")
        v = self.ev(node.args[0], st, want if isinstance(want, T.Seq) else None)
        if isinstance(v.ty, (T.Seq, T.Tup)):
            return v
        raise Unsupported(f"tuple({v.ty})")

    def bi_list(self, node, st, want):
        if not node.args:
            if isinstance(want, T.Seq):
                return self._seq_literal([], st, want)
            raise Unsupported("list() needs a declared type")
        v = self.ev(node.args[0], st)
        if isinstance(v.ty, T.Seq):
            return v
        if isinstance(v.ty, T.Set):
            return self.set_to_seq(st, v)
        raise Unsupported(f"list({v.ty})")

    def set_to_seq(self, st, s):
        """An arbitrary duplicate-free enumeration of a finite set."""
        if z3.is_quantifier(s.t) or not z3.is_app(s.t) or s.t.num_args() > 0 and z3.is_quantifier(s.t):
            # a set given by comprehension (a lambda term): name it, so that membership can serve as a trigger
            named = fresh(s.ty, "setc")
            y = z3.Const(fresh_name("y"), s.ty.elem.sort())
            st.assume(z3.ForAll([y], z3.Select(named.t, y) == z3.Select(s.t, y), patterns=[z3.Select(named.t, y)]))
            s = named
        sty = T.Seq(s.ty.elem)
        r = fresh(sty, "enum")
        arr, n = sty.arr(r.t), sty.len(r.t)
        i, j = z3.Int(fresh_name("i")), z3.Int(fresh_name("j"))
        x = z3.Const(fresh_name("x"), s.ty.elem.sort())
        st.assume(n >= 0)
        st.assume(z3.ForAll([i], z3.Implies(z3.And(0 <= i, i < n), z3.Select(s.t, arr[i])), patterns=[arr[i]]))
        st.assume(z3.ForAll([i, j], z3.Implies(z3.And(0 <= i, i < j, j < n), arr[i] != arr[j])))
        idx = z3.Function(fresh_name("idx"), s.ty.elem.sort(), z3.IntSort())
        st.assume(z3.ForAll([x], z3.Implies(z3.Select(s.t, x), z3.And(0 <= idx(x), idx(x) < n, arr[idx(x)] == x)), patterns=[z3.Select(s.t, x)]))
        st.assume(n == card_fn(s.ty)(s.t))
        return r

    def bi_set(self, node, st, want):
        if not node.args:
            if isinstance(want, T.Set):
                return SV(want.empty(), want)
            raise Unsupported("set() needs a declared type")
        v = self.ev(node.args[0], st)
        if isinstance(v.ty, T.Set):
            return v
        if isinstance(v.ty, T.Map):
            return SV(v.ty.dom(v.t), T.Set(v.ty.key))
        if isinstance(v.ty, T.Seq):
            return self.elems(v)
        raise Unsupported(f"set({v.ty})")

    def bi_dict(self, node, st, want):
        if not node.args and not node.keywords:
            if isinstance(want, T.Map):
                return SV(want.mk(T.Set(want.key).empty(), z3.K(want.key.sort(), self.default_of(want.val))), want)
            raise Unsupported("dict() needs a declared type")
        v = self.ev(node.args[0], st, want)
        if isinstance(v.ty, T.Map):
            return v
        raise Unsupported("dict(x)")

    def bi_all(self, node, st, want):
        a = node.args[0]
        if isinstance(a, (ast.GeneratorExp, ast.ListComp)):
            return self.quantify(a, st, True)
        return self._all_any_seq(a, st, True)

    def bi_any(self, node, st, want):
        a = node.args[0]
        if isinstance(a, (ast.GeneratorExp, ast.ListComp)):
            return self.quantify(a, st, False)
        return self._all_any_seq(a, st, False)

    def _all_any_seq(self, a, st, universal):
        v = self.ev(a, st)
        if not isinstance(v.ty, T.Seq):
            raise Unsupported(f"all()/any() of {v.ty}")
        j = z3.Int(fresh_name("j"))
        el = self.truthy(SV(z3.Select(v.ty.arr(v.t), j), v.ty.elem))
        rng = z3.And(0 <= j, j < v.ty.len(v.t))
        return SV(z3.ForAll([j], z3.Implies(rng, el)) if universal else z3.Exists([j], z3.And(rng, el)), T.Bool)

    def bi_isinstance(self, node, st, want):
        v = self.ev(node.args[0], st)
        cls = node.args[1]
        names = [ast.unparse(e) for e in cls.elts] if isinstance(cls, ast.Tuple) else [ast.unparse(cls)]
        if isinstance(v.ty, T.Opt) and all((v.ty.inner.name, n) in self.isinstance_dynamic for n in names):
            inner = SV(v.ty.val(v.t), v.ty.inner)
            return SV(z3.And(v.ty.is_some(v.t), z3.Or(*[self.isinstance_dynamic[(inner.ty.name, n)](inner) for n in names])), T.Bool)
        if all((v.ty.name, n) in self.isinstance_dynamic for n in names):
            return SV(z3.Or(*[self.isinstance_dynamic[(v.ty.name, n)](v) for n in names]), T.Bool)
        if isinstance(v.ty, T.Union):
            tags = []
            for n in names:
                if n not in v.ty.classes:
                    raise Unsupported(f"isinstance({v.ty.name}, {n}) not declared")
                tags += v.ty.classes[n]
            return SV(z3.Or(*[v.ty.is_(t, v.t) for t in tags]) if tags else z3.BoolVal(False), T.Bool)
        static = {
            ("Int", "Integral"): True, ("Int", "int"): True, ("Int", "slice"): False, ("Int", "list"): False,
            ("slice", "slice"): True, ("slice", "Integral"): False, ("slice", "list"): False,
        }
        res = []
        for n in names:
            k = (v.ty.name, n)
            if k in self.isinstance_static:
                res.append(self.isinstance_static[k])
            elif k in static:
                res.append(static[k])
            else:
                raise Unsupported(f"isinstance({v.ty.name}, {n}) not declared")
        return SV(z3.BoolVal(any(res)), T.Bool)

    def bi_sorted(self, node, st, want):
        """sorted(set(xs)) / sorted(xs) over ints: a fresh sequence, (strictly) increasing, with the same elements."""
        a = node.args[0]
        if node.keywords:
            # sorted(S, key=f, reverse=…) with an arbitrary user key: some duplicate-free enumeration of S
            src = self.ev(a, st)
            if isinstance(src.ty, T.Set):
                return self.set_to_seq(st, src)
            raise Unsupported("sorted() with key/reverse on a non-set as a value")
        strict = False
        if isinstance(a, ast.Call) and isinstance(a.func, ast.Name) and a.func.id == "set" and "set" not in st.env:
            src = self.ev(a.args[0], st)
            strict = True
        else:
            src = self.ev(a, st)
        if isinstance(src.ty, T.Set):
            strict = True
            src_elems = src
        elif isinstance(src.ty, T.Seq):
            src_elems = self.elems(src)
        else:
            raise Unsupported(f"sorted({src.ty})")
        ety = src_elems.ty.elem
        if ety != T.Int and ety.name not in self.user_order:
            raise Unsupported("sorted() needs an ordered element type")
        lt = (lambda p, q: p < q) if ety == T.Int else self.user_order[ety.name]
        sty = T.Seq(ety)
        r = fresh(sty, "sorted")
        arr, n = sty.arr(r.t), sty.len(r.t)
        i, j = z3.Int(fresh_name("i")), z3.Int(fresh_name("j"))
        st.assume(n >= 0)
        st.assume(self.elems(r).t == src_elems.t)
        if strict:
            st.assume(z3.ForAll([i, j], z3.Implies(z3.And(0 <= i, i < j, j < n), lt(arr[i], arr[j]))))
            st.assume(n == self.card(st, src_elems).t)  # a duplicate-free enumeration of a set has its cardinality
            if isinstance(src.ty, T.Seq):
                st.assume(n <= src.ty.len(src.t))
                # no duplicates in the source  <=>  same length
                k1, k2 = z3.Int(fresh_name("k")), z3.Int(fresh_name("k"))
                sarr, sn = src.ty.arr(src.t), src.ty.len(src.t)
                st.assume((n == sn) == z3.ForAll([k1, k2], z3.Implies(z3.And(0 <= k1, k1 < k2, k2 < sn), sarr[k1] != sarr[k2])))
        else:
            st.assume(z3.ForAll([i, j], z3.Implies(z3.And(0 <= i, i < j, j < n), z3.Not(lt(arr[j], arr[i])))))
            st.assume(n == src.ty.len(src.t))
        return r

    def bi_divmod(self, node, st, want):
        x = self.to_int(self.ev(node.args[0], st), st, node)
        y = self.to_int(self.ev(node.args[1], st), st, node)
        self.check(st, y != 0, "ZeroDivisionError", node)
        tt = T.Tup(T.Int, T.Int)
        return SV(tt.mk(self.idiv(x, y), self.imod(x, y)), tt)

    def bi_slice(self, node, st, want):
        args = [self.ev(a, st, T.Opt(T.Int)) for a in node.args]
        none = T.Opt(T.Int).none()
        if len(args) == 1:
            vals = dict(start=none, stop=args[0].t, step=none)
        elif len(args) == 2:
            vals = dict(start=args[0].t, stop=args[1].t, step=none)
        else:
            vals = dict(start=args[0].t, stop=args[1].t, step=args[2].t)
        return SV(T.Slice.mk(**vals), T.Slice)

    def bi_range(self, node, st, want):
        args = [self.to_int(self.ev(a, st), st, node) for a in node.args]
        if len(args) == 3:
            raise Unsupported("range with step as a value")
        lo, hi = (z3.IntVal(0), args[0]) if len(args) == 1 else (args[0], args[1])
        i = z3.Int("i!rg")
        sty = T.Seq(T.Int)
        return SV(sty.mk(z3.Lambda([i], i + lo), z3.If(hi > lo, hi - lo, 0)), sty)

    def _bisect(self, node, st, left):
        s = self.unwrap(self.ev(node.args[0], st), st, node)
        x = self.ev(node.args[1], st)
        if not isinstance(s.ty, T.Seq):
            raise Unsupported("bisect on non-seq")
        arr, n = s.ty.arr(s.t), s.ty.len(s.t)
        r = self.fresh_q(z3.IntSort(), "bis")
        i = z3.Int(fresh_name("i"))
        xe = self.coerce(x, s.ty.elem)
        lt = (lambda a, b: a < b) if s.ty.elem == T.Int else self.user_order[s.ty.elem.name]
        # precondition of the model: the list is sorted (non-decreasing); obligation at the call
        j, k = z3.Int(fresh_name("j")), z3.Int(fresh_name("k"))
        self.check(st, z3.ForAll([j, k], z3.Implies(z3.And(0 <= j, j <= k, k < n), z3.Not(lt(arr[k], arr[j])))), "bisect-sorted", node)
        self.assume_q(st, z3.And(0 <= r, r <= n), r)
        if left:
            self.assume_q(st, z3.ForAll([i], z3.Implies(z3.And(0 <= i, i < r), lt(arr[i], xe.t)), patterns=[arr[i]]), r)
            self.assume_q(st, z3.ForAll([i], z3.Implies(z3.And(r <= i, i < n), z3.Not(lt(arr[i], xe.t))), patterns=[arr[i]]), r)
        else:
            self.assume_q(st, z3.ForAll([i], z3.Implies(z3.And(0 <= i, i < r), z3.Not(lt(xe.t, arr[i]))), patterns=[arr[i]]), r)
            self.assume_q(st, z3.ForAll([i], z3.Implies(z3.And(r <= i, i < n), lt(xe.t, arr[i])), patterns=[arr[i]]), r)
        return SV(r, T.Int)

    def bi_bisect_bisect_left(self, node, st, want):
        return self._bisect(node, st, True)

    def bi_bisect_bisect_right(self, node, st, want):
        return self._bisect(node, st, False)

    # ------------------------------------------------------------------ methods
    def method_call(self, node, st, want):
        f = node.func
        meth = f.attr
        lv = self.lvalue(f.value, st)
        base = self.read_path(st, *lv) if lv is not None else self.ev(f.value, st)
        if isinstance(base, FuncVal):
            raise Unsupported(f"method {meth} on function")
        if isinstance(base.ty, T.Opt) and isinstance(base.ty.inner, (T.Seq, T.Map, T.Set, T.Rec)):
            base = self.unwrap(base, st, node)
        ty = base.ty
        key = ("method", ty.name, meth)
        if key in self.attr_models:
            return self.attr_models[key](self, st, base, node, lv)
        self.used_models.add(f"{type(ty).__name__}.{meth}")

        def writeback(newv):
            if lv is None:
                return  # mutation of a temporary: invisible
            self.note_mutation(st, lv[0], node)
            self.write_path(st, lv[0], lv[1], newv, node)

        if isinstance(ty, T.Seq):
            arr, n = ty.arr(base.t), ty.len(base.t)
            if meth == "append":
                v = self.ev(node.args[0], st, ty.elem)
                newseq = SV(ty.mk(z3.Store(arr, n, v.t), n + 1), ty)
                writeback(newseq)
                if ty.elem != T.Int:
                    # element-set view of append (consequence of the elems axioms by extensionality)
                    st.assume(z3.Implies(n >= 0, self.elems(newseq).t == z3.Store(self.elems(base).t, v.t, True)))
                if ty.elem == T.Int and self.psum_enabled:
                    st.assume(psum(z3.Store(arr, n, v.t), n + 1) == psum(arr, n) + v.t)
                return SV(T.NoneT.value(), T.NoneT)
            if meth == "pop":
                if node.args:
                    raise Unsupported("pop(i)")
                self.check(st, n > 0, "IndexError(pop from empty)", node)
                newseq = SV(ty.mk(arr, n - 1), ty)
                writeback(newseq)
                if ty.elem != T.Int:
                    # pop removes the last element from the element set when the list has no duplicates
                    i_, j_ = z3.Int(fresh_name("i")), z3.Int(fresh_name("j"))
                    distinct = z3.ForAll([i_, j_], z3.Implies(z3.And(0 <= i_, i_ < j_, j_ < n), z3.Select(arr, i_) != z3.Select(arr, j_)))
                    st.assume(z3.Implies(distinct, self.elems(newseq).t == z3.Store(self.elems(base).t, z3.Select(arr, n - 1), False)))
                    st.assume(z3.IsSubset(self.elems(newseq).t, self.elems(base).t))
                    x_ = z3.Const(fresh_name("x"), ty.elem.sort())
                    st.assume(z3.ForAll([x_], z3.Implies(z3.And(z3.Select(self.elems(base).t, x_), x_ != z3.Select(arr, n - 1)), z3.Select(self.elems(newseq).t, x_)),
                                        patterns=[z3.Select(self.elems(base).t, x_)]))
                return SV(z3.Select(arr, n - 1), ty.elem)
            if meth == "insert":
                pos = z3.simplify(self.to_int(self.ev(node.args[0], st), st, node))
                if not (z3.is_int_value(pos) and pos.as_long() == 0):
                    raise Unsupported("list.insert at a position other than 0")
                v = self.ev(node.args[1], st, ty.elem)
                r = fresh(ty, "ins")
                ra = ty.arr(r.t)
                j = z3.Int(fresh_name("j"))
                st.assume(ty.len(r.t) == n + 1)
                st.assume(z3.Select(ra, 0) == v.t)
                st.assume(z3.ForAll([j], z3.Implies(z3.And(1 <= j, j <= n), z3.Select(ra, j) == z3.Select(arr, j - 1)), patterns=[z3.Select(ra, j)]))
                st.assume(z3.ForAll([j], z3.Implies(z3.And(0 <= j, j < n), z3.Select(ra, j + 1) == z3.Select(arr, j)), patterns=[z3.Select(arr, j)]))
                writeback(r)
                return SV(T.NoneT.value(), T.NoneT)
            if meth == "reverse":
                i = z3.Int("i!rv")
                writeback(SV(ty.mk(z3.Lambda([i], z3.Select(arr, n - 1 - i)), n), ty))
                return SV(T.NoneT.value(), T.NoneT)
            if meth == "extend":
                o = self.ev(node.args[0], st)
                cat = self.seq_concat(base, o, st)
                if ty.elem != T.Int:
                    st.assume(z3.Implies(z3.And(n >= 0, o.ty.len(o.t) >= 0), self.elems(cat).t == z3.SetUnion(self.elems(base).t, self.elems(o).t)))
                writeback(cat)
                return SV(T.NoneT.value(), T.NoneT)
            if meth == "copy":
                return base
        if isinstance(ty, T.Set):
            if meth in ("add", "discard", "remove"):
                v = self.ev(node.args[0], st, ty.elem)
                if meth == "remove":
                    self.check(st, z3.Select(base.t, v.t), "KeyError(set.remove)", node)
                new = z3.Store(base.t, v.t, meth == "add")
                c = card_fn(ty)
                if meth == "add":
                    st.assume(c(new) == c(base.t) + z3.If(z3.Select(base.t, v.t), 0, 1))
                else:
                    st.assume(c(new) == c(base.t) - z3.If(z3.Select(base.t, v.t), 1, 0))
                st.assume(c(base.t) >= 0)
                writeback(SV(new, ty))
                return SV(T.NoneT.value(), T.NoneT)
            if meth == "copy":
                return base
            if meth == "pop":
                x = fresh(ty.elem, "popped")
                self.check(st, base.t != ty.empty(), "KeyError(pop from empty set)", node)
                st.assume(z3.Select(base.t, x.t))
                writeback(SV(z3.Store(base.t, x.t, False), ty))
                return x
            if meth == "update":
                o = self.ev(node.args[0], st)
                if isinstance(o.ty, T.Seq):
                    o = self.bi_set(ast.Call(func=ast.Name(id="set"), args=[node.args[0]], keywords=[]), st, None)
                writeback(SV(z3.SetUnion(base.t, o.t), ty))
                return SV(T.NoneT.value(), T.NoneT)
            if meth in ("intersection", "union", "difference") and len(node.args) == 1:
                o = self.ev(node.args[0], st)
                if isinstance(o.ty, T.Seq):
                    o = self.elems(o)
                if isinstance(o.ty, T.Map):
                    o = SV(o.ty.dom(o.t), T.Set(o.ty.key))
                if o.ty != ty:
                    raise Unsupported(f"set.{meth}({o.ty})")
                op = {"intersection": z3.SetIntersect, "union": z3.SetUnion, "difference": z3.SetDifference}[meth]
                return SV(op(base.t, o.t), ty)
        if isinstance(ty, T.Map):
            dom, val = ty.dom(base.t), ty.valarr(base.t)
            if meth == "get":
                k = self.ev(node.args[0], st, ty.key)
                present = z3.Select(dom, k.t)
                if isinstance(ty.val, T.U) and ty.val.name in self.nullable_sorts:
                    # the stored object may itself be None: `m.get(k)` is then None although k is present
                    present = z3.And(present, z3.Not(self.pynone(SV(z3.Select(val, k.t), ty.val))))
                if len(node.args) > 1:
                    d = self.ev(node.args[1], st)
                    if isinstance(d.ty, T.TNone):
                        o = T.Opt(ty.val)
                        return SV(z3.If(present, o.some(z3.Select(val, k.t)), o.none()), o)
                    d = self.coerce(d, ty.val)
                    return SV(z3.If(z3.Select(dom, k.t), z3.Select(val, k.t), d.t), ty.val)
                o = T.Opt(ty.val)
                return SV(z3.If(present, o.some(z3.Select(val, k.t)), o.none()), o)
            if meth == "keys":
                return SV(dom, T.Set(ty.key))
            if meth == "values" and not node.args:
                # the values in some order: one entry per key (enumeration of the key set, mapped)
                ks = self.set_to_seq(st, SV(dom, T.Set(ty.key)))
                kt = ks.ty
                vt = T.Seq(ty.val)
                r = fresh(vt, "values")
                j = z3.Int(fresh_name("j"))
                st.assume(vt.len(r.t) == kt.len(ks.t))
                st.assume(z3.ForAll([j], z3.Implies(z3.And(0 <= j, j < vt.len(r.t)), z3.Select(vt.arr(r.t), j) == z3.Select(val, z3.Select(kt.arr(ks.t), j))), patterns=[z3.Select(vt.arr(r.t), j)]))
                self.last_values_keys = ks  # ghost access to the enumeration order (spec function values_key)
                return r
            if meth == "clear" and not node.args:
                writeback(SV(ty.mk(T.Set(ty.key).empty(), val), ty))
                return SV(T.NoneT.value(), T.NoneT)
            if meth == "pop":
                k = self.ev(node.args[0], st, ty.key)
                if len(node.args) == 1:
                    self.check(st, z3.Select(dom, k.t), "KeyError(dict.pop)", node)
                    writeback(SV(ty.mk(z3.Store(dom, k.t, False), val), ty))
                    return SV(z3.Select(val, k.t), ty.val)
            if meth == "setdefault" and len(node.args) == 2:
                k = self.ev(node.args[0], st, ty.key)
                d = self.coerce(self.ev(node.args[1], st), ty.val)
                has = z3.Select(dom, k.t)
                writeback(SV(ty.mk(z3.Store(dom, k.t, True), z3.If(has, val, z3.Store(val, k.t, d.t))), ty))
                return SV(z3.If(has, z3.Select(val, k.t), d.t), ty.val)
            if meth == "copy":
                return base
        if isinstance(ty, T.Rec) and ty.name == "slice" and meth == "indices":
            return self.slice_indices(base, self.to_int(self.ev(node.args[0], st), st, node), st, node)
        raise Unsupported(f"method {ty}.{meth}")

    def slice_indices(self, s, n, st, node):
        """Model of slice.indices(n) (CPython PySlice_AdjustIndices); cross-checked by E2."""
        O = T.Opt(T.Int)
        sstart, sstop, sstep = (T.Slice.get(s.t, f) for f in ("start", "stop", "step"))
        step = z3.If(O.is_none(sstep), z3.IntVal(1), O.val(sstep))
        self.check(st, step != 0, "ValueError(slice step 0)", node)
        self.check(st, n >= 0, "ValueError(negative length)", node)
        neg = step < 0
        lower = z3.If(neg, z3.IntVal(-1), z3.IntVal(0))
        upper = z3.If(neg, n - 1, n)

        def adj(f, dflt):
            v = O.val(f)
            v2 = z3.If(v < 0, z3.If(v + n < lower, lower, v + n), z3.If(v > upper, upper, v))
            return z3.If(O.is_none(f), dflt, v2)

        start = adj(sstart, z3.If(neg, upper, lower))
        stop = adj(sstop, z3.If(neg, lower, upper))
        tt = T.Tup(T.Int, T.Int, T.Int)
        return SV(tt.mk(start, stop, step), tt)

    # ------------------------------------------------------------------ contracted / external calls
    def call_funcval(self, fv, node, st, want):
        if fv.kind == "uf":
            decl, ret_ty, arg_tys = fv.info
            args = [self.ev(a, st, t) for a, t in zip(node.args, arg_tys)]
            return SV(decl(*[a.t for a in args]), ret_ty)
        if fv.kind == "contract":
            return self.call_contract(fv.info, node, st, want)
        if fv.kind == "model":
            return fv.info(self, st, node, want)
        if fv.kind == "unbound":
            # _add(obj, x) with _add = set.add: the method call obj.add(x) (writes through to where obj lives)
            call = ast.Call(func=ast.Attribute(value=node.args[0], attr=fv.info, ctx=ast.Load()), args=node.args[1:], keywords=node.keywords)
            ast.copy_location(call, node)
            ast.fix_missing_locations(call)
            return self.method_call(call, st, want)
        if fv.kind == "bound":
            call = ast.Call(func=fv.info, args=node.args, keywords=node.keywords)
            ast.copy_location(call, node)
            return self.method_call(call, st, want)
        raise Unsupported(f"call of {fv.name} ({fv.kind})")

    def call_contract(self, c, node, st, want):
        """Modular call: assert requires, havoc frame, assume ensures.  May fork on `raises`."""
        self.called_contracts.add(c.qualname)
        pnames = list(c.params)
        # bind arguments
        argnodes = {}
        for i, a in enumerate(node.args):
            if isinstance(a, ast.Starred):
                raise Unsupported("starred call argument")
            argnodes[pnames[i]] = a
        for kw in node.keywords:
            if kw.arg is None:
                raise Unsupported("**kwargs at call")
            argnodes[kw.arg] = kw.value
        callee = {}
        lvals = {}
        for p in pnames:
            if p in argnodes:
                lv = self.lvalue(argnodes[p], st)
                lvals[p] = lv
                callee[p] = self.ev(argnodes[p], st, c.params[p])
            elif p in c.defaults:
                callee[p] = self.ev(ast.parse(c.defaults[p], mode="eval").body, st, c.params[p])
            else:
                raise Unsupported(f"missing argument {p} in call to {c.qualname}")
        for fvn, fty in c.free.items():
            callee[fvn] = self.read_name(st, fvn)
            lvals[fvn] = (fvn, [])
        cs = State_from(st, callee)
        for label, src in c.requires:
            with self.spec():
                cond = self.truthy(self.ev(_parse(src), cs))
            self.emit(st, self._guard(cond), "call-pre", node, f"{c.name}:{label}")
            self.assume_q(st, self._guard(cond))
        pre = dict(callee)
        post = dict(callee)
        for fr in c.frame:
            post[fr] = fresh(callee[fr].ty, fr + "_post")
        # exceptional exits
        inq = bool(self.qscope)
        if inq and c.frame:
            raise Unsupported(f"call of {c.qualname} (which modifies {c.frame}) inside a comprehension")
        for exc, when, _label in c.raises:
            ws = State_from(st, pre)
            with self.spec():
                cnd = self.truthy(self.ev(_parse(when), ws))
            rs = st.copy()
            if inq:
                # the comprehension raises if SOME iteration does (the bound variables act as the witness);
                # it continues only if NO iteration does
                rs.assume(z3.And(*[g for _, g in self.qscope], cnd))
            else:
                rs.assume(cnd)
            self.pending_raises.append(Outcome("raise", rs, None, exc))
            self.assume_q(st, z3.Not(cnd))
        ps = State_from(st, post)
        ps.old = pre
        if c.returns is None:
            res = SV(T.NoneT.value(), T.NoneT)
        elif inq:
            res = SV(self.fresh_q(c.returns.sort(), "ret_" + c.name), c.returns)  # one result per iteration
        else:
            res = fresh(c.returns, "ret_" + c.name)
        saved = self.result_sv
        self.result_sv = res
        try:
            for label, src in c.ensures:
                with self.spec():
                    self.assume_q(st, self.truthy(self.ev(_parse(src), ps)), res.t if inq and c.returns is not None else None)
        finally:
            self.result_sv = saved
        for fr in c.frame:
            lv = lvals.get(fr)
            if lv is None:
                continue  # mutation of a temporary
            self.write_path(st, lv[0], lv[1], post[fr], None)
        return res

    def _guard(self, cond):
        return z3.Implies(z3.And(*self.guards), cond) if self.guards else cond


def State_from(st, env):
    s = st.copy()
    s.env = dict(env)
    s.old = None
    return s


_parse_cache = {}


def _parse(src):
    if src not in _parse_cache:
        _parse_cache[src] = ast.parse(src.strip(), mode="eval").body
    return _parse_cache[src]
