"""E2 for C52 (Profiler, Cache) and C53 (SerializableLock): bounded runs on the real code."""
import gc
import itertools
import os
import pickle
import sys
import threading
import time

from . import rtc


# ------------------------------------------------------------------ C52
def profiler_sweep(tier, seed=0):
    import dask
    from dask.diagnostics import Profiler
    from dask.local import get_sync
    from dask.threaded import get as tget

    from .sched_native import FailingTask, graph_specs, make_graph, requests_for, closure

    t0 = time.time()
    cases, fails = 0, []
    for n in (1, 2, 3):
        for spec in graph_specs(n, ("T", "D", "A")):   # aliases are executed (pretask / posttask) like any other key
            for req in requests_for(n)[:-2]:
                tnames = [chr(ord("a") + i) for i, (k, _) in enumerate(spec) if k == "T"]
                for fl in [()] + [(t,) for t in tnames]:
                    for mode in ("single-sync", "single-threaded", "nested", "registered+context"):
                        cases += 1
                        dsk, denote, runs, recv = make_graph(spec, fl)
                        get = tget if mode == "single-threaded" else get_sync
                        profs = [Profiler()] if mode.startswith("single") else [Profiler(), Profiler()]
                        post_keys = []
                        from dask.callbacks import Callback
                        observer = Callback(posttask=lambda key, value, d, state, wid: post_keys.append(key))
                        observer.register()
                        try:
                            if mode == "registered+context":
                                profs[0].register()
                            try:
                                if len(profs) == 1:
                                    with profs[0]:
                                        get(dsk, req)
                                elif mode == "nested":
                                    with profs[0]:
                                        with profs[1]:
                                            get(dsk, req)
                                else:
                                    with profs[1]:
                                        get(dsk, req)
                            except FailingTask:
                                pass
                            finally:
                                if mode == "registered+context":
                                    profs[0].unregister()
                                observer.unregister()
                            executed = set(post_keys)  # tasks the scheduler saw complete (posttask fired)
                            msg = None
                            for i, p in enumerate(profs):
                                keys = [r.key for r in p.results]
                                if sorted(keys) != sorted(executed):
                                    msg = f"profiler {i} ({mode}) recorded {sorted(keys)}, completed tasks are {sorted(executed)}"
                                    break
                                if any(r.start_time > r.end_time for r in p.results):
                                    msg = f"profiler {i}: an entry has start > end"
                                    break
                        except Exception as e:  # noqa
                            msg = f"{type(e).__name__}: {e}"
                        if msg:
                            fails.append(rtc.Failure("Profiler", {"graph": spec, "request": req, "failing": fl, "mode": mode}, "ensures", "C52-one-entry-per-executed-task", msg))
                            if len(fails) >= 4:
                                break
                    if len(fails) >= 4:
                        break
                if len(fails) >= 4:
                    break
            if len(fails) >= 4:
                break
        if len(fails) >= 4:
            break
    return {"function": "dask/diagnostics/profile.py:Profiler (real code, sync and threaded schedulers)", "bounded": True,
            "bound": {"graphs": "all task/data/alias graphs <= 3 nodes, all requests, one failing task or none", "modes": "single, nested profilers, registered + context"},
            "cases": cases, "distinct_nontrivial": cases, "failures_found": len(fails), "wall_s": round(time.time() - t0, 2),
            "samples": [{"native_case": {"graph": [["T", []], ["T", [0]]], "request": "b", "mode": "nested"}}], "failures": fails[:4]}


def _empty_array():
    import numpy as np
    return np.zeros(0)


def _same(a, b):
    """value equality that also works for (tuples of) NumPy arrays"""
    if isinstance(a, (tuple, list)) and isinstance(b, (tuple, list)):
        return len(a) == len(b) and type(a) is type(b) and all(_same(x, y) for x, y in zip(a, b))
    if hasattr(a, "shape") or hasattr(b, "shape"):
        import numpy as np
        return hasattr(a, "shape") and hasattr(b, "shape") and a.shape == b.shape and bool(np.array_equal(a, b))
    return a == b and type(a) is type(b)


def _truth():
    return True


def _ret2():
    return 2


def _ret25():
    return 2.5


def _name_of_a():
    return "a"


def _task_like():
    return (len, "abc")


def _key_list():
    return ["a", "b"]


def _pair(x, y):
    return (x, y)


def _total(a):
    return float(a.sum())


def cache_sweep(tier, seed=0):
    """Cache callback: same values with and without it, also when cached results are reused (cachey stubbed)."""
    t0 = time.time()
    stub_dir = os.path.join(os.path.dirname(os.path.abspath(__file__)), "stubs")
    stubbed = False
    try:
        import cachey  # noqa
    except ImportError:
        sys.path.insert(0, stub_dir)
        stubbed = True
    import dask
    from dask.cache import Cache
    from dask.local import get_sync
    from dask.threaded import get as tget

    cases, fails = 0, []

    def inc(x):
        return x + 1

    def add(x, y):
        return x + y

    graphs = [
        ({"a": 1, "b": (inc, "a"), "c": (inc, "b")}, ["c", ["b", "c"], ["a", "c"]]),
        ({"a": (inc, 0), "b": (inc, "a"), "c": (add, "a", "b"), "d": (add, "c", 100)}, ["d", ["c", "d"], ["a", "d"], ["b"]]),
        ({"x": (inc, 1), "y": (inc, "x"), "z": (add, "y", "x"), "w": (add, "z", 10), "v": (inc, "w")}, [["z", "v"], "v", ["y", "w"]]),
        # intermediate results that occupy zero bytes (an empty NumPy array) and falsy results (0, '')
        ({"e": (_empty_array,), "s": (_total, "e"), "t": (add, "s", 1), "n": (add, "s", 0), "u": (str.strip, " ")}, ["t", ["s", "t"], ["n", "u"], ["u"]]),
        # results that LOOK like graph terms: a string equal to another key, a tuple headed by a callable, a list of key names
        ({"a": (inc, 99), "b": (_name_of_a,), "c": (_task_like,), "d": (_pair, "b", "c"), "k": (_key_list,)}, [["a", "b"], ["b", "c", "d"], "d", ["k", "a"]]),
        # numeric keys whose results are numbers equal to OTHER keys of the graph (1, 2, 2.5, True == 1)
        ({1: (_ret2,), 2: (_ret25,), 2.5: (_truth,), "s": (_pair, 1, 2), "q": (_pair, 2.5, "s")}, [[1, 2], ["s", 2.5], "q", [2.5, 1]]),
    ]
    try:
        for dsk, requests in graphs:
            for cap in (1e9, 400, 200, 120):
                for get in (get_sync, tget):
                    cache = Cache(cap)
                    for rounds in range(3):
                        for req in requests:
                            cases += 1
                            want = get_sync(dict(dsk), req)
                            try:
                                with cache:
                                    got = get(dict(dsk), req)
                                msg = None if _same(got, want) else f"with the Cache callback the result is {got!r}, without it {want!r}"
                            except Exception as e:  # noqa
                                msg = f"{type(e).__name__}: {e}"
                            if msg:
                                fails.append(rtc.Failure("Cache", {"graph": sorted(dsk, key=repr), "request": req, "capacity": cap, "round": rounds, "scheduler": get.__module__}, "ensures", "C52-cache-does-not-change-values", msg))
        # item-bounded caches (oldest evicted first): a later computation reuses a cached key next to fresh work
        from collections import OrderedDict

        class ItemCache:
            def __init__(self, maxitems):
                self.maxitems = maxitems
                self.data = OrderedDict()

            def put(self, key, value, cost, nbytes=None):
                self.data[key] = value
                self.data.move_to_end(key)
                while len(self.data) > self.maxitems:
                    self.data.popitem(last=False)

            def get(self, key, default=None):
                return self.data.get(key, default)

        for dsk, requests in graphs:
            keys = [k for k in dsk]
            for maxitems in (1, 2, 3):
                for get in (get_sync, tget):
                    for warm in keys:
                        for req in requests + [[k] for k in keys]:
                            cases += 1
                            cache = Cache(ItemCache(maxitems))
                            try:
                                with cache:
                                    get(dict(dsk), warm)
                                want = get_sync(dict(dsk), req)
                                with cache:
                                    got = get(dict(dsk), req)
                                msg = None if _same(got, want) else f"after warming the cache with {warm!r}: with the Cache callback the result is {got!r}, without it {want!r}"
                            except Exception as e:  # noqa
                                msg = f"{type(e).__name__}: {e}"
                            if msg:
                                fails.append(rtc.Failure("Cache", {"graph": sorted(dsk, key=repr), "warm": warm, "request": req, "maxitems": maxitems, "scheduler": get.__module__}, "ensures", "C52-cache-does-not-change-values", msg))
    finally:
        if stubbed:
            sys.path.remove(stub_dir)
    return {"function": "dask/cache.py:Cache (real code; third-party `cachey` replaced by a small stand-in: stated assumption)", "bounded": True,
            "bound": {"graphs": "6 (one with zero-byte and falsy results, one whose results look like keys / tasks, one with numeric keys whose results equal other keys)", "capacities": [1e9, 400, 200, 120], "rounds reusing the cache": 3, "schedulers": "sync, threaded"},
            "cases": cases, "distinct_nontrivial": cases, "failures_found": len(fails), "wall_s": round(time.time() - t0, 2),
            "samples": [{"native_case": {"request": ["c", "d"], "capacity": 200, "round": 1}}], "failures": fails[:4]}


# ------------------------------------------------------------------ C53
TOKENS = [None, "tok", 1, "1", ("a", 1), "('a', 1)", b"x", "b'x'", "", 0]  # "" and 0: explicit but falsy


def lock_histories(length):
    ops = [("new", t) for t in range(len(TOKENS))] + [("pickle", i) for i in range(3)] + [("del", i) for i in range(3)]
    for n in range(1, length + 1):
        yield from itertools.product(ops, repeat=n)
    # one step longer with three tokens only (create, copy, delete the original + gc, copy again ...)
    ops2 = [("new", t) for t in range(3)] + [("pickle", i) for i in range(3)] + [("del", i) for i in range(3)]
    yield from itertools.product(ops2, repeat=length + 1)


def run_lock_history(h):
    from dask.utils import SerializableLock

    live = []  # [lock objects or None]
    for op, a in h:
        if op == "new":
            live.append(SerializableLock(TOKENS[a]))
        elif op == "pickle":
            if a < len(live) and live[a] is not None:
                live.append(pickle.loads(pickle.dumps(live[a])))
        elif op == "del":
            if a < len(live) and live[a] is not None:
                live[a] = None
                gc.collect()
        objs = [x for x in live if x is not None]
        for x, y in itertools.combinations(objs, 2):
            same_tok = type(x.token) is type(y.token) and x.token == y.token
            if same_tok != (x.lock is y.lock):
                return f"tokens {x.token!r} / {y.token!r}: {'different' if not same_tok else 'equal'} tokens but the underlying lock is {'the same' if x.lock is y.lock else 'different'}"
            # behavioural check: holding one blocks the other iff same lock
            x.acquire()
            try:
                got = y.acquire(False)
                if got:
                    y.release()
                if got == same_tok:
                    return f"tokens {x.token!r} / {y.token!r}: while one is held, acquiring the other {'succeeds' if got else 'blocks'}"
            finally:
                x.release()
        x = y = objs = None  # loop variables must not keep deleted instances alive
    return None


def lock_contention(tok):
    """Another thread holds the original inside `with`; every way of acquiring a copy must fail until it is released,
    a separately created lock must stay available."""
    import copy
    import threading

    from dask.utils import SerializableLock

    a = SerializableLock(tok)
    copies = {"pickle round trip": pickle.loads(pickle.dumps(a)), "copy.copy": copy.copy(a), "copy.deepcopy": copy.deepcopy(a),
              "second round trip": pickle.loads(pickle.dumps(pickle.loads(pickle.dumps(a))))}
    # copies that come into being in OTHER threads of the same process (the statement says "in the same process")
    blob = pickle.dumps(a)
    made = {}

    def maker(name):
        made[name] = pickle.loads(blob) if name != "same token, created in another thread" else SerializableLock(a.token)

    for name in ("unpickled in another thread", "unpickled in a second thread", "same token, created in another thread"):
        t_ = threading.Thread(target=maker, args=(name,), daemon=True)
        t_.start()
        t_.join(5)
    copies.update(made)
    if len(made) == 3 and made["unpickled in another thread"].lock is not made["unpickled in a second thread"].lock:
        return f"token {tok!r}: two copies unpickled by two different threads do not share one lock"
    other = SerializableLock()
    held, done = threading.Event(), threading.Event()

    def holder():
        with a:
            held.set()
            done.wait(20)

    th = threading.Thread(target=holder, daemon=True)
    th.start()
    held.wait(5)
    msg = None
    try:
        for how, c in copies.items():
            for label, call in (("acquire(False)", lambda: c.acquire(False)), ("acquire(blocking=False)", lambda: c.acquire(blocking=False)),
                                ("acquire(timeout=0.02)", lambda: c.acquire(timeout=0.02)), ("acquire(True, 0.02)", lambda: c.acquire(True, 0.02))):
                got = call()
                if got:
                    c.release()
                    return f"token {tok!r}: while another thread holds the original, {label} on the {how} copy reports success"
            if not c.locked():
                return f"token {tok!r}: the {how} copy reports locked() == False while the original is held"
        if not other.acquire(timeout=1):
            return f"token {tok!r}: a separately created lock cannot be acquired while this one is held"
        other.release()
    finally:
        done.set()
        th.join(5)
    for how, c in copies.items():
        if not c.acquire(timeout=2):
            return f"token {tok!r}: the {how} copy cannot be acquired after the original was released"
        if a.acquire(False):
            a.release()
            c.release()
            return f"token {tok!r}: holding the {how} copy does not block the original"
        c.release()
    return msg


def lock_generated_tokens():
    """Locks created separately (no token given) never exclude each other, whatever the state of the global random
    module at the time of creation (a program that seeds `random` before each of them included)."""
    import random

    from dask.utils import SerializableLock

    st = random.getstate()
    try:
        locks = []
        for _ in range(3):
            random.seed(1234)
            locks.append(SerializableLock())
        random.setstate(st)
        locks.append(SerializableLock())
        random.setstate(st)
        locks.append(SerializableLock())
    finally:
        random.setstate(st)
    for x, y in itertools.combinations(locks, 2):
        if x.lock is y.lock or x.token == y.token:
            return "two locks created separately (no token given; global random module re-seeded in between) share one lock"
        with x:
            if not y.acquire(timeout=1):
                return "a separately created lock cannot be acquired while another one is held"
            y.release()
    return None


def lock_many_in_between(n):
    """a lock stays THE lock of its token while it is alive, however many other locks were created in the meantime"""
    from dask.utils import SerializableLock

    for tok in (None, ("resource", n)):
        a = SerializableLock(tok)
        blob = pickle.dumps(a)
        others = [SerializableLock() for _ in range(n)] + [SerializableLock(("other", i)) for i in range(n)]
        for how, c in (("copy unpickled afterwards", pickle.loads(blob)), ("same token, created afterwards", SerializableLock(a.token)), ("copy of the later copy", pickle.loads(pickle.dumps(pickle.loads(blob))))):
            if c.lock is not a.lock:
                return f"token {tok!r}: after {2 * n} other locks were created, the {how} no longer shares the original's lock"
            with a:
                if c.acquire(False):
                    c.release()
                    return f"token {tok!r}: after {2 * n} other locks were created, the {how} can be acquired while the original is held"
        del others
    return None


def lock_hand_off():
    """a hold taken through one handle can be ended through any other handle of the same lock (they ARE one lock)"""
    import copy

    from dask.utils import SerializableLock

    for tok in (None, "tok", ("hdf", 3)):
        a = SerializableLock(tok)
        for how, c in (("unpickled copy", pickle.loads(pickle.dumps(a))), ("deepcopy", copy.deepcopy(a)), ("same token", SerializableLock(a.token))):
            for first, second, label in ((a, c, f"acquired through the original, released through the {how}"), (c, a, f"acquired through the {how}, released through the original")):
                if not first.acquire(timeout=1):
                    return f"token {tok!r}: cannot acquire a free lock ({label})"
                try:
                    second.release()
                except Exception as e:  # noqa
                    first.release()
                    return f"token {tok!r}: {label}: release raised {type(e).__name__}: {e}"
                if a.locked() or c.locked():
                    try:
                        first.release()
                    except Exception:  # noqa
                        pass
                    return f"token {tok!r}: {label}: the lock is still reported as held"
                if not first.acquire(timeout=1):
                    return f"token {tok!r}: {label}: the lock cannot be acquired again"
                first.release()
    return None


def lock_after_fork():
    """in a forked child, copies made after the fork are still the same lock as the original created before it"""
    import os

    from dask.utils import SerializableLock

    if not hasattr(os, "fork"):
        return None
    locks = [SerializableLock(), SerializableLock(("hdf", "/tmp/x.h5"))]
    blobs = [pickle.dumps(x) for x in locks]
    r, w = os.pipe()
    pid = os.fork()
    if pid == 0:
        code = 0
        try:
            os.close(r)
            msg = ""
            for a, blob in zip(locks, blobs):
                for how, c in (("unpickled after the fork", pickle.loads(blob)), ("copy made after the fork", pickle.loads(pickle.dumps(a))), ("same token, created after the fork", SerializableLock(a.token))):
                    with a:
                        if c.acquire(False):
                            c.release()
                            msg = f"token {a.token!r}: in a forked child the {how} can be acquired while the original is held"
                    if msg:
                        break
                if msg:
                    break
            os.write(w, msg.encode()[:500])
        except BaseException as e:  # noqa
            os.write(w, f"child raised {type(e).__name__}: {e}".encode()[:500])
            code = 1
        finally:
            os._exit(code)
    os.close(w)
    data = b""
    while True:
        chunk = os.read(r, 1024)
        if not chunk:
            break
        data += chunk
    os.close(r)
    os.waitpid(pid, 0)
    return data.decode() or None


def lock_sweep(tier, seed=0):
    t0 = time.time()
    cases, fails = 0, []
    for n_ in (10, 300, 1200 if tier != "quick" else 600):
        cases += 1
        try:
            msg = lock_many_in_between(n_)
        except Exception as e:  # noqa
            msg = f"{type(e).__name__}: {e}"
        if msg:
            fails.append(rtc.Failure("SerializableLock", {"scenario": "other locks created in between", "n": n_}, "ensures", "C53-holding-one-blocks-the-others", msg))
            break
    cases += 1
    try:
        msg = lock_hand_off()
    except Exception as e:  # noqa
        msg = f"{type(e).__name__}: {e}"
    if msg:
        fails.append(rtc.Failure("SerializableLock", {"scenario": "acquire through one handle, release through another"}, "ensures", "C53-holding-one-blocks-the-others", msg))
    cases += 1
    try:
        msg = lock_after_fork()
    except Exception as e:  # noqa
        msg = f"{type(e).__name__}: {e}"
    if msg:
        fails.append(rtc.Failure("SerializableLock", {"scenario": "copies made in a forked child"}, "ensures", "C53-holding-one-blocks-the-others", msg))
    cases += 1
    msg = lock_generated_tokens()
    if msg:
        fails.append(rtc.Failure("SerializableLock", {"scenario": "generated tokens with the global random module re-seeded; 20-2400 other locks created between creation and unpickling; copies made in a forked child"}, "ensures", "C53-copies-share-the-lock-separate-locks-do-not", msg))
    for tok in TOKENS:
        cases += 1
        try:
            msg = lock_contention(tok)
        except Exception as e:  # noqa
            msg = f"{type(e).__name__}: {e}"
        if msg:
            fails.append(rtc.Failure("SerializableLock", {"token": tok, "scenario": "thread holds the original; acquire copies"}, "ensures", "C53-holding-one-blocks-the-others", msg))
            break
    length = 3 if tier == "quick" else 4
    for h in lock_histories(length):
        cases += 1
        try:
            msg = run_lock_history(h)
        except Exception as e:  # noqa
            msg = f"{type(e).__name__}: {e}"
        if msg:
            fails.append(rtc.Failure("SerializableLock", {"history": [(op, TOKENS[a] if op == "new" else a) for op, a in h]}, "ensures", "C53-copies-share-the-lock-separate-locks-do-not", msg))
            if len(fails) >= 4:
                break
    gc.collect()
    return {"function": "dask/utils.py:SerializableLock (real code)", "bounded": True,
            "bound": {"history length": length, "contention": "per token: a thread holds the original, 7 kinds of copies (3 of them made in other threads) x 4 ways of acquiring; generated tokens with the global random module re-seeded; 20-2400 other locks created between creation and unpickling; copies made in a forked child", "ops": "new(token in None/'tok'/1/'1'/('a',1)/\"('a', 1)\"/b'x'/\"b'x'\"/''/0), pickle round trip of instance i, delete instance i + gc"},
            "cases": cases, "distinct_nontrivial": cases, "failures_found": len(fails), "wall_s": round(time.time() - t0, 2),
            "samples": [{"native_case": {"history": [["new", "tok"], ["pickle", 0], ["del", 0], ["pickle", 1]]}}], "failures": fails[:4]}
