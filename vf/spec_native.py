"""E2 for C11 / C08 (task-spec nodes): exhaustive small universes on the real dask._task_spec."""
import itertools
import operator
import pickle
import time

from . import rtc

VALUES = {1: "v-int1", "1": "v-str1", "a": 5, "b": 12, ("x", 0): "v-tuple", "('x', 0)": "v-strtuple", 2: "v-int2"}


def _f(*args, **kw):
    return ("f", args, tuple(sorted(kw.items())))


def atoms():
    from dask._task_spec import Dict, List, Set, TaskRef, Tuple

    refs = [TaskRef(k) for k in VALUES]
    lits = [1, 2, "1", "a"]
    conts = []
    for c in (List, Tuple, Set):
        conts += [c(1, 2), c(2, 1), c(TaskRef("a"), TaskRef("b")), c(TaskRef("b"), TaskRef("a")), c(TaskRef(1)), c(TaskRef("1"))]
    conts += [Dict({"k1": 1, "k2": 2}), Dict({"k1": 2, "k2": 1}), Dict({"k2": 2, "k1": 1}), Dict({"k1": TaskRef("a"), "k2": TaskRef("b")}), Dict({"k1": TaskRef("b"), "k2": TaskRef("a")}),
              List(List(1, 2), 3), List(List(2, 1), 3), List(1, List(2, 3)), List(List(1), 2, 3)]
    return refs, lits, conts


def universe(tier):
    from dask._task_spec import Alias, DataNode, Task

    refs, lits, conts = atoms()
    args = refs + lits + conts
    nodes = list(conts)
    nodes += [DataNode("k", 1), DataNode("k", "1"), DataNode("k2", 1), Alias("k", "a"), Alias("k", "b"), Alias("k", 1), Alias("k", "1")]
    for fn in (operator.sub, _f):
        for a in args:
            nodes.append(Task("k", fn, a))
        pool = args if tier != "quick" else refs + lits[:2] + conts[:6]
        for a, b in itertools.product(pool, repeat=2):
            nodes.append(Task("k", fn, a, b))
    for a in refs[:4] + lits[:2]:
        for b in refs[:4] + lits[:2]:
            nodes.append(Task("k", _f, x=a, y=b))
            nodes.append(Task("k", _f, a, y=b))
    return nodes


def evaluate(n):
    try:
        return ("ok", n(dict(VALUES)) if n.dependencies else n({}))
    except Exception as e:  # noqa
        return ("exc", type(e).__name__)


def congruence_sweep(tier, seed=0):
    from dask.tokenize import tokenize

    t0 = time.time()
    nodes = universe(tier)
    cases, fails = 0, []
    toks = [tokenize(n) for n in nodes]
    vals = [evaluate(n) for n in nodes]
    by_tok = {}
    for i, t in enumerate(toks):
        by_tok.setdefault((type(nodes[i]).__name__, t), []).append(i)
    for (_, t), idxs in by_tok.items():
        for i, j in itertools.combinations(idxs, 2):
            cases += 1
            if vals[i] != vals[j]:
                fails.append(rtc.Failure("GraphNode.__eq__", {"a": repr(nodes[i]), "b": repr(nodes[j])}, "ensures", "C11-equal-nodes-compute-equal-values", f"same token, but a evaluates to {vals[i]!r} and b to {vals[j]!r}"))
    # == / hash consistency on a sample of pairs (all pairs inside token classes + neighbours)
    for i in range(len(nodes)):
        for j in range(i + 1, min(i + 40, len(nodes))):
            cases += 1
            if nodes[i] == nodes[j]:
                if vals[i] != vals[j]:
                    fails.append(rtc.Failure("GraphNode.__eq__", {"a": repr(nodes[i]), "b": repr(nodes[j])}, "ensures", "C11-equal-nodes-compute-equal-values", f"a == b but a -> {vals[i]!r}, b -> {vals[j]!r}"))
    # multi-step: tokenize first, then substitute a dependency, then compare with a freshly built node
    from dask._task_spec import Task, TaskRef

    for fn in (operator.sub, _f):
        for ka, kb in [("a", "b"), (1, "1"), ("a", 1)]:
            cases += 1
            t = Task("k", fn, TaskRef(ka), TaskRef(kb))
            hash(t)
            _ = t == t
            sw = t.substitute({ka: kb, kb: ka})
            fresh = Task("k", fn, TaskRef(kb), TaskRef(ka))
            same = Task("k", fn, TaskRef(ka), TaskRef(kb))
            for x, name in ((sw, "substituted"),):
                if (x == same) and evaluate(x) != evaluate(same):
                    fails.append(rtc.Failure("Task.substitute", {"func": fn.__name__, "swap": [ka, kb]}, "ensures", "C11-equal-nodes-compute-equal-values", f"node obtained by substitute() after tokenizing compares equal to the original but evaluates to {evaluate(x)!r} vs {evaluate(same)!r}"))
                if (x == fresh) != (evaluate(x) == evaluate(fresh)) and evaluate(x) == evaluate(fresh):
                    fails.append(rtc.Failure("Task.substitute", {"func": fn.__name__, "swap": [ka, kb]}, "ensures", "C11-same-node-same-token", "substitute() result differs from an identical freshly built node"))
    return {"function": "dask/_task_spec.py: GraphNode.__eq__/__hash__/tokens vs __call__ (real code)", "bounded": True,
            "bound": {"nodes": len(nodes), "universe": "Task(sub|f, args from refs/literals/List/Tuple/Set/Dict incl. permutations, key-like refs 1 vs '1', ('x',0) vs its str), kwargs, aliases, data nodes"},
            "cases": cases, "distinct_nontrivial": cases, "failures_found": len(fails), "wall_s": round(time.time() - t0, 2),
            "samples": [{"native_case": {"a": "List((1, 2))", "b": "List((2, 1))"}}], "failures": fails[:5]}


# ------------------------------------------------------------------ C08: legacy conversion and pickling
def _g(*args):
    return ("g",) + args


def legacy_terms(depth):
    atoms_ = ["x", ("t", 0), "y", 1, "lit", None]
    if depth == 0:
        return atoms_
    sub = legacy_terms(depth - 1)
    out = list(atoms_)
    small = sub if depth == 1 else sub[:14]
    for a in small:
        out.append((_f, a))
        out.append([a])
        out.append((a, "lit2"))          # non-call tuple
        out.append((_g, {"k": a}))       # dict argument of a call
        out.append({"k": a})             # bare dict
    for a, b in itertools.product(small[:8], repeat=2):
        out.append((_f, a, b))
        out.append([a, b])
        out.append((_g, [a], (_f, b)))
    return out


def legacy_ref(t, env, keys):
    """Reference interpreter of the legacy semantics (statement of C08): call tuples are calls, lists (and other
    non-call sequences) are evaluated elementwise, hashable values equal to a key are references."""
    used = set()

    def ev(t, top_arg=False):
        if type(t) is tuple and t and callable(t[0]):
            return t[0](*[ev(a, True) for a in t[1:]])
        try:
            if isinstance(t, (int, float, str, tuple)) and t in keys:
                used.add(t)
                return env[t]
        except TypeError:
            pass
        if isinstance(t, (list, tuple, set, frozenset)):
            return type(t)(ev(a) for a in t)
        if isinstance(t, dict):
            return {k: ev(v) for k, v in t.items()}
        return t

    return ev(t), used


def _has_dict_ref(t, keys):
    """dict (argument) that contains a key reference or a nested task: the recorded finding C08-dict-args"""
    def walk(t, inside):
        if isinstance(t, dict):
            return any(walk(v, True) for v in t.values())
        if type(t) is tuple and t and callable(t[0]):
            return inside or any(walk(a, inside) for a in t[1:])
        try:
            if isinstance(t, (int, float, str, tuple)) and t in keys:
                return inside
        except TypeError:
            pass
        if isinstance(t, (list, tuple, set, frozenset)):
            return any(walk(a, inside) for a in t)
        return False
    return walk(t, False)


def legacy_sweep(tier, seed=0):
    from dask._task_spec import GraphNode, convert_legacy_graph
    from dask.local import get_sync

    t0 = time.time()
    base = {"x": 1, ("t", 0): 10, "y": (_f, "x")}
    env = {"x": 1, ("t", 0): 10, "y": _f(1)}
    keys = set(base) | {"w"}
    cases, fails = 0, []
    for term in legacy_terms(2 if tier != "quick" else 2):
        cases += 1
        dsk = dict(base, w=term)
        try:
            want, used = legacy_ref(term, env, keys - {"w"})
            got = get_sync(dsk, "w")
            conv = convert_legacy_graph(dsk)
            deps = set(conv["w"].dependencies) if "w" in conv else {term}
            msg = None
            if got != want:
                msg = f"converted graph computes {got!r}, legacy semantics give {want!r}"
            elif deps != used:
                msg = f"node reports dependencies {sorted(map(repr, deps))}, the term references {sorted(map(repr, used))}"
        except Exception as e:  # noqa
            msg = f"{type(e).__name__}: {e}"
        if msg:
            fails.append(rtc.Failure("convert_legacy_task", {"term": repr(term), "dict_with_reference": _has_dict_ref(term, keys - {"w"})}, "ensures", "C08-legacy-meaning-preserved", msg))
    return {"function": "dask/_task_spec.py:convert_legacy_graph + execution (real code) vs reference legacy interpreter", "bounded": True,
            "bound": {"term depth": 2, "alphabet": "keys x, ('t',0), y; functions f, g; literals 1, 'lit', None; lists, non-call tuples, dict arguments"},
            "cases": cases, "distinct_nontrivial": cases, "failures_found": len(fails), "wall_s": round(time.time() - t0, 2),
            "samples": [{"native_case": {"term": "(f, ['x', ('t', 0)])"}}], "failures": fails[:400]}


def pickle_sweep(tier, seed=0):
    t0 = time.time()
    import cloudpickle

    nodes = universe("quick")
    cases, fails = 0, []
    for n in nodes:
        cases += 1
        try:
            m = pickle.loads(cloudpickle.dumps(n))
            msg = None
            if set(m.dependencies) != set(n.dependencies):
                msg = f"dependencies changed by pickling: {sorted(map(repr, n.dependencies))} -> {sorted(map(repr, m.dependencies))}"
            elif evaluate(m) != evaluate(n):
                msg = f"value changed by pickling: {evaluate(n)!r} -> {evaluate(m)!r}"
        except Exception as e:  # noqa
            msg = f"{type(e).__name__}: {e}"
        if msg:
            fails.append(rtc.Failure("Task.__getstate__", {"node": repr(n)}, "ensures", "C08-pickling-preserves-node", msg))
    return {"function": "dask/_task_spec.py: pickling of task nodes (real code)", "bounded": True, "bound": {"nodes": len(nodes)},
            "cases": cases, "distinct_nontrivial": cases, "failures_found": len(fails), "wall_s": round(time.time() - t0, 2),
            "samples": [{"native_case": {"node": "Task('k', f, x=TaskRef('a'), y=TaskRef('b'))"}}], "failures": fails[:5]}
