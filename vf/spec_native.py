"""E2 for C11 / C08 (task-spec nodes): exhaustive small universes on the real dask._task_spec."""
import itertools
import os
import operator
import pickle
import time

from . import rtc

VALUES = {1: "v-int1", "1": "v-str1", "a": 5, "b": 12, ("x", 0): "v-tuple", "('x', 0)": "v-strtuple", 2: "v-int2"}


def _f(*args, **kw):
    return ("f", args, tuple(sorted(kw.items())))


def atoms():
    from dask._task_spec import Dict, List, Set, TaskRef, Tuple

    refs = [TaskRef(k) for k in VALUES]
    lits = [1, 2, "1", "a"]
    conts = []
    for c in (List, Tuple, Set):
        conts += [c(1, 2), c(2, 1), c(TaskRef("a"), TaskRef("b")), c(TaskRef("b"), TaskRef("a")), c(TaskRef(1)), c(TaskRef("1"))]
    conts += [Dict({"k1": 1, "k2": 2}), Dict({"k1": 2, "k2": 1}), Dict({"k2": 2, "k1": 1}), Dict({"k1": TaskRef("a"), "k2": TaskRef("b")}), Dict({"k1": TaskRef("b"), "k2": TaskRef("a")}),
              List(List(1, 2), 3), List(List(2, 1), 3), List(1, List(2, 3)), List(List(1), 2, 3)]
    # a container whose only element is a plain container of the same kind (the constructor unwraps one level);
    # dicts that carry the same value under several keys and differ in one of those keys only
    conts += [List([[1, 2]]), List([1, 2]), Tuple(((2, 2),)), Tuple((2, 2)), List([[TaskRef("a")]]),
              Dict({"a": 1, "b": 1}), Dict({"c": 1, "b": 1}), Dict({"b": 1}), Dict({"a": TaskRef("a"), "b": TaskRef("a")}), Dict({"z": TaskRef("a"), "b": TaskRef("a")}),
              Dict("a", 1, "a", 2), Dict("a", 2, "a", 1), Dict("a", 2), Dict([("a", 1), ("a", 2)])]   # a key given twice keeps its last value
    # different container kinds nested in one node (one pickle), containers inside keyword arguments
    conts += [Tuple(List(1, TaskRef("a")), 2), List(Tuple(1, 2), Set(3)), Dict({"k": List(1, 2)}), Dict({"k": Tuple(1, 2)}), List(Dict({"k": TaskRef("a")}), Tuple(TaskRef("b")))]
    return refs, lits, conts


def universe(tier):
    from dask._task_spec import Alias, DataNode, Task

    refs, lits, conts = atoms()
    args = refs + lits + conts
    nodes = list(conts)
    nodes += [DataNode("k", 1), DataNode("k", "1"), DataNode("k2", 1), Alias("k", "a"), Alias("k", "b"), Alias("k", 1), Alias("k", "1")]
    for fn in (operator.sub, _f):
        for a in args:
            nodes.append(Task("k", fn, a))
        pool = args if tier != "quick" else refs + lits[:2] + conts[:6]
        for a, b in itertools.product(pool, repeat=2):
            nodes.append(Task("k", fn, a, b))
    for a in refs[:4] + lits[:2]:
        for b in refs[:4] + lits[:2]:
            nodes.append(Task("k", _f, x=a, y=b))
            nodes.append(Task("k", _f, a, y=b))
            nodes.append(Task("k", _f, y=a, x=b))   # keywords written out of alphabetical order
    from dask._task_spec import Dict, List, TaskRef, Tuple
    # a container argument next to the plain literal of the same shape (the literal is passed through as it is)
    nodes += [Task("k", _f, Dict({"a": TaskRef("a")})), Task("k", _f, {"a": TaskRef("a")}), Task("k", _f, List(TaskRef("a"))), Task("k", _f, [TaskRef("a")]),
              Task("k", _f, List(1, TaskRef("a")), y=Tuple(TaskRef("b"), 2)), Task("k", _f, Tuple(1, TaskRef("a")), y=List(TaskRef("b"), 2)),
              Dict("a", 1, "a", TaskRef("a")), Dict("a", 1, "a", TaskRef("b"))]
    # nested tasks that share a key (keys are not part of a node's identity) next to the same node with distinct / no
    # nested keys; partials of one function that bind "the same things" positionally and by keyword
    import functools
    for k1, k2 in (("p", "p"), ("p0", "p1"), (None, None)):
        nodes.append(Task("k", _f, Task(k1, _f, TaskRef("a"), 10), Task(k2, _f, TaskRef("a"), 100)))
        nodes.append(List(Task(k1, _f, TaskRef("a"), 10), Task(k2, _f, TaskRef("a"), 100)))
    nodes += [Task("k", functools.partial(_f, ("unit", 3)), TaskRef("a")), Task("k", functools.partial(_f, unit=3), TaskRef("a")),
              Task("k", functools.partial(_f, ("unit", 3), w=1), TaskRef("a")), Task("k", functools.partial(_f, unit=3, w=1), TaskRef("a")),
              Task("k", functools.partial(_f, 1, 2), TaskRef("a")), Task("k", functools.partial(_f, (1, 2)), TaskRef("a"))]
    order = os.environ.get("VF_UNIVERSE_ORDER")
    if order:
        # which class is tokenized first in the process matters to dispatch caches: put one kind of node first
        first = [n for n in nodes if type(n).__name__ == order]
        nodes = first + [n for n in nodes if type(n).__name__ != order]
    return nodes


def _canon(v):
    """type-tagged canonical form: equal values of different types stay different, dict / set order does not matter"""
    if isinstance(v, dict):
        return ("dict", tuple(sorted(((_canon(k), _canon(x)) for k, x in v.items()), key=repr)))
    if isinstance(v, (set, frozenset)):
        return (type(v).__name__, tuple(sorted((_canon(x) for x in v), key=repr)))
    if isinstance(v, (list, tuple)):
        return (type(v).__name__, tuple(_canon(x) for x in v))
    return (type(v).__name__, repr(v))


def evaluate(n):
    try:
        # repr: 1, True and 1.0 (0.0 and -0.0) are different values although Python's == identifies them
        return ("ok", _canon(n(dict(VALUES)) if n.dependencies else n({})))
    except Exception as e:  # noqa
        return ("exc", type(e).__name__)


def _delta(x):
    return x - 10


def _delta_clipped(x):
    return max(x - 10, 0)


# a second function object that claims the importable name of the first (what functools.wraps or a rebound `def` leaves behind)
_delta_clipped.__name__ = _delta.__name__
_delta_clipped.__qualname__ = _delta.__qualname__


def typed_universe():
    """Nodes that differ only in literals Python's == identifies (1 / True / 1.0, 0 / False / 0.0 / -0.0), as positional,
    keyword and nested arguments, and nodes that differ only in the function object behind one importable name."""
    from dask._task_spec import DataNode, Dict, List, Task, Tuple

    lits = [1, True, 1.0, 0, False, 0.0, -0.0]
    nodes = []
    for v in lits:
        nodes += [Task("k", _f, v), Task("k", _f, 2, v), Task("k", _f, y=v), Task("k", _f, List(v, 2)), Task("k", _f, Dict({"d": v})),
                  Task("k", _f, Tuple(v)), List(v), Tuple(v, v), Dict({"d": v}), DataNode("k", v)]
    for fn in (_delta, _delta_clipped):
        nodes += [Task("k", fn, 3), Task("k", _f, fn), List(fn)]
    return nodes


def congruence_sweep(tier, seed=0):
    from dask.tokenize import tokenize

    t0 = time.time()
    nodes = universe(tier)
    cases, fails = 0, []
    toks = [tokenize(n) for n in nodes]
    vals = [evaluate(n) for n in nodes]
    by_tok = {}
    for i, t in enumerate(toks):
        by_tok.setdefault((type(nodes[i]).__name__, t), []).append(i)
    for (_, t), idxs in by_tok.items():
        for i, j in itertools.combinations(idxs, 2):
            cases += 1
            if vals[i] != vals[j]:
                fails.append(rtc.Failure("GraphNode.__eq__", {"a": repr(nodes[i]), "b": repr(nodes[j])}, "ensures", "C11-equal-nodes-compute-equal-values", f"same token, but a evaluates to {vals[i]!r} and b to {vals[j]!r}"))
    # == / hash consistency on a sample of pairs (all pairs inside token classes + neighbours)
    for i in range(len(nodes)):
        for j in range(i + 1, min(i + 40, len(nodes))):
            cases += 1
            if nodes[i] == nodes[j]:
                if vals[i] != vals[j]:
                    fails.append(rtc.Failure("GraphNode.__eq__", {"a": repr(nodes[i]), "b": repr(nodes[j])}, "ensures", "C11-equal-nodes-compute-equal-values", f"a == b but a -> {vals[i]!r}, b -> {vals[j]!r}"))
    # literals that == identifies and functions sharing an importable name: all pairs
    tn = typed_universe()
    ttoks = [tokenize(n) for n in tn]
    tvals = [evaluate(n) if not any(callable(a) for a in getattr(n, "args", ())) else ("fn", id(getattr(n, "args", (None,))[0])) for n in tn]
    for i, j in itertools.combinations(range(len(tn)), 2):
        if type(tn[i]) is not type(tn[j]):
            continue
        cases += 1
        same_tok, eq = ttoks[i] == ttoks[j], tn[i] == tn[j]
        if (same_tok or eq) and tvals[i] != tvals[j]:
            fails.append(rtc.Failure("GraphNode.__eq__", {"a": repr(tn[i]), "b": repr(tn[j])}, "ensures", "C11-equal-nodes-compute-equal-values",
                                     f"{'same token' if same_tok else 'a == b'}, but a evaluates to {tvals[i]!r} and b to {tvals[j]!r}"))
        if eq and hash(tn[i]) != hash(tn[j]):
            fails.append(rtc.Failure("GraphNode.__hash__", {"a": repr(tn[i]), "b": repr(tn[j])}, "ensures", "C11-equal-nodes-hash-equal", "a == b but their hashes differ"))
    # multi-step: tokenize first, then substitute a dependency, then compare with a freshly built node
    from dask._task_spec import Task, TaskRef

    for fn in (operator.sub, _f):
        for ka, kb in [("a", "b"), (1, "1"), ("a", 1)]:
            cases += 1
            t = Task("k", fn, TaskRef(ka), TaskRef(kb))
            hash(t)
            _ = t == t
            sw = t.substitute({ka: kb, kb: ka})
            fresh = Task("k", fn, TaskRef(kb), TaskRef(ka))
            same = Task("k", fn, TaskRef(ka), TaskRef(kb))
            for x, name in ((sw, "substituted"),):
                if (x == same) and evaluate(x) != evaluate(same):
                    fails.append(rtc.Failure("Task.substitute", {"func": fn.__name__, "swap": [ka, kb]}, "ensures", "C11-equal-nodes-compute-equal-values", f"node obtained by substitute() after tokenizing compares equal to the original but evaluates to {evaluate(x)!r} vs {evaluate(same)!r}"))
                if (x == fresh) != (evaluate(x) == evaluate(fresh)) and evaluate(x) == evaluate(fresh):
                    fails.append(rtc.Failure("Task.substitute", {"func": fn.__name__, "swap": [ka, kb]}, "ensures", "C11-same-node-same-token", "substitute() result differs from an identical freshly built node"))
    return {"function": "dask/_task_spec.py: GraphNode.__eq__/__hash__/tokens vs __call__ (real code)", "bounded": True,
            "bound": {"nodes": len(nodes), "universe": "Task(sub|f, args from refs/literals/List/Tuple/Set/Dict incl. permutations, key-like refs 1 vs '1', ('x',0) vs its str), kwargs, aliases, data nodes; literals 1/True/1.0/0/False/0.0/-0.0 in every argument position; two functions sharing one importable name"},
            "cases": cases, "distinct_nontrivial": cases, "failures_found": len(fails), "wall_s": round(time.time() - t0, 2),
            "samples": [{"native_case": {"a": "List((1, 2))", "b": "List((2, 1))"}}], "failures": fails[:5]}


# ------------------------------------------------------------------ C08: legacy conversion and pickling
def _g(*args):
    return ("g",) + args


def legacy_terms(depth):
    atoms_ = ["x", ("t", 0), "y", 1, "lit", None, 7, 2.5]  # 7 and 2.5 are KEYS of the base graph (numeric keys), 1 is not
    if depth == 0:
        return atoms_
    sub = legacy_terms(depth - 1)
    out = list(atoms_)
    small = sub if depth == 1 else sub[:14]
    for a in small:
        out.append((_f, a))
        out.append([a])
        out.append((a, "lit2"))          # non-call tuple
        out.append((_g, {"k": a}))       # dict argument of a call
        out.append({"k": a})             # bare dict
    for a, b in itertools.product(small[:8], repeat=2):
        out.append((_f, a, b))
        out.append([a, b])
        out.append((_g, [a], (_f, b)))
    return out


def legacy_ref(t, env, keys):
    """Reference interpreter of the legacy semantics (statement of C08): call tuples are calls, lists (and other
    non-call sequences) are evaluated elementwise, hashable values equal to a key are references."""
    used = set()

    def ev(t, top_arg=False):
        if type(t) is tuple and t and callable(t[0]):
            return t[0](*[ev(a, True) for a in t[1:]])
        try:
            if isinstance(t, (int, float, str, tuple)) and t in keys:
                used.add(t)
                return env[t]
        except TypeError:
            pass
        if isinstance(t, (list, tuple, set, frozenset)):
            return type(t)(ev(a) for a in t)
        if isinstance(t, dict):
            return {k: ev(v) for k, v in t.items()}
        return t

    return ev(t), used


def _has_dict_ref(t, keys):
    """dict (argument) that contains a key reference or a nested task: the recorded finding C08-dict-args"""
    def walk(t, inside):
        if isinstance(t, dict):
            return any(walk(v, True) for v in t.values())
        if type(t) is tuple and t and callable(t[0]):
            return inside or any(walk(a, inside) for a in t[1:])
        try:
            if isinstance(t, (int, float, str, tuple)) and t in keys:
                return inside
        except TypeError:
            pass
        if isinstance(t, (list, tuple, set, frozenset)):
            return any(walk(a, inside) for a in t)
        return False
    return walk(t, False)


def _scribble(v):
    """edit every mutable container reachable from v in place"""
    if isinstance(v, list):
        for x in v:
            _scribble(x)
        v.append("scribble")
    # dicts are left alone: a dict literal is handed out as it is (no elementwise rebuild) -- the same root cause as the
    # recorded finding C08-dict-values-not-evaluated, not reported a second time
    elif isinstance(v, set):
        v.add("scribble")
    elif isinstance(v, tuple):
        for x in v:
            _scribble(x)


def legacy_sweep(tier, seed=0):
    from dask._task_spec import GraphNode, convert_legacy_graph
    from dask.local import get_sync

    t0 = time.time()
    base = {"x": 1, ("t", 0): 10, "y": (_f, "x"), 7: 70, 2.5: 25}
    env = {"x": 1, ("t", 0): 10, "y": _f(1), 7: 70, 2.5: 25}
    keys = set(base) | {"w"}
    cases, fails = 0, []
    for term in legacy_terms(2 if tier != "quick" else 2):
        cases += 1
        dsk = dict(base, w=term)
        try:
            want, used = legacy_ref(term, env, keys - {"w"})
            got = get_sync(dsk, "w")
            import dask.core as _core
            got_core = _core.get(dict(dsk), "w")
            conv = convert_legacy_graph(dsk)
            deps = set(conv["w"].dependencies) if "w" in conv else {term}
            msg = None
            if got != want:
                msg = f"converted graph computes {got!r}, legacy semantics give {want!r}"
            elif got_core != want:
                msg = f"dask.core.get computes {got_core!r}, legacy semantics give {want!r}"
            elif deps != used:
                msg = f"node reports dependencies {sorted(map(repr, deps))}, the term references {sorted(map(repr, used))}"
            else:
                # elementwise evaluation builds NEW containers: editing a returned value must not change what the
                # same graph computes next time
                _scribble(got)
                again = get_sync(dsk, "w")
                if again != want:  # `want` was built from fresh containers before the edit
                    msg = f"after editing the returned value in place, the same graph computes {again!r} instead of {want!r} (a literal container of the graph was handed out)"
        except Exception as e:  # noqa
            msg = f"{type(e).__name__}: {e}"
        if msg:
            fails.append(rtc.Failure("convert_legacy_task", {"term": repr(term), "dict_with_reference": _has_dict_ref(term, keys - {"w"})}, "ensures", "C08-legacy-meaning-preserved", msg))
    # task objects inside a legacy call's dict / list argument (mixed graphs): they are evaluated, whether or not a key is referenced
    from dask._task_spec import DataNode as _DN, List as _L, Task as _T, TaskRef as _TR
    mixed = [((_g, {"a": _T(None, _f, 41), "b": 8}), _g({"a": _f(41), "b": 8})), ((_g, {"a": _DN(None, 5)}), _g({"a": 5})),
             ([(_g, {"a": _L(_T(None, _f, 1), 3)}), 2], [_g({"a": [_f(1), 3]}), 2]), ((_g, {"a": _T(None, _f, _TR("x")), "b": _T(None, _f, 2)}), _g({"a": _f(1), "b": _f(2)})),
             ((_g, [_T(None, _f, 41), 8]), _g([_f(41), 8]))]
    for term, want in mixed:
        cases += 1
        dsk = dict(base, w=term)
        try:
            got = get_sync(dsk, "w")
            msg = None if got == want else f"converted graph computes {got!r}, evaluating the task objects inside the argument gives {want!r}"
        except Exception as e:  # noqa
            msg = f"{type(e).__name__}: {e}"
        if msg:
            fails.append(rtc.Failure("convert_legacy_task", {"term": repr(term), "dict_with_reference": False, "mixed": True}, "ensures", "C08-legacy-meaning-preserved", msg))
    # nested calls whose arguments are equal but of different types (1 == 1.0 == True, 0.0 == -0.0): each call keeps ITS literal
    def _ty(*a):
        return tuple(f"{type(x).__name__}:{x!r}" for x in a)

    for term in [(_g, (_ty, 1), (_ty, 1.0), (_ty, True)), (_g, (_ty, 0.0), (_ty, -0.0)), [(_ty, 1.0), (_ty, 1)], (_g, (_ty, True), [(_ty, 1)]), (_g, (_ty, (1, 2)), (_ty, (1.0, 2.0)))]:
        cases += 1
        dsk = dict(base, w=term)
        try:
            want, _used = legacy_ref(term, env, keys - {"w"})
            import dask.core as _core2
            outs = {"get_sync": get_sync(dsk, "w"), "dask.core.get": _core2.get(dict(dsk), "w")}
            bad = [(h_, v) for h_, v in outs.items() if repr(v) != repr(want)]
            msg = None if not bad else f"{bad[0][0]} computes {bad[0][1]!r}, legacy semantics give {want!r}"
        except Exception as e:  # noqa
            msg = f"{type(e).__name__}: {e}"
        if msg:
            fails.append(rtc.Failure("convert_legacy_task", {"term": repr(term), "dict_with_reference": False, "typed_literals": True}, "ensures", "C08-legacy-meaning-preserved", msg))
    # nested calls that raise: the exception of the legacy semantics (innermost call first) must come out, whatever its
    # type -- StopIteration included -- and never a value
    def _raiser(kind):
        def r(*a):
            raise kind("boom")
        r.__name__ = "raise_" + kind.__name__
        return r

    for kind in (StopIteration, KeyError, ValueError, StopAsyncIteration):
        rz = _raiser(kind)
        for term in [(_f, (rz,)), (_f, 1, (rz,), 3), (_g, [(rz,)]), [1, (rz,), 2], (_f, (_g, (rz, "x"))), (_f, "x", (rz, ("t", 0)))]:
            cases += 1
            dsk = dict(base, w=term)
            outcomes = []
            for how, run in (("get_sync", lambda: get_sync(dsk, "w")), ("dask.core.get", lambda: __import__("dask.core").core.get(dict(dsk), "w"))):
                try:
                    outcomes.append((how, "value", run()))
                except BaseException as e:  # noqa
                    outcomes.append((how, "raised", type(e)))
            bad = [(how, k, v) for how, k, v in outcomes if not (k == "raised" and v is kind)]
            if bad:
                how, k, v = bad[0]
                fails.append(rtc.Failure("convert_legacy_task", {"term": repr(term), "dict_with_reference": False, "raises": kind.__name__}, "ensures", "C08-legacy-meaning-preserved",
                                         f"{how}: a nested call raises {kind.__name__}, but the graph {'returns ' + repr(v) if k == 'value' else 'raises ' + v.__name__}"))
    return {"function": "dask/_task_spec.py:convert_legacy_graph + execution (real code) vs reference legacy interpreter", "bounded": True,
            "bound": {"term depth": 2, "alphabet": "keys x, ('t',0), y, 7, 2.5 (numeric keys); functions f, g; literals 1, 'lit', None; lists, non-call tuples, dict arguments; each graph run again after the returned value was edited in place; run through get_sync and dask.core.get; nested calls raising StopIteration / KeyError / ValueError / StopAsyncIteration"},
            "cases": cases, "distinct_nontrivial": cases, "failures_found": len(fails), "wall_s": round(time.time() - t0, 2),
            "samples": [{"native_case": {"term": "(f, ['x', ('t', 0)])"}}], "failures": fails[:400]}


def pickle_sweep(tier, seed=0):
    t0 = time.time()
    import cloudpickle

    nodes = universe("quick")
    cases, fails = 0, []
    for n in nodes:
        cases += 1
        try:
            m = pickle.loads(cloudpickle.dumps(n))
            msg = None
            if set(m.dependencies) != set(n.dependencies):
                msg = f"dependencies changed by pickling: {sorted(map(repr, n.dependencies))} -> {sorted(map(repr, m.dependencies))}"
            elif evaluate(m) != evaluate(n):
                msg = f"value changed by pickling: {evaluate(n)!r} -> {evaluate(m)!r}"
        except Exception as e:  # noqa
            msg = f"{type(e).__name__}: {e}"
        if msg:
            fails.append(rtc.Failure("Task.__getstate__", {"node": repr(n)}, "ensures", "C08-pickling-preserves-node", msg))
    return {"function": "dask/_task_spec.py: pickling of task nodes (real code)", "bounded": True, "bound": {"nodes": len(nodes)},
            "cases": cases, "distinct_nontrivial": cases, "failures_found": len(fails), "wall_s": round(time.time() - t0, 2),
            "samples": [{"native_case": {"node": "Task('k', f, x=TaskRef('a'), y=TaskRef('b'))"}}], "failures": fails[:5]}


def token_history_sweep(tier, seed=0):
    """C11 over a history: tasks over short-lived callables (closures, lambdas, partials) are built, tokenized and
    released; a later task over a DIFFERENT callable must not come out equal / with the same token (an identity that
    leans on the address of a dead object would)."""
    import functools
    import gc

    from dask._task_spec import List, Task, TaskRef
    from dask.tokenize import tokenize

    t0 = time.time()
    cases, fails = 0, []

    def mk(i):
        if i % 3 == 0:
            return lambda x, n=i: x + n
        if i % 3 == 1:
            def clo(x):
                return x * i
            return clo
        return functools.partial(operator.add, i)

    seen = {}   # token -> (value on 5, description)
    rounds = 400 if tier == "quick" else 4000
    for i in range(rounds):
        cases += 1
        f = mk(i)
        t = Task("k", f, TaskRef("x"))
        node = t if i % 2 else List(t, 1)
        tok = tokenize(node)
        val = repr(node({"x": 5}))
        hash(t)
        old = seen.get(tok)
        if old is not None and old[0] != val:
            fails.append(rtc.Failure("Task._get_token", {"round": i, "callable": type(f).__name__}, "ensures", "C11-equal-nodes-compute-equal-values",
                                     f"a task built in round {i} has the token of one built (and released) in round {old[1]}, but computes {val} instead of {old[0]}"))
            break
        seen[tok] = (val, i)
        del f, t, node
        if i % 7 == 0:
            gc.collect()
    return {"function": "dask/_task_spec.py: tokens of tasks over short-lived callables (real code)", "bounded": True, "bound": {"rounds": rounds, "callables": "lambda with default / closure / functools.partial, each released before the next is built"},
            "cases": cases, "distinct_nontrivial": cases, "failures_found": len(fails), "wall_s": round(time.time() - t0, 2),
            "samples": [{"native_case": {"round": 1, "callable": "function"}}], "failures": fails[:3]}


def fresh_process_sweep(tier, seed=0):
    """The congruence sweep again in fresh interpreters in which a different kind of node is the first thing ever
    tokenized (Dict / Set / Task / Alias): dispatch tables that cache per class must not make identity depend on history."""
    import json
    import subprocess
    import sys

    t0 = time.time()
    cases, fails = 0, []
    code = ("import json, sys; sys.path[:0] = %r; from vf import spec_native as S; r = S.congruence_sweep('quick'); "
            "print('RESULT ' + json.dumps({'cases': r['cases'], 'fails': [[f.args, f.detail] for f in r['failures'][:2]]}))") % ([p for p in sys.path if p],)
    for first in ("Dict", "Set", "Tuple", "Task", "Alias"):
        cases += 1
        env = dict(os.environ, VF_UNIVERSE_ORDER=first)
        try:
            out = subprocess.run([sys.executable, "-c", code], capture_output=True, text=True, timeout=600, env=env)
            line = [ln for ln in out.stdout.splitlines() if ln.startswith("RESULT ")]
            if not line:
                fails.append(rtc.Failure("GraphNode.__eq__", {"first_tokenized": first}, "exception", "crash", (out.stderr or out.stdout)[-300:]))
                continue
            res = json.loads(line[0][7:])
            cases += res["cases"]
            for a, d in res["fails"]:
                fails.append(rtc.Failure("GraphNode.__eq__", dict(a, first_tokenized=first), "ensures", "C11-equal-nodes-compute-equal-values", f"in a fresh process whose first tokenized node is a {first}: {d}"))
        except subprocess.TimeoutExpired:
            fails.append(rtc.Failure("GraphNode.__eq__", {"first_tokenized": first}, "timeout", "crash", "sweep did not finish in 600 s"))
    return {"function": "dask/_task_spec.py + dask/tokenize.py: identity of nodes in fresh processes (real code)", "bounded": True, "bound": {"fresh interpreters": 5, "first tokenized kind": "Dict / Set / Tuple / Task / Alias"},
            "cases": cases, "distinct_nontrivial": cases, "failures_found": len(fails), "wall_s": round(time.time() - t0, 2),
            "samples": [{"native_case": {"first_tokenized": "Dict"}}], "failures": fails[:4]}
