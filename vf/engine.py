"""Statement execution, loop cutting, function verification."""
import ast
import re

import z3

from . import ty as T
from .calls import CallMixin, State_from, _parse
from .core import SV, Alias, FuncVal, Outcome, State, Unsupported, fresh, fresh_name, psum_axioms
from .expr import MUTATORS, ExprMixin
from .solve import Obligation

NONE = SV(T.NoneT.value(), T.NoneT)

EXC_PARENTS = {
    "BaseException": None, "Exception": "BaseException", "KeyboardInterrupt": "BaseException",
    "ValueError": "Exception", "KeyError": "LookupError", "IndexError": "LookupError",
    "LookupError": "Exception", "TypeError": "Exception", "ZeroDivisionError": "ArithmeticError",
    "ArithmeticError": "Exception", "RuntimeError": "Exception", "NotImplementedError": "RuntimeError",
    "AssertionError": "Exception", "TaskError": "BaseException",
}


def exc_matches(exc, handler):
    e = exc
    while e is not None:
        if e == handler:
            return True
        e = EXC_PARENTS.get(e, "Exception" if e not in ("BaseException",) else None)
        if e == exc:
            break
    return False


class Contract:
    def __init__(self, file, qualname, **kw):
        self.file = file
        self.qualname = qualname
        self.name = qualname.split(".")[-1]
        self.source = kw.get("source", qualname)
        self.immutable = kw.get("immutable", [])  # parameters whose object the function must not modify in place
        self.exceptions_not_checked = kw.get("exceptions_not_checked", False)  # partial correctness of normal runs only (stated in the evidence)
        self.narrow = kw.get("narrow", [])  # union-typed variables that `if isinstance(v, C):` re-types to their alternative (flow typing)  # the function whose source is verified (several contracts may share one)
        self.params = kw.get("params", {})
        self.defaults = kw.get("defaults", {})
        self.free = kw.get("free", {})
        self.locals = kw.get("locals", {})
        self.returns = kw.get("returns")
        self.requires = _labelled(kw.get("requires", []), "R")
        self.ensures = _labelled(kw.get("ensures", []), "E")
        self.raises = [tuple(r) + ((f"X{i}",) if len(r) == 2 else ()) for i, r in enumerate(kw.get("raises", []))]
        self.raises_post = kw.get("raises_post", {})  # exc -> [(label, src)] must hold when raised
        self.frame = kw.get("frame", [])
        self.loops = kw.get("loops", {})
        self.ghost = kw.get("ghost", [])  # [(where, anchor, code)]
        self.assumed = kw.get("assumed", False)  # external: contract is assumed, body not verified
        self.fragment = kw.get("fragment")  # optional selector -> list of stmts
        self.axioms = kw.get("axioms", [])
        self.note = kw.get("note", "")
        self.drop = kw.get("drop", [])  # statements dropped by extraction (unparsed-prefix match)
        self.decreases = kw.get("decreases")
        self.min_obligations = kw.get("min_obligations", 1)
        self.exit_unreachable = kw.get("exit_unreachable", False)  # proof by contradiction lemmas


def _labelled(items, prefix):
    out = []
    for i, it in enumerate(items):
        if isinstance(it, tuple):
            out.append(it)
        else:
            out.append((f"{prefix}{i}", it))
    return out


class Engine(ExprMixin, CallMixin):
    def __init__(self, module_name="", enums=(), consts=None, funcs=None, spec_funcs=None, user_order=None):
        self.module_name = module_name
        self.enums = list(enums)
        self.consts = consts or {}
        self.funcs = funcs or {}
        self.spec_funcs = spec_funcs or {}
        self.spec_types = {}
        self.user_order = user_order or {}
        self.attr_models = {}
        self.dict_records = set()  # Rec types that model dicts with a fixed universe of optional string keys
        self.nullable_sorts = set()  # opaque sorts whose values may be Python's None
        self.callable_sorts = {}
        self.isinstance_static = {}
        self.mutable_records = set()
        self.uninterp_divmod = False
        self.obligations = []
        self.guards = []
        self.bound = {}
        self.spec_mode = False
        self.result_sv = None
        self.used_models = set()
        self.called_contracts = set()
        self.pending_raises = []
        self.cur = None  # contract being verified
        self.axioms = []
        self.psum_enabled = False
        self.unroll = False
        self.max_paths = 4000
        self.npaths = 0
        self._names = {}
        self._seqset = {}
        self.heavy_ids = set()
        self.qscope = []
        self.always_truthy = set()
        self.isinstance_dynamic = {}
        self.defaultdicts = set()
        self.fstring_model = None

    # ------------------------------------------------------------------ obligations
    def emit(self, st, goal, kind, node, label=""):
        fn = self.cur.qualname if self.cur else "?"
        where = ""
        if node is not None and hasattr(node, "lineno"):
            try:
                where = f"L{node.lineno}: {ast.unparse(node)[:80]}"
            except Exception:
                where = f"L{getattr(node, 'lineno', '?')}"
        base = f"{self.module_name}:{fn}/{kind}"
        if label:
            base += f"[{label}]"
        elif node is not None and kind.startswith("safety"):
            try:
                base += f"@{ast.unparse(node)[:40]}"
            except Exception:
                pass
        n = self._names.get(base, 0)
        self._names[base] = n + 1
        ob = Obligation(f"{base}#p{n}", self.axioms + list(st.pc), goal, kind, where, fn)
        ob.group = base
        ob.heavy_ids = self.heavy_ids
        ob.trail = list(st.trail)
        self.obligations.append(ob)
        return ob

    def feasible(self, st, extra=None):
        """Path pruning.  Only the quantifier-free part of the path condition is used: refuting a subset
        of the hypotheses is sound for pruning, fast and deterministic (no instantiation heuristics);
        a path that is infeasible for deeper reasons is kept and its obligations hold vacuously."""
        s = z3.Solver()
        s.set("rlimit", 2000000)  # deterministic budget (not wall-clock)
        for h in st.pc:
            if not _has_quant(h):
                s.add(h)
        if extra is not None:
            s.add(extra)
        return s.check() != z3.unsat

    # ------------------------------------------------------------------ statements
    def exec_block(self, stmts, st):
        """-> list of Outcome"""
        outs = []
        live = [st]
        for stmt in stmts:
            nxt = []
            for s in live:
                for o in self.exec_stmt_ghosted(stmt, s):
                    if o.kind == "normal":
                        nxt.append(o.st)
                    else:
                        outs.append(o)
            live = nxt
            if not live:
                break
        outs.extend(Outcome("normal", s) for s in live)
        return outs

    def exec_stmt_ghosted(self, stmt, st):
        dropped = False
        if self.cur is not None and self.cur.drop:
            txt = ast.unparse(stmt)
            if any(txt.startswith(d) for d in self.cur.drop):
                self.dropped.add(txt.splitlines()[0][:80])
                dropped = True
        before, after = self.ghost_for(stmt)
        sts = [st]
        for code in before:
            sts = self.run_ghost(code, sts)
        outs = []
        for s in sts:
            if dropped:
                outs.append(Outcome("normal", s))
            else:
                outs.extend(self.exec_stmt(stmt, s))
        if after:
            res = []
            for o in outs:
                if o.kind == "normal":
                    for s2 in self.run_ghost_many(after, [o.st]):
                        res.append(Outcome("normal", s2))
                else:
                    res.append(o)
            outs = res
        return outs

    def ghost_for(self, stmt):
        if self.cur is None or not self.cur.ghost:
            return [], []
        txt = None
        before, after = [], []
        for where, anchor, code in self.cur.ghost:
            if where not in ("before", "after"):
                continue
            if txt is None:
                txt = ast.unparse(stmt)
            if txt.startswith(anchor) if not anchor.startswith("=") else txt == anchor[1:]:
                self.ghost_hits.add((where, anchor))
                (before if where == "before" else after).append(code)
        return before, after

    def run_ghost_many(self, codes, sts):
        for c in codes:
            sts = self.run_ghost(c, sts)
        return sts

    def run_ghost(self, code, sts):
        """Ghost code: assume(e) is NOT available; only assert_(e) (an obligation, then usable),
        lemma calls (contracted ghost functions), and assignments to ghost variables."""
        tree = ast.parse(_dedent(code))
        res = []
        for st in sts:
            self.in_ghost += 1
            try:
                outs = self.exec_block(tree.body, st)
            finally:
                self.in_ghost -= 1
            for o in outs:
                if o.kind != "normal":
                    raise Unsupported("ghost code must fall through")
                res.append(o.st)
        return res

    def drain_raises(self, outs):
        if self.pending_raises:
            outs = list(self.pending_raises) + outs
            self.pending_raises = []
        return outs

    def exec_stmt(self, stmt, st):
        self.npaths += 1
        if self.npaths > self.max_paths:
            raise Unsupported("path explosion")
        m = getattr(self, "st_" + type(stmt).__name__, None)
        if m is None:
            raise Unsupported(f"statement {type(stmt).__name__}: {ast.unparse(stmt)[:60]}")
        st = st.copy()
        outs = m(stmt, st)
        return self.drain_raises(outs)

    def st_Pass(self, stmt, st):
        return [Outcome("normal", st)]

    def st_Expr(self, stmt, st):
        v = stmt.value
        if isinstance(v, ast.Constant):
            return [Outcome("normal", st)]  # docstring
        # ghost / spec statements
        if isinstance(v, ast.Call) and isinstance(v.func, ast.Name) and v.func.id == "assert_" and self.in_ghost:
            with self.spec():
                c = self.truthy(self.ev(v.args[0], st))
            label = v.args[1].value if len(v.args) > 1 else "ghost"
            self.emit(st, c, "ghost-assert", stmt, label)
            st.assume(c)
            return [Outcome("normal", st)]
        if isinstance(v, ast.Call) and isinstance(v.func, ast.Name) and v.func.id == "assume_" and self.in_ghost:
            # only used for *named* trusted facts; each use is listed in the evidence
            with self.spec():
                c = self.truthy(self.ev(v.args[0], st))
            self.assumes_used.add(ast.unparse(v)[:200])
            st.assume(c)
            return [Outcome("normal", st)]
        if isinstance(v, ast.Yield):
            # a @contextmanager generator: at `yield` control goes to the body of the caller's `with` statement, which may do
            # anything its (assumed) contract allows, including raising into the generator.  The contract module names that
            # contract as funcs["yield_body"]; the yielded value itself is not interpreted.
            fv = self.funcs.get("yield_body")
            if fv is None or fv.kind != "contract":
                raise Unsupported("yield without a yield_body contract")
            call = ast.Call(func=ast.Name(id="yield_body", ctx=ast.Load()), args=[], keywords=[])
            ast.copy_location(call, stmt)
            ast.fix_missing_locations(call)
            self.call_contract(fv.info, call, st, None)
            return self.drain_raises([Outcome("normal", st)])
        # defaultdict auto-insert:  `d[k]` as an expression statement
        if isinstance(v, ast.Subscript):
            lv = self.lvalue(v.value, st)
            if lv is not None:
                base = self.read_path(st, *lv)
                if isinstance(base.ty, T.Map) and self.is_defaultdict(lv):
                    k = self.ev(v.slice, st, base.ty.key)
                    self.defaultdict_touch(st, lv, base, k)
                    return [Outcome("normal", st)]
        self.ev(v, st)
        return [Outcome("normal", st)]

    def is_defaultdict(self, lv):
        return (lv[0], tuple(s for _, s in lv[1] if isinstance(s, str))) in self.defaultdicts

    def defaultdict_touch(self, st, lv, base, k):
        ty = base.ty
        dom, val = ty.dom(base.t), ty.valarr(base.t)
        dflt = self.defaultdict_default(ty.val)
        new = ty.mk(z3.Store(dom, k.t, True), z3.If(z3.Select(dom, k.t), val, z3.Store(val, k.t, dflt)))
        self.write_path(st, lv[0], lv[1], SV(new, ty))

    def defaultdict_default(self, vty):
        if isinstance(vty, T.Set):
            return vty.empty()
        raise Unsupported("defaultdict factory")

    def st_Assert(self, stmt, st):
        c = self.truthy(self.ev(stmt.test, st))
        self.emit(st, c, "assert", stmt)
        st.assume(c)
        return [Outcome("normal", st)]

    def st_Assign(self, stmt, st):
        if len(stmt.targets) != 1:
            # a = b = expr
            v = self.eval_rhs(stmt.value, st, None)
            for t in stmt.targets:
                self.assign(t, v, st, stmt)
            return [Outcome("normal", st)]
        tgt = stmt.targets[0]
        if isinstance(tgt, (ast.Tuple, ast.List)) and isinstance(stmt.value, (ast.Tuple, ast.List)) and len(tgt.elts) == len(stmt.value.elts) \
                and not any(isinstance(e, ast.Starred) for e in list(tgt.elts) + list(stmt.value.elts)):
            # a, b = x, y : all right-hand sides first (each typed by its target), then the assignments left to right
            wants = []
            for t in tgt.elts:
                w = None
                if isinstance(t, ast.Name):
                    w = self.local_type(t.id, st)
                elif isinstance(t, ast.Attribute):
                    lv = self.lvalue(t.value, st)
                    if lv is not None:
                        b = self.read_path(st, *lv)
                        if isinstance(b, SV) and isinstance(b.ty, T.Rec):
                            w = b.ty.fields.get(t.attr)
                wants.append(w)
            vals = [self.deref(st, self.eval_rhs(e, st, w)) for e, w in zip(stmt.value.elts, wants)]
            for t, v in zip(tgt.elts, vals):
                self.assign(t, v, st, stmt)
            return [Outcome("normal", st)]
        want = None
        if isinstance(tgt, ast.Name):
            want = self.local_type(tgt.id, st)
        elif isinstance(tgt, ast.Subscript):
            lv = self.lvalue(tgt.value, st)
            if lv is not None:
                b = self.read_path(st, *lv)
                if isinstance(b.ty, T.Map):
                    want = b.ty.val
                elif isinstance(b.ty, T.Seq):
                    want = b.ty.elem
                elif isinstance(b.ty, T.Rec) and isinstance(tgt.slice, ast.Constant):
                    want = b.ty.fields.get(tgt.slice.value)
        elif isinstance(tgt, ast.Attribute):
            # obj.field = dict() / [] / set(): the declared type of the field tells what the empty container is
            lv = self.lvalue(tgt.value, st)
            if lv is not None:
                b = self.read_path(st, *lv)
                if isinstance(b.ty, T.Rec):
                    want = b.ty.fields.get(tgt.attr)
        v = self.eval_rhs(stmt.value, st, want)
        self.assign(tgt, v, st, stmt)
        return [Outcome("normal", st)]

    def st_AnnAssign(self, stmt, st):
        # annotations are dropped by the extraction; the assignment itself is kept
        if stmt.value is None:
            return [Outcome("normal", st)]
        a = ast.Assign(targets=[stmt.target], value=stmt.value)
        ast.copy_location(a, stmt)
        return self.st_Assign(ast.fix_missing_locations(a), st)

    def local_type(self, name, st):
        if self.cur is not None and name in self.cur.locals:
            return self.cur.locals[name]
        return None

    def eval_rhs(self, node, st, want):
        # aliasing: x = <path to mutable container inside another variable>
        # (ghost assignments snapshot the value instead: ghost variables never alias program state)
        if not self.in_ghost and isinstance(node, (ast.Name, ast.Subscript, ast.Attribute)) and not (
            isinstance(node, ast.Subscript) and isinstance(node.slice, ast.Slice)
        ):
            lv = self.lvalue(node, st)
            if lv is not None:
                v = self.read_path(st, *lv)
                if isinstance(v, SV) and self.is_mutable(v.ty):
                    self.ev(node, st)  # safety obligations of the read
                    return Alias(lv[0], lv[1])
        return self.ev(node, st, want)

    def assign(self, tgt, v, st, stmt):
        if isinstance(tgt, ast.Name):
            self.rebind(st, tgt.id)
            if not self.in_ghost:
                st.rebound.add(tgt.id)
            lt = self.local_type(tgt.id, st)
            if lt is not None and isinstance(v, SV) and v.ty != lt:
                v = self.coerce(v, lt, st, stmt)
            if isinstance(v, Alias):
                if v.root == tgt.id and not v.sels:
                    return
                st.env[tgt.id] = v
            else:
                st.env[tgt.id] = v
            return
        if isinstance(tgt, (ast.Tuple, ast.List)):
            vv = self.deref(st, v)
            if isinstance(vv.ty, T.Tup):
                if len(vv.ty.items) != len(tgt.elts):
                    raise Unsupported("unpack arity")
                for j, e in enumerate(tgt.elts):
                    self.assign(e, SV(vv.ty.get(vv.t, j), vv.ty.items[j]), st, stmt)
                return
            if isinstance(vv.ty, T.Seq):
                n = len(tgt.elts)
                self.check(st, vv.ty.len(vv.t) == n, "ValueError(unpack)", stmt)
                for j, e in enumerate(tgt.elts):
                    self.assign(e, SV(z3.Select(vv.ty.arr(vv.t), j), vv.ty.elem), st, stmt)
                return
            raise Unsupported(f"unpack of {vv.ty}")
        if isinstance(tgt, ast.Subscript):
            lv = self.lvalue(tgt.value, st)
            if lv is None:
                raise Unsupported("assignment into a temporary")
            base = self.read_path(st, *lv)
            vv = self.deref(st, v)
            self.note_mutation(st, lv[0], stmt)
            if isinstance(base.ty, T.Rec) and isinstance(tgt.slice, ast.Constant):
                self.write_path(st, lv[0], lv[1] + [("field", tgt.slice.value)], vv, stmt)
                return
            k = self.ev(tgt.slice, st)
            if isinstance(base.ty, T.Map):
                kk = self.coerce(k, base.ty.key)
                nv = self.coerce(vv, base.ty.val)
                new = base.ty.mk(z3.Store(base.ty.dom(base.t), kk.t, True), z3.Store(base.ty.valarr(base.t), kk.t, nv.t))
                self.write_path(st, lv[0], lv[1], SV(new, base.ty), stmt)
                return
            self.write_path(st, lv[0], lv[1] + [("idx", k)], vv, stmt)
            return
        if isinstance(tgt, ast.Attribute):
            lv = self.lvalue(tgt.value, st)
            if lv is None:
                raise Unsupported("attribute assignment on a temporary")
            self.note_mutation(st, lv[0], stmt)
            self.write_path(st, lv[0], lv[1] + [("field", tgt.attr)], self.deref(st, v), stmt)
            return
        raise Unsupported(f"assignment target {type(tgt).__name__}")

    def rebind(self, st, name):
        """Rebinding `name`: aliases rooted at it must keep the old object."""
        users = [k for k, v in st.env.items() if isinstance(v, Alias) and v.root == name and k != name]
        if users and name in st.env and isinstance(st.env[name], SV):
            if len(users) > 1:
                raise Unsupported(f"rebinding {name} with several live aliases")
            u = users[0]
            st.env[u] = self.read_path(st, name, st.env[u].sels)

    def st_AugAssign(self, stmt, st):
        binop = ast.BinOp(left=_load(stmt.target), op=stmt.op, right=stmt.value)
        ast.copy_location(binop, stmt)
        ast.fix_missing_locations(binop)
        # list += list mutates in place (aliases see it); ints rebind: both handled by write-through
        v = self.ev(binop, st)
        lv = self.lvalue(stmt.target, st) if not isinstance(stmt.target, ast.Name) else None
        if isinstance(stmt.target, ast.Name):
            cur = st.env.get(stmt.target.id)
            if isinstance(cur, Alias):
                self.write_path(st, cur.root, cur.sels, v, stmt)
            else:
                lt = self.local_type(stmt.target.id, st)
                if lt is not None and isinstance(v, SV) and v.ty != lt:
                    v = self.coerce(v, lt, st, stmt)
                st.env[stmt.target.id] = v
        else:
            self.assign(stmt.target, v, st, stmt)
        return [Outcome("normal", st)]

    def st_Delete(self, stmt, st):
        for tgt in stmt.targets:
            if not isinstance(tgt, ast.Subscript):
                raise Unsupported("del of non-subscript")
            lv = self.lvalue(tgt.value, st)
            base = self.read_path(st, *lv)
            if not isinstance(base.ty, T.Map):
                raise Unsupported("del on non-dict")
            k = self.ev(tgt.slice, st, base.ty.key)
            self.note_mutation(st, lv[0], stmt)
            self.check(st, z3.Select(base.ty.dom(base.t), k.t), "KeyError(del)", stmt)
            new = base.ty.mk(z3.Store(base.ty.dom(base.t), k.t, False), base.ty.valarr(base.t))
            self.write_path(st, lv[0], lv[1], SV(new, base.ty), stmt)
        return [Outcome("normal", st)]

    def st_Return(self, stmt, st):
        if stmt.value is None:
            return [Outcome("return", st, NONE)]
        want = self.cur.returns if self.cur is not None else None
        v = self.deref(st, self.eval_rhs(stmt.value, st, want))
        return [Outcome("return", st, v)]

    def st_Raise(self, stmt, st):
        exc = "Exception"
        val = None
        if stmt.exc is not None:
            e = stmt.exc
            if isinstance(e, ast.Call) and isinstance(e.func, ast.Name):
                exc = e.func.id
            elif isinstance(e, ast.Name):
                if e.id in st.env:
                    val = self.read_name(st, e.id)
                    exc = self.exc_class_of(val)
                else:
                    exc = e.id
        return [Outcome("raise", st, val, exc)]

    def exc_class_of(self, val):
        return getattr(val, "exc_class", "BaseException")

    def st_If(self, stmt, st):
        c = self.truthy(self.ev(stmt.test, st))
        outs = self.drain_raises([])
        c = z3.simplify(c)
        narrow = self.isinstance_narrowing(stmt.test, st)
        for branch, cond, tag in ((stmt.body, c, "T"), (stmt.orelse, z3.Not(c), "F")):
            if z3.is_false(z3.simplify(cond)):
                continue
            s2 = st.copy()
            s2.assume(cond)
            if tag == "T" and narrow is not None:
                s2.env[narrow[0]] = narrow[1]  # flow typing: the same object, seen at its dynamic type
            s2.trail.append(f"L{stmt.lineno}:{tag}")
            if not z3.is_true(z3.simplify(cond)) and not self.feasible(s2):
                continue
            outs.extend(self.exec_block(branch, s2))
        return outs

    def isinstance_narrowing(self, test, st):
        """`if isinstance(x, C):` on a union-typed variable whose alternative for C is unique -> (name, projected value)."""
        if not (isinstance(test, ast.Call) and isinstance(test.func, ast.Name) and test.func.id == "isinstance" and len(test.args) == 2
                and isinstance(test.args[0], ast.Name)):
            return None
        name = test.args[0].id
        if self.cur is None or name not in self.cur.narrow:
            return None
        v = st.env.get(name)
        if not (isinstance(v, SV) and isinstance(v.ty, T.Union)):
            return None
        cls = test.args[1]
        names = [ast.unparse(e) for e in cls.elts] if isinstance(cls, ast.Tuple) else [ast.unparse(cls)]
        tags = []
        for n in names:
            tags += v.ty.classes.get(n, [])
        tags = list(dict.fromkeys(tags))
        if len(tags) != 1:
            return None
        return name, SV(v.ty.proj(tags[0], v.t), v.ty.alts[tags[0]])

    def st_FunctionDef(self, stmt, st):
        # closures are verified separately under their own contract; calls go through it
        qn = f"{self.cur.qualname}.{stmt.name}" if self.cur else stmt.name
        c = self.contracts.get(qn)
        if c is None:
            raise Unsupported(f"nested function {stmt.name} has no contract")
        st.env[stmt.name] = FuncVal(stmt.name, "contract", c)
        return [Outcome("normal", st)]

    def st_Global(self, stmt, st):
        return [Outcome("normal", st)]

    st_Nonlocal = st_Global

    def st_Try(self, stmt, st):
        outs = self.exec_block(stmt.body, st)
        res = []
        for o in outs:
            if o.kind == "raise" and stmt.handlers:
                handled = False
                for h in stmt.handlers:
                    hname = ast.unparse(h.type) if h.type is not None else "BaseException"
                    if exc_matches(o.exc, hname):
                        s2 = o.st.copy()
                        if h.name:
                            s2.env[h.name] = o.value if o.value is not None else fresh(T.U("Exc"), "exc")
                        res.extend(self.exec_block(h.body, s2))
                        handled = True
                        break
                if not handled:
                    res.append(o)
            elif o.kind == "normal" and stmt.orelse:
                res.extend(self.exec_block(stmt.orelse, o.st))
            else:
                res.append(o)
        if not stmt.finalbody:
            return res
        final = []
        for o in res:
            saved_flag = self.finally_kind
            self.finally_kind = o.kind
            s2 = o.st.copy()
            s2.env["exiting_by_exception"] = SV(z3.BoolVal(o.kind == "raise"), T.Bool)  # ghost: how the try block ended
            fouts = self.exec_block(stmt.finalbody, s2)
            self.finally_kind = saved_flag
            for fo in fouts:
                if fo.kind == "normal":
                    fo.st.env.pop("exiting_by_exception", None)
                    final.append(Outcome(o.kind, fo.st, o.value, o.exc))
                else:
                    final.append(fo)
        return final

    def st_With(self, stmt, st):
        if len(stmt.items) != 1:
            raise Unsupported("multi-item with")
        item = stmt.items[0]
        ce = item.context_expr
        if not (isinstance(ce, ast.Call) and isinstance(ce.func, ast.Name)):
            raise Unsupported("with on non-call")
        cm = self.context_managers.get(ce.func.id)
        if cm is None:
            raise Unsupported(f"context manager {ce.func.id} has no contract")
        enter, exit_ = cm
        v = enter(self, st, ce)
        if item.optional_vars is not None:
            self.assign(item.optional_vars, v, st, stmt)
        outs = self.exec_block(stmt.body, st)
        res = []
        for o in outs:
            exit_(self, o.st, o.kind)
            res.append(o)
        return res

    # ------------------------------------------------------------------ loops
    def loop_info(self, stmt):
        ordn = self.loop_ordinals.get(id(stmt))
        spec = (self.cur.loops.get(ordn) if self.cur else None) or {}
        return ordn, spec

    def modified_names(self, body, st):
        """Syntactic over-approximation of the variables a loop body may change."""
        mods = set()
        alias_of = {}

        def base_name(n):
            while isinstance(n, (ast.Subscript, ast.Attribute)):
                n = n.value
            return n.id if isinstance(n, ast.Name) else None

        def mark(name):
            if name is None:
                return
            mods.add(name)
            seen = set()
            while name in alias_of and name not in seen:
                seen.add(name)
                name = alias_of[name]
                mods.add(name)

        def targets(t):
            if isinstance(t, ast.Name):
                mark(t.id)
            elif isinstance(t, (ast.Tuple, ast.List)):
                for e in t.elts:
                    targets(e)
            elif isinstance(t, (ast.Subscript, ast.Attribute)):
                mark(base_name(t))
            elif isinstance(t, ast.Starred):
                targets(t.value)

        class V(ast.NodeVisitor):
            def visit_FunctionDef(v, node):
                pass

            def visit_Lambda(v, node):
                pass

            def visit_Assign(v, node):
                for t in node.targets:
                    targets(t)
                    if isinstance(t, ast.Name) and isinstance(node.value, (ast.Name, ast.Subscript, ast.Attribute)) and not (
                        isinstance(node.value, ast.Subscript) and isinstance(node.value.slice, ast.Slice)
                    ):
                        b = base_name(node.value)
                        sty = self.static_type(node.value, st)
                        immut = sty is not None and not self.is_mutable(sty)
                        if b and b != t.id and not immut:
                            alias_of[t.id] = b
                v.generic_visit(node)

            def visit_AugAssign(v, node):
                targets(node.target)
                v.generic_visit(node)

            def visit_Delete(v, node):
                for t in node.targets:
                    targets(t)

            def visit_For(v, node):
                targets(node.target)
                v.generic_visit(node)

            def visit_With(v, node):
                for it in node.items:
                    if it.optional_vars is not None:
                        targets(it.optional_vars)
                v.generic_visit(node)

            def visit_Expr(v, node):
                if isinstance(node.value, ast.Subscript):
                    mark(base_name(node.value))  # defaultdict auto-insert
                v.generic_visit(node)

            def visit_Call(v, node):
                f = node.func
                if isinstance(f, ast.Attribute) and f.attr in MUTATORS:
                    mark(base_name(f.value))
                if isinstance(f, ast.Name):
                    bv_ = st.env.get(f.id)
                    if isinstance(bv_, FuncVal) and bv_.kind == "bound" and bv_.info.attr in MUTATORS:
                        mark(base_name(bv_.info.value))
                fname = ast.unparse(f)
                c = self.lookup_contract_for_call(fname, st)
                if c is not None:
                    pn = list(c.params)
                    amap = {}
                    for i, a in enumerate(node.args):
                        if i < len(pn):
                            amap[pn[i]] = a
                    for kw in node.keywords:
                        amap[kw.arg] = kw.value
                    for fr in c.frame:
                        if fr in amap:
                            mark(base_name(amap[fr]))
                        elif fr in c.free:
                            mark(fr)
                v.generic_visit(node)

        vis = V()
        for s in body:
            vis.visit(s)
        # two passes so aliases declared later in the body are applied to earlier mutations
        for s in body:
            vis.visit(s)
        # aliases already live at loop entry
        for name in list(mods):
            v = st.env.get(name)
            if isinstance(v, Alias):
                mods.add(v.root)
        # ghost code attached to statements of the body
        if self.cur is not None:
            inner = [n for s in body for n in ast.walk(s) if isinstance(n, ast.stmt)]
            texts = None
            codes = []
            for where, anchor, code in self.cur.ghost:
                if where not in ("before", "after"):
                    continue
                if texts is None:
                    texts = [ast.unparse(n) for n in inner]
                if any((t == anchor[1:]) if anchor.startswith("=") else t.startswith(anchor) for t in texts):
                    codes.append(code)
            for n in inner:
                if isinstance(n, (ast.For, ast.While)):
                    sp = self.cur.loops.get(self.loop_ordinals.get(id(n)), {}) or {}
                    codes.extend(sp.get("begin", []))
                    codes.extend(sp.get("end", []))
            for code in codes:
                for s in ast.parse(_dedent(code)).body:
                    vis.visit(s)
        return mods

    def static_type(self, node, st):
        """Type of a Name/Subscript/Attribute chain from the declared types (None if unknown)."""
        if isinstance(node, ast.Name):
            v = st.env.get(node.id)
            if isinstance(v, SV):
                return v.ty
            if isinstance(v, Alias):
                try:
                    return self.read_path(st, v.root, v.sels).ty
                except Exception:
                    return None
            return self.local_type(node.id, st)
        if isinstance(node, ast.Subscript):
            bt = self.static_type(node.value, st)
            if isinstance(bt, T.Opt):
                bt = bt.inner
            if isinstance(node.slice, ast.Slice):
                return bt
            if isinstance(bt, T.Seq):
                return bt.elem
            if isinstance(bt, T.Map):
                return bt.val
            if isinstance(bt, T.Rec) and isinstance(node.slice, ast.Constant):
                return bt.fields.get(node.slice.value)
            return None
        if isinstance(node, ast.Attribute):
            bt = self.static_type(node.value, st)
            if isinstance(bt, T.Rec):
                return bt.fields.get(node.attr)
            return None
        return None

    def lookup_contract_for_call(self, fname, st):
        v = st.env.get(fname) if fname in st.env else self.funcs.get(fname)
        if isinstance(v, FuncVal) and v.kind == "contract":
            return v.info
        return None

    def havoc(self, st, names):
        for n in sorted(names):
            v = st.env.get(n)
            if v is None:
                lt = self.local_type(n, st)
                if lt is not None:
                    st.env[n] = fresh(lt, n)
                continue
            if isinstance(v, Alias) and self.cur is not None and v.root in self.cur.immutable and v.root not in st.rebound:
                # still the caller's object under another name: keep the alias, so that a modification through it
                # inside the loop is seen as a modification of the argument
                continue
            if isinstance(v, Alias):
                # the alias will be re-established by the body before use; forget it
                lt = self.local_type(n, st)
                if lt is not None:
                    st.env[n] = fresh(lt, n)
                else:
                    del st.env[n]
                continue
            if isinstance(v, SV):
                st.env[n] = fresh(v.ty, n)

    def check_invariants(self, st, spec, ordn, phase, node):
        for label, src in _labelled(spec.get("invariant", []), "I"):
            with self.spec():
                c = self.truthy(self.ev(_parse(src), st))
            self.emit(st, c, f"inv-{phase}", node, f"loop{ordn}:{label}")

    def assume_invariants(self, st, spec):
        for label, src in _labelled(spec.get("invariant", []), "I"):
            with self.spec():
                st.assume(self.truthy(self.ev(_parse(src), st)))

    def st_While(self, stmt, st):
        ordn, spec = self.loop_info(stmt)
        if stmt.orelse:
            raise Unsupported("while-else")
        if self.unroll:
            return self.unroll_while(stmt, st)
        outs = []
        self.check_invariants(st, spec, ordn, "entry", stmt)
        mods = self.modified_names(stmt.body, st)
        dec0 = None
        s = st.copy()
        self.havoc(s, mods)
        self.assume_invariants(s, spec)
        c = self.truthy(self.ev(stmt.test, s))
        outs = self.drain_raises(outs)
        # exit path
        sx = s.copy()
        sx.assume(z3.Not(c))
        sx.trail.append(f"loop{ordn}:exit")
        after = [sx] if self.feasible(sx) else []
        # body path
        sb = s.copy()
        sb.assume(c)
        sb.trail.append(f"loop{ordn}:body")
        if spec.get("decreases"):
            # a single measure, or a tuple/list of measures compared lexicographically (each component bounded below by 0)
            decs = spec["decreases"] if isinstance(spec["decreases"], (list, tuple)) else [spec["decreases"]]
            with self.spec():
                dec0 = [self.to_int(self.ev(_parse(d), sb)) for d in decs]
        for code in spec.get("begin", []):
            sb = self.run_ghost(code, [sb])[0]
        for o in self.exec_block(stmt.body, sb):
            if o.kind in ("normal", "continue"):
                ss = self.run_ghost_many(spec.get("end", []), [o.st])
                for s3 in ss:
                    self.check_invariants(s3, spec, ordn, "preserved", stmt)
                    if dec0 is not None:
                        with self.spec():
                            dec1 = [self.to_int(self.ev(_parse(d), s3)) for d in decs]
                        goal = z3.BoolVal(False)
                        for idx in reversed(range(len(dec0))):
                            goal = z3.Or(z3.And(dec0[idx] >= 0, dec1[idx] < dec0[idx]), z3.And(dec1[idx] == dec0[idx], goal))
                        self.emit(s3, goal, "decreases", stmt, f"loop{ordn}")
            elif o.kind == "break":
                after.append(o.st)
            else:
                outs.append(o)
        outs.extend(Outcome("normal", a) for a in after)
        return outs

    def unroll_while(self, stmt, st, limit=200):
        outs = []
        live = [st]
        for _ in range(limit):
            nxt = []
            for s in live:
                c = z3.simplify(self.truthy(self.ev(stmt.test, s)))
                sx = s.copy(); sx.assume(z3.Not(c))
                if self.feasible(sx):
                    outs.append(Outcome("normal", sx))
                sb = s.copy(); sb.assume(c)
                if not self.feasible(sb):
                    continue
                for o in self.exec_block(stmt.body, sb):
                    if o.kind in ("normal", "continue"):
                        nxt.append(o.st)
                    elif o.kind == "break":
                        outs.append(Outcome("normal", o.st))
                    else:
                        outs.append(o)
            live = nxt
            if not live:
                return outs
        raise Unsupported("unroll limit")

    def st_For(self, stmt, st):
        ordn, spec = self.loop_info(stmt)
        if stmt.orelse:
            raise Unsupported("for-else")
        it = stmt.iter
        kname = spec.get("index", f"_k{ordn}")
        # ---- classify the iterable
        mode = None
        if isinstance(it, ast.Call) and isinstance(it.func, ast.Name) and it.func.id == "range" and "range" not in st.env:
            args = [self.to_int(self.ev(a, st), st, it) for a in it.args]
            step = 1
            if len(args) == 3:
                sv = z3.simplify(args[2])
                if not z3.is_int_value(sv) or sv.as_long() not in (1, -1):
                    raise Unsupported("range step other than ±1")
                step = sv.as_long()
            lo, hi = (z3.IntVal(0), args[0]) if len(args) == 1 else (args[0], args[1])
            mode = ("range", lo, hi, step)
        elif isinstance(it, (ast.Tuple, ast.List)) and len(it.elts) <= 16:
            mode = ("literal", list(it.elts))
        else:
            inner = it
            wrap = None
            if isinstance(it, ast.Call) and isinstance(it.func, ast.Name) and it.func.id in ("enumerate", "zip", "sorted", "reversed", "list", "tuple") and it.func.id not in st.env:
                wrap = it.func.id
            if wrap == "enumerate":
                seq = self.ev(it.args[0], st)
                mode = ("enum", seq)
            elif wrap == "zip":
                seqs = [self.ev(a, st) for a in it.args]
                mode = ("zip", seqs)
            elif wrap in ("sorted", "list", "tuple"):
                v = self.ev(it.args[0], st)
                if isinstance(v.ty, T.Set):
                    mode = ("set", v)  # arbitrary order: the sort key is an arbitrary user function
                elif isinstance(v.ty, T.Map):
                    mode = ("set", SV(v.ty.dom(v.t), T.Set(v.ty.key)))
                elif wrap == "sorted":
                    raise Unsupported("sorted() of a sequence as loop iterable")
                else:
                    mode = ("seq", v)
            else:
                if isinstance(it, ast.Call) and isinstance(it.func, ast.Attribute) and it.func.attr == "items":
                    m = self.ev(it.func.value, st)
                    if isinstance(m.ty, T.Map):
                        mode = ("items", m)
                if mode is None:
                    v = self.ev(it, st)
                    if isinstance(v.ty, T.Seq):
                        mode = ("seq", v)
                    elif isinstance(v.ty, T.Set):
                        mode = ("set", v)
                    elif isinstance(v.ty, T.Map):
                        mode = ("set", SV(v.ty.dom(v.t), T.Set(v.ty.key)))
                    else:
                        raise Unsupported(f"for over {v.ty}")
        outs = self.drain_raises([])
        if mode[0] == "literal":
            # iteration over a literal tuple/list: unrolled exactly, element by element
            live = [st]
            for elt in mode[1]:
                nxt = []
                for s_ in live:
                    s2 = s_.copy()
                    v = self.ev(elt, s2)
                    self.assign(stmt.target, v, s2, stmt)
                    for o in self.exec_block(stmt.body, s2):
                        if o.kind in ("normal", "continue"):
                            nxt.append(o.st)
                        elif o.kind == "break":
                            outs.append(Outcome("normal", o.st))
                        else:
                            outs.append(o)
                live = nxt
            outs.extend(Outcome("normal", s_) for s_ in live)
            return outs
        if spec.get("seq") and mode[0] in ("seq", "enum", "set"):
            st.env[spec["seq"]] = mode[1]  # ghost name for the iterated value
        if self.unroll:
            return outs + self.unroll_for(stmt, st, mode)
        is_set = mode[0] in ("set", "items")
        # ---- ghost iteration state
        if is_set:
            S = mode[1] if mode[0] == "set" else SV(mode[1].ty.dom(mode[1].t), T.Set(mode[1].ty.key))
            dname = spec.get("done", f"_D{ordn}")
            st.env[dname] = SV(S.ty.empty(), S.ty)
        else:
            if mode[0] == "range":
                lo, hi, step = mode[1], mode[2], mode[3]
                k0 = lo
            else:
                lo, step = z3.IntVal(0), 1
                if mode[0] in ("seq", "enum"):
                    hi = mode[1].ty.len(mode[1].t)
                else:
                    hi = None
                    for s_ in mode[1]:
                        l_ = s_.ty.len(s_.t)
                        hi = l_ if hi is None else z3.If(l_ < hi, l_, hi)
                k0 = lo
            st.env[kname] = SV(k0, T.Int)
        self.check_invariants(st, spec, ordn, "entry", stmt)
        mods = self.modified_names(stmt.body, st)
        tnames = set()
        for n in ast.walk(stmt.target):
            if isinstance(n, ast.Name):
                tnames.add(n.id)
        s = st.copy()
        self.havoc(s, (mods - {kname}) | tnames)
        if is_set:
            D = fresh(S.ty, dname)
            s.env[dname] = D
            s.assume(z3.IsSubset(D.t, S.t))
        else:
            k = z3.Int(fresh_name(kname))
            s.env[kname] = SV(k, T.Int)
            if step == 1:
                s.assume(z3.And(lo <= k, z3.Or(k <= hi, k == lo)))
            else:
                s.assume(z3.And(k <= lo, z3.Or(k >= hi, k == lo)))
        self.assume_invariants(s, spec)
        # ---- exit path
        sx = s.copy()
        if is_set:
            sx.assume(D.t == S.t)
        else:
            sx.assume(k >= hi if step == 1 else k <= hi)
        sx.trail.append(f"loop{ordn}:exit")
        after = [sx] if self.feasible(sx) else []
        # ---- body path
        sb = s.copy()
        sb.trail.append(f"loop{ordn}:body")
        if is_set:
            x = fresh(S.ty.elem, "it")
            sb.assume(z3.And(z3.Select(S.t, x.t), z3.Not(z3.Select(D.t, x.t))))
            if mode[0] == "items":
                m = mode[1]
                tt = T.Tup(m.ty.key, m.ty.val)
                tv = SV(tt.mk(x.t, z3.Select(m.ty.valarr(m.t), x.t)), tt)
            else:
                tv = x
        else:
            sb.assume(k < hi if step == 1 else k > hi)
            if mode[0] == "range":
                tv = SV(k, T.Int)
            elif mode[0] == "seq":
                tv = SV(z3.Select(mode[1].ty.arr(mode[1].t), k), mode[1].ty.elem)
            elif mode[0] == "enum":
                tt = T.Tup(T.Int, mode[1].ty.elem)
                tv = SV(tt.mk(k, z3.Select(mode[1].ty.arr(mode[1].t), k)), tt)
            else:
                tt = T.Tup(*[q.ty.elem for q in mode[1]])
                tv = SV(tt.mk(*[z3.Select(q.ty.arr(q.t), k) for q in mode[1]]), tt)
        self.assign(stmt.target, tv, sb, stmt)
        for code in spec.get("begin", []):
            sb = self.run_ghost(code, [sb])[0]
        for o in self.exec_block(stmt.body, sb):
            if o.kind in ("normal", "continue"):
                for s3 in self.run_ghost_many(spec.get("end", []), [o.st]):
                    if is_set:
                        s3.env[dname] = SV(z3.Store(D.t, x.t, True), S.ty)
                    else:
                        s3.env[kname] = SV(k + step, T.Int)
                    self.check_invariants(s3, spec, ordn, "preserved", stmt)
            elif o.kind == "break":
                after.append(o.st)
            else:
                outs.append(o)
        outs.extend(Outcome("normal", a) for a in after)
        return outs

    def unroll_for(self, stmt, st, mode, limit=200):
        # concrete-mode execution (encoding cross-check): bounds must simplify to numerals
        def num(t):
            t = z3.simplify(t)
            if not z3.is_int_value(t):
                raise Unsupported("unroll: symbolic bound")
            return t.as_long()

        if mode[0] == "range":
            idxs = list(range(num(mode[1]), num(mode[2]), mode[3]))
            vals = [SV(z3.IntVal(i), T.Int) for i in idxs]
        elif mode[0] in ("seq", "enum"):
            q = mode[1]
            n = num(q.ty.len(q.t))
            vals = []
            for i in range(n):
                e = SV(z3.simplify(z3.Select(q.ty.arr(q.t), i)), q.ty.elem)
                if mode[0] == "enum":
                    tt = T.Tup(T.Int, q.ty.elem)
                    e = SV(tt.mk(z3.IntVal(i), e.t), tt)
                vals.append(e)
        elif mode[0] == "zip":
            n = min(num(q.ty.len(q.t)) for q in mode[1])
            tt = T.Tup(*[q.ty.elem for q in mode[1]])
            vals = [SV(tt.mk(*[z3.simplify(z3.Select(q.ty.arr(q.t), i)) for q in mode[1]]), tt) for i in range(n)]
        else:
            raise Unsupported("unroll over a set")
        outs = []
        live = [st]
        for v in vals:
            nxt = []
            for s in live:
                s = s.copy()
                self.assign(stmt.target, v, s, stmt)
                for o in self.exec_block(stmt.body, s):
                    if o.kind in ("normal", "continue"):
                        nxt.append(o.st)
                    elif o.kind == "break":
                        outs.append(Outcome("normal", o.st))
                    else:
                        outs.append(o)
            live = nxt
        outs.extend(Outcome("normal", s) for s in live)
        return outs

    def st_Break(self, stmt, st):
        return [Outcome("break", st)]

    def st_Continue(self, stmt, st):
        return [Outcome("continue", st)]

    # ------------------------------------------------------------------ verification of one function
    def number_loops(self, stmts):
        self.loop_ordinals = {}
        n = [0]

        def walk(ss):
            for s in ss:
                if isinstance(s, (ast.For, ast.While)):
                    self.loop_ordinals[id(s)] = n[0]
                    n[0] += 1
                if isinstance(s, (ast.FunctionDef, ast.ClassDef)):
                    continue
                for fld in ("body", "orelse", "finalbody"):
                    sub = getattr(s, fld, None)
                    if sub:
                        walk(sub)
                for h in getattr(s, "handlers", []) or []:
                    walk(h.body)

        walk(stmts)
        return n[0]

    def verify(self, contract, body, contracts=None):
        """Generate all obligations for one function body under its contract."""
        self.cur = contract
        self.contracts = contracts or {}
        self.in_ghost = 0
        self.dropped = set()
        self.ghost_hits = set()
        self.assumes_used = getattr(self, "assumes_used", set())
        self.defaultdicts = getattr(self, "defaultdicts", set())
        self.context_managers = getattr(self, "context_managers", {})
        self.finally_kind = None
        self.npaths = 0
        # prefix-sum axioms only where sums are mentioned (they slow down unrelated queries)
        texts = [src for _, src in contract.requires + contract.ensures] + [c for _, _, c in contract.ghost] + [ast.unparse(s_) for s_ in body]
        for sp in contract.loops.values():
            texts += [x[1] if isinstance(x, tuple) else x for x in sp.get("invariant", [])] + sp.get("begin", []) + sp.get("end", [])
        if any("sum(" in t for t in texts) and not self.psum_enabled:
            self.psum_enabled = True
            self.axioms.extend(psum_axioms())
        nloops = self.number_loops(body)
        for k in contract.loops:
            if not (0 <= k < nloops):
                raise Unsupported(f"contract names loop {k}, function has {nloops} loops (contract no longer lines up)")
        st = State()
        for p, pty in list(contract.params.items()) + list(contract.free.items()):
            st.env[p] = fresh(pty, p)
        for ax in contract.axioms:
            with self.spec():
                st.assume(self.truthy(self.ev(_parse(ax), st)))
        st.old = dict(st.env)
        for label, src in contract.requires:
            with self.spec():
                st.assume(self.truthy(self.ev(_parse(src), st)))
        # vacuity: the precondition must be satisfiable
        self.pre_state = st.copy()
        start = len(self.obligations)
        for where, anchor, code in contract.ghost:
            if where == "entry":
                st = self.run_ghost(code, [st])[0]
        outs = self.exec_block(body, st)
        nret = 0
        for o in outs:
            if o.kind == "normal":
                o = Outcome("return", o.st, NONE)
            if o.kind == "return":
                nret += 1
                sts = [o.st]
                for where, anchor, code in contract.ghost:
                    if where == "exit":
                        self.result_sv = o.value
                        sts = self.run_ghost(code, sts)
                for s_ in sts:
                    self.check_post(contract, s_, o.value)
                    self.emit(s_, z3.BoolVal(False), "canary", None, "exit-reachable")
            elif o.kind == "raise":
                self.check_raise(contract, o)
            else:
                raise Unsupported(f"{o.kind} outside loop")
        for where, anchor, code in contract.ghost:
            if where in ("before", "after") and (where, anchor) not in self.ghost_hits:
                raise Unsupported(f"ghost anchor not found: {where} {anchor!r} (contract no longer lines up)")
        self.cur = None
        return self.obligations[start:]

    def check_post(self, c, st, value):
        saved = self.result_sv
        if value is not None and c.returns is not None and isinstance(value, SV) and value.ty != c.returns:
            value = self.coerce(value, c.returns)
        self.result_sv = value
        try:
            for label, src in c.ensures:
                with self.spec():
                    cond = self.truthy(self.ev(_parse(src), st))
                self.emit(st, cond, "ensures", None, label)
        finally:
            self.result_sv = saved

    def check_raise(self, c, o):
        """An exceptional exit must be allowed by the contract: for a listed class the `when`
        condition (over the pre-state) must hold; an unlisted class must be unreachable."""
        allowed = [(exc, when, label) for exc, when, label in c.raises if exc_matches(o.exc, exc)]
        if not allowed:
            self.emit(o.st, z3.BoolVal(False), "no-raise", None, o.exc)
            return
        s2 = o.st.copy()
        s2.env = dict(o.st.old)
        conds = []
        for exc, when, label in allowed:
            with self.spec():
                conds.append(self.truthy(self.ev(_parse(when), s2)))
        self.emit(o.st, z3.Or(*conds), "raises-only-when", None, o.exc)
        for label, src in c.raises_post.get(o.exc, []):
            with self.spec():
                cond = self.truthy(self.ev(_parse(src), o.st))
            self.emit(o.st, cond, "raises-post", None, f"{o.exc}:{label}")


_hq_cache = {}


def _has_quant(e):
    k = e.get_id()
    if k in _hq_cache:
        return _hq_cache[k]
    seen = set()
    stack = [e]
    res = False
    while stack:
        x = stack.pop()
        i = x.get_id()
        if i in seen:
            continue
        seen.add(i)
        if z3.is_quantifier(x):
            res = True
            break
        stack.extend(x.children())
    _hq_cache[k] = res
    return res


def _load(t):
    import copy

    t2 = copy.deepcopy(t)
    for n in ast.walk(t2):
        if hasattr(n, "ctx"):
            n.ctx = ast.Load()
    return t2


def _dedent(code):
    import textwrap

    return textwrap.dedent(code).strip() + "\n"
