"""E2 for C06: dask.order.order on every small graph (real code)."""
import itertools
import signal
import time

from . import rtc


def f(*a):
    return a


def graphs(n, with_external):
    """Node kinds: T task (f, deps...), D data literal, A alias of one earlier key (non-task), L list of >=2 earlier keys (non-task)."""
    names = [chr(ord("a") + i) for i in range(n)]

    def rec(i):
        if i == n:
            yield {}
            return
        for rest in rec_cache(i + 1):
            yield rest

    specs = [()]
    for i in range(n):
        new = []
        pool = list(range(i)) + (["EXT"] if with_external else [])
        for s in specs:
            new.append(s + (("D", ()),))
            for r in range(0, min(len(pool), 3) + 1):
                for deps in itertools.combinations(pool, r):
                    new.append(s + (("T", deps),))
            for d in pool:
                new.append(s + (("A", (d,)),))
            for r in (2, 3):
                for deps in itertools.combinations(pool, r):
                    new.append(s + (("L", deps),))
        specs = new
    for s in specs:
        dsk = {}
        deps = {}
        for name, (kind, ds) in zip(names, s):
            dn = [names[d] if d != "EXT" else "ext" for d in ds]
            deps[name] = [d for d in dn if d != "ext"]
            if kind == "D":
                dsk[name] = 1
            elif kind == "T":
                dsk[name] = (f,) + tuple(dn)
            elif kind == "A":
                dsk[name] = dn[0]
            else:
                dsk[name] = list(dn)
        yield s, dsk, deps


class TO(Exception):
    pass


def _alarm(*a):
    raise TO()


def check(dsk, deps, convert):
    from dask.order import order

    g = dsk
    if convert:
        from dask._task_spec import convert_legacy_graph

        g = convert_legacy_graph(dsk, all_keys=set(dsk) | {"ext"})
    old = signal.signal(signal.SIGALRM, _alarm)
    signal.setitimer(signal.ITIMER_REAL, 3)
    try:
        o = order(g)
    except TO:
        return "order() does not terminate (3 s)"
    except Exception as e:  # noqa
        return f"{type(e).__name__}: {e}"
    finally:
        signal.setitimer(signal.ITIMER_REAL, 0)
        signal.signal(signal.SIGALRM, old)
    if set(o) != set(dsk):
        return f"priorities for {sorted(map(str, o))}, graph keys {sorted(dsk)}"
    # return_stats=True (what visualize uses): the same keys with the same priorities, wrapped in Order records
    try:
        so = order(g, return_stats=True)
    except Exception as e:  # noqa
        return f"return_stats=True: {type(e).__name__}: {e}"
    if set(so) != set(dsk):
        return f"return_stats=True gives priorities for {sorted(map(str, so))}, graph keys {sorted(dsk)}"
    if {k: v.priority for k, v in so.items()} != o:
        return f"return_stats=True gives priorities { {k: v.priority for k, v in so.items()} }, the plain call gives {o}"
    if len(set(o.values())) != len(o):
        return f"priorities are not pairwise distinct: {o}"
    for k, ds in deps.items():
        for d in ds:
            if not o[k] > o[d]:
                return f"{k!r} (priority {o[k]}) does not come after its dependency {d!r} (priority {o[d]}): {o}"
    return None


def sweep(tier, seed=0):
    from dask.order import order

    t0 = time.time()
    cases, fails = 0, []
    nmax = 4 if tier == "quick" else 5
    budget = 60 if tier == "quick" else 1500
    plan = [(n, ext, None) for n in range(1, nmax + 1) for ext in (False, True) if not (ext and n == nmax and tier == "quick")]
    if tier == "quick":
        # 5 nodes, restricted to the graphs that exercise the normalisation passes: at least one multi-dependency
        # list and at least one non-task alias or data node
        plan.append((5, False, lambda s: any(k == "L" for k, _ in s) and any(k == "A" for k, _ in s) and any(k == "D" for k, _ in s)))
    for n, ext, flt in plan:
        for _once in (0,):
            for s, dsk, deps in graphs(n, ext):
                if flt is not None and not flt(s):
                    continue
                for convert in ((False,) if flt is not None else (True, False)):
                    cases += 1
                    msg = check(dsk, deps, convert)
                    if msg:
                        fails.append(rtc.Failure("order", {"graph": {k: repr(v) for k, v in dsk.items()}, "task_spec": convert}, "ensures", "C06-total-order-consistent-with-dependencies", msg))
                        if len(fails) >= 5:
                            break
                if len(fails) >= 5 or time.time() - t0 > budget:
                    break
            if len(fails) >= 5 or time.time() - t0 > budget:
                break
        if len(fails) >= 5 or time.time() - t0 > budget:
            break
    # seeded random graphs with 5-7 keys, weighted towards the normalisation passes (plain-data roots, several
    # multi-dependency list nodes stacked on each other)
    import random

    rnd = random.Random(seed)
    names = "abcdefgh"
    for _ in range(15000 if tier == "quick" else 250000):
        if fails or time.time() - t0 > budget * 1.5:
            break
        n = rnd.choice([5, 6, 6, 7])
        dsk, deps = {}, {}
        for i in range(n):
            pool = list(names[:i])
            r = rnd.random()
            if i == 0 or r < 0.2 or (r >= 0.6 and len(pool) < 2):
                dsk[names[i]], deps[names[i]] = 1, []
            elif r < 0.5:
                ds = rnd.sample(pool, rnd.randint(0, min(3, len(pool))))
                dsk[names[i]], deps[names[i]] = (f,) + tuple(ds), ds
            elif r < 0.6:
                d = rnd.choice(pool)
                dsk[names[i]], deps[names[i]] = d, [d]
            else:
                ds = rnd.sample(pool, rnd.randint(2, min(3, len(pool))))
                dsk[names[i]], deps[names[i]] = list(ds), ds
        for convert in (False, True):
            cases += 1
            msg = check(dsk, deps, convert)
            if msg:
                fails.append(rtc.Failure("order", {"graph": {k: repr(v) for k, v in dsk.items()}, "task_spec": convert}, "ensures", "C06-total-order-consistent-with-dependencies", msg))
                break
    # cyclic variants: must be rejected with an error (never hang, never return)
    cyc = 0
    for dsk in [{"a": (f, "b"), "b": (f, "a")}, {"a": (f, "a")}, {"a": (f, "b"), "b": (f, "c"), "c": (f, "a"), "d": 1},
                {"a": (f, "b", "c", "d"), "b": (f, "a", "c"), "c": (f, "b"), "d": (f, "b", "c")}, {"x": 1, "a": (f, "x", "b"), "b": ["a", "x"]}]:
        cases += 1
        old = signal.signal(signal.SIGALRM, _alarm)
        signal.setitimer(signal.ITIMER_REAL, 3)
        try:
            r = order(dsk)
            msg = f"cyclic graph was ordered: {r}"
        except TO:
            msg = "order() does not terminate on a cyclic graph (3 s)"
        except RuntimeError:
            msg = None
        except Exception as e:  # noqa
            msg = None if "ycle" in str(e) else f"{type(e).__name__}: {e}"
        finally:
            signal.setitimer(signal.ITIMER_REAL, 0)
            signal.signal(signal.SIGALRM, old)
        if msg:
            fails.append(rtc.Failure("order", {"graph": {k: repr(v) for k, v in dsk.items()}, "cyclic": True}, "ensures", "C06-cycles-rejected", msg))
    return {"function": "dask/order.py:order (real code)", "bounded": True,
            "bound": {"nodes": nmax, "kinds": "task / data / alias / multi-dependency list, optional external key, legacy and task-spec form", "random": "seeded graphs with 5-7 keys weighted towards data roots and stacked list nodes", "cyclic variants": 5, "time_budget_s": budget},
            "cases": cases, "distinct_nontrivial": cases, "failures_found": len(fails), "wall_s": round(time.time() - t0, 2),
            "samples": [{"native_case": {"graph": {"a": "1", "b": "(f, 'a')", "c": "['a', 'b']"}}}], "failures": fails[:5]}
