"""E2 for C45: sorted_division_locations (extracted source, dask.dataframe is not importable here)."""
import bisect
import itertools
import time

from . import rtc, srcexec

F = "dask/dataframe/io/io.py"


def load():
    return srcexec.load(F, "sorted_division_locations", {"bisect": bisect, "tolist": list})


def check(fn, seq, npartitions=None, chunksize=None):
    try:
        divisions, locations = rtc.call_with_timeout(fn, [list(seq)], {"npartitions": npartitions, "chunksize": chunksize}, seconds=3)
    except rtc.Timeout:
        return "does not terminate (3 s)"
    except Exception as e:  # noqa
        return f"{type(e).__name__}: {e}"
    n = len(seq)
    if len(divisions) != len(locations) or len(locations) < 2:
        return f"shape: divisions={divisions} locations={locations}"
    if locations[0] != 0 or locations[-1] != n:
        return f"locations run from {locations[0]} to {locations[-1]}, sequence length {n}: {locations}"
    if any(a >= b for a, b in zip(locations, locations[1:])):
        return f"locations not strictly increasing: {locations}"
    for d, l in zip(divisions[:-1], locations[:-1]):
        if seq[l] != d:
            return f"division {d!r} is not the value at its location {l} ({seq[l]!r}): {divisions} {locations}"
    if divisions[-1] != seq[-1]:
        return f"last division {divisions[-1]!r} != last value"
    for l in locations[1:-1]:
        if seq[l - 1] == seq[l]:
            return f"equal values straddle the boundary at {l}: {divisions} {locations}"
    if npartitions is not None:
        distinct = len(set(seq))
        if distinct >= npartitions and len(locations) - 1 != npartitions and len(seq) >= npartitions:
            return f"{len(locations) - 1} partitions instead of {npartitions} although there are {distinct} distinct values: {locations}"
    return None


def skewed(rnd):
    """Sorted sequences as run lengths: up to 13 distinct values; uniform short runs, mostly-singletons with a few
    long runs, singletons with a long tail run, a long head run (the shapes where chunk-sized steps land inside runs)."""
    k = rnd.randrange(1, 14)
    mode = rnd.randrange(5)
    seq = []
    for j in range(k):
        if mode == 0:
            r = rnd.randrange(1, 4)
        elif mode == 1:
            r = 1 if rnd.random() < 0.7 else rnd.randrange(2, 25)
        elif mode == 2:
            r = 1 if j < k - 1 else rnd.randrange(1, 30)
        elif mode == 3:
            r = rnd.randrange(1, 30) if j == 0 else rnd.randrange(1, 3)
        else:
            r = rnd.randrange(1, 8)
        seq += [j] * r
    return seq


def sweep(tier, seed=0):
    t0 = time.time()
    fn = load()
    maxlen = 8  # the property's own exhaustive bound (8312 cases, < 1 s)
    alpha = "ABCD"
    cases, fails = 0, []
    sample = None
    for n in range(1, maxlen + 1):
        for seq in itertools.combinations_with_replacement(alpha, n):
            for mode in ("npartitions", "chunksize"):
                for v in range(1, n + 2):
                    cases += 1
                    kw = {mode: v}
                    if sample is None and n == 5:
                        sample = {"seq": "".join(seq), **kw}
                    msg = check(fn, seq, **kw)
                    if msg:
                        fails.append(rtc.Failure("sorted_division_locations", {"seq": list(seq), **kw}, "ensures", "C45", msg))
                        if len(fails) >= 5:
                            break
                if len(fails) >= 5:
                    break
            if len(fails) >= 5:
                break
        if len(fails) >= 5:
            break
    if not fails:
        import random

        rnd = random.Random(seed)
        for _ in range(20000 if tier == "quick" else 200000):
            seq = skewed(rnd)
            n = len(seq)
            kw = {rnd.choice(["npartitions", "chunksize"]): rnd.randrange(1, min(n, 16) + 2)}
            cases += 1
            msg = check(fn, seq, **kw)
            if msg:
                fails.append(rtc.Failure("sorted_division_locations", {"seq": seq, **kw}, "ensures", "C45", msg))
                break
    return {"function": "dask/dataframe/io/io.py:sorted_division_locations (extracted source)", "bounded": True,
            "bound": {"alphabet": alpha, "max_len": maxlen, "npartitions/chunksize": "1..len+1", "plus": "seeded random run-length families, <= 13 distinct values, runs <= 29"}, "cases": cases, "distinct_nontrivial": cases,
            "failures_found": len(fails), "wall_s": round(time.time() - t0, 2), "samples": [{"native_case": sample}], "failures": fails, "exhaustive": True}


def replay(native):
    args = eval(native["args_repr"])
    seq = args.pop("seq")
    msg = check(load(), seq, **args)
    return {"reproduced": True, "detail": msg} if msg else None


# ------------------------------------------------------------------ quantile-based divisions (NumPy code: bounded only)
def pq_sweep(tier, seed=0):
    import numpy as np
    import pandas as pd

    t0 = time.time()
    fn = srcexec.load("dask/dataframe/partitionquantiles.py", "process_val_weights",
                      {"np": np, "pd": pd, "is_integer_dtype": pd.api.types.is_integer_dtype})
    cases, fails = 0, []
    maxlen = 4 if tier == "quick" else 5
    wts = (1, 2, 4) if tier == "quick" else (1, 2, 3, 4)
    for n in range(1, maxlen + 1):
        for vals in itertools.combinations(range(6), n):
            for weights in itertools.product(wts, repeat=n):
                for npart in range(1, 6):
                    cases += 1
                    try:
                        rv = np.asarray(fn((list(vals), list(weights)), npart, (np.dtype("int64"), None)))
                        msg = None
                        if len(rv) != npart + 1:
                            msg = f"{len(rv)} divisions for npartitions={npart}"
                        elif (rv[1:] < rv[:-1]).any():
                            msg = f"divisions decrease: {rv.tolist()}"
                        elif rv[0] != vals[0] or rv[-1] != vals[-1]:
                            msg = f"divisions {rv.tolist()} do not span the data's min {vals[0]} and max {vals[-1]}"
                    except Exception as e:  # noqa
                        msg = f"{type(e).__name__}: {e}"
                    if msg:
                        fails.append(rtc.Failure("process_val_weights", {"vals": list(vals), "weights": list(weights), "npartitions": npart}, "ensures", "C45-quantile-divisions-span-min-max", msg))
                        if len(fails) >= 5:
                            break
                if len(fails) >= 5:
                    break
            if len(fails) >= 5:
                break
        if len(fails) >= 5:
            break
    # weighted summaries as percentiles_summary / merge_and_compress_summaries produce them: many values, float
    # (non-dyadic) weights, more values than partitions (the over-sampled branch, where rounding of the weight sums matters)
    import random as _random

    rnd = _random.Random(seed)
    nrand = 3000 if tier == "quick" else 40000
    for _ in range(nrand):
        if len(fails) >= 5:
            break
        n = rnd.randrange(4, 45)
        vals = sorted(rnd.sample(range(1000), n))
        weights = [rnd.choice([rnd.random() * 10 + 0.01, rnd.randrange(1, 9) / 7.0, rnd.randrange(1, 30) * 0.1]) for _ in range(n)]
        npart = rnd.randrange(1, max(2, n - 1))
        cases += 1
        try:
            rv = np.asarray(fn((np.array(vals, dtype="float64"), np.array(weights)), npart, (np.dtype("float64"), None)))
            msg = None
            if (rv[1:] < rv[:-1]).any():
                msg = f"divisions decrease: {rv.tolist()}"
            elif rv[0] != vals[0] or rv[-1] != vals[-1]:
                msg = f"divisions {rv.tolist()[:3]}..{rv.tolist()[-3:]} do not span the data's min {vals[0]} and max {vals[-1]}"
            elif len(rv) > npart + 1:
                msg = f"{len(rv)} divisions for npartitions={npart}"
        except Exception as e:  # noqa
            msg = f"{type(e).__name__}: {e}"
        if msg:
            fails.append(rtc.Failure("process_val_weights", {"vals": list(vals), "weights": list(weights), "npartitions": npart}, "ensures", "C45-quantile-divisions-span-min-max", msg))
    return {"function": "dask/dataframe/partitionquantiles.py:process_val_weights (extracted source, NumPy; bounded only)", "bounded": True,
            "bound": {"vals": "strictly increasing ints from range(6)", "max_len": maxlen, "weights": list(wts), "npartitions": "1..5", "random float-weighted summaries": nrand},
            "cases": cases, "distinct_nontrivial": cases, "failures_found": len(fails), "wall_s": round(time.time() - t0, 2),
            "samples": [{"native_case": {"vals": [1, 2, 3], "weights": [4, 1, 1], "npartitions": 2}}], "failures": fails}


def percentile_grid_sweep(tier, seed=0):
    """sample_percentiles (first stage of the quantile pipeline): a sorted grid of percentiles that starts at exactly 0
    and ends at exactly 100, so that the minimum and the maximum of every partition are always sampled."""
    import numpy as np

    t0 = time.time()
    fn = srcexec.load("dask/dataframe/partitionquantiles.py", "sample_percentiles", {"np": np})
    cases, fails = 0, []
    for num_old in (1, 2, 3, 8, 40, 200):
        for num_new in (1, 2, 3, 10, 50):
            for chunk_length in (1, 5, 12, 40, 100, 1000, 10 ** 5):
                for upsample in (1.0, 2.5):
                    for rs in (0, 1, 12345):
                        cases += 1
                        try:
                            qs = np.asarray(fn(num_old, num_new, chunk_length, upsample=upsample, random_state=rs))
                            msg = None
                            if len(qs) < 2 or qs[0] != 0 or qs[-1] != 100:
                                msg = f"grid runs from {qs[0] if len(qs) else None} to {qs[-1] if len(qs) else None}, not from 0 to 100"
                            elif (qs[1:] < qs[:-1]).any() or qs.min() < 0 or qs.max() > 100:
                                msg = "grid is not sorted within [0, 100]"
                        except Exception as e:  # noqa
                            msg = f"{type(e).__name__}: {e}"
                        if msg and len(fails) < 4:
                            fails.append(rtc.Failure("sample_percentiles", {"num_old": num_old, "num_new": num_new, "chunk_length": chunk_length, "upsample": upsample, "random_state": rs}, "ensures", "C45-quantile-divisions-span-min-max", msg))
    return {"function": "dask/dataframe/partitionquantiles.py:sample_percentiles (extracted source, NumPy; bounded only)", "bounded": True,
            "bound": {"num_old": [1, 2, 3, 8, 40, 200], "num_new": [1, 2, 3, 10, 50], "chunk_length": "1 .. 1e5", "upsample": [1.0, 2.5], "random_state": 3},
            "cases": cases, "distinct_nontrivial": cases, "failures_found": len(fails), "wall_s": round(time.time() - t0, 2),
            "samples": [{"native_case": {"num_old": 8, "num_new": 3, "chunk_length": 100}}], "failures": fails}
