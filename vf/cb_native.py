"""E2 for C05: bounded exhaustive histories of callback contexts on the real dask.callbacks."""
import itertools

from . import rtc


def histories(nobj, length):
    ops = []
    for o in range(nobj):
        ops += [("enter_cb", o), ("enter_add", o), ("register", o), ("unregister", o)]
    ops += [("enter_add2", 0), ("exit", None), ("get", None), ("get_explicit", 0), ("get_explicit", 1), ("get_fail", None), ("get_broken", "missing"), ("get_broken", "cycle")]
    for n in range(1, length + 1):
        yield from itertools.product(ops, repeat=n)


def _boom():
    return 1 // 0


def run_history(h):
    """Returns None or a message.  Property: leaving a context never deactivates a callback that was
    active when the context was entered (unless explicitly unregistered meanwhile); inside a context
    its callbacks are active; local scheduler calls see exactly the active callbacks."""
    from dask.callbacks import Callback, add_callbacks
    import dask.local as L
    from dask._task_spec import Task

    Callback.active = set()
    objs = []
    seen = [[] for _ in range(2)]
    for i in range(2):
        def pre(key, dsk, state, i=i):
            seen[i].append(key)
        objs.append(Callback(pretask=pre))
    stack = []  # (cm, active_at_enter, own)
    unreg = set()
    try:
        for op, o in h:
            if op == "enter_cb":
                at = set(Callback.active)
                cm = objs[o]
                # the same object may be entered again while it is open (the statement quantifies over "the same or
                # different callback objects"): the inner exit must still not deactivate what the outer entry activated
                cm.__enter__()
                stack.append((cm, at, {objs[o]._callback}, set(at)))
            elif op == "enter_add":
                at = set(Callback.active)
                cm = add_callbacks(objs[o])
                cm.__enter__()
                stack.append((cm, at, {objs[o]._callback}, set(at)))
            elif op == "enter_add2":
                at = set(Callback.active)
                cm = add_callbacks(objs[0], objs[1])
                cm.__enter__()
                stack.append((cm, at, {objs[0]._callback, objs[1]._callback}, set(at)))
            elif op == "register":
                was_active = objs[o]._callback in Callback.active
                objs[o].register()
                if not was_active:
                    for s_ in stack:
                        s_[3].add(objs[o]._callback)  # this register() activated it: must survive the exit of every open context
            elif op == "unregister":
                if objs[o]._callback not in Callback.active:
                    continue
                objs[o].unregister()
                for s in stack:
                    s[1].discard(objs[o]._callback)
                    s[3].discard(objs[o]._callback)
            elif op == "exit":
                if not stack:
                    continue
                cm, at, own, at0 = stack.pop()
                before = set(Callback.active)
                cm.__exit__(None, None, None)
                removed = before - set(Callback.active)
                # only what this context activated itself may disappear: not what an enclosing context activated
                # (active at entry) and not what a register() activated meanwhile
                if not removed <= (own - at0):
                    return f"leaving a context deactivated {len(removed - (own - at0))} callback(s) it had not activated itself (enclosing context or earlier register())"
                if not set(Callback.active) <= before:
                    return "leaving a context activated callbacks"
            elif op == "get":
                for s_ in seen:
                    s_.clear()
                act = set(Callback.active)
                L.get_sync({"x": Task("x", int)}, "x")
                if set(Callback.active) != act:
                    return "a scheduler call changed the active set"
                for i in range(2):
                    want = 1 if objs[i]._callback in act else 0
                    if len(seen[i]) != want:
                        return f"callback {i} saw {len(seen[i])} pretask calls, expected {want}"

            elif op == "get_fail":
                # a scheduler call whose task raises: the exception reaches the caller, every active callback gets
                # exactly one finish call with the failure flag, and the active set is what it was
                act = set(Callback.active)
                fin = []
                probe = Callback(finish=lambda dsk, state, failed: fin.append(failed))
                probe.register()
                try:
                    try:
                        L.get_sync({"x": Task("x", _boom)}, "x")
                        return "a failing task did not raise"
                    except ZeroDivisionError:
                        pass
                    if fin != [True]:
                        return f"finish callbacks of a failing call saw {fin}, expected [True]"
                finally:
                    Callback.active.discard(probe._callback)
                if set(Callback.active) != act:
                    return "a failing scheduler call changed the active set"
            elif op == "get_broken":
                # a scheduler call that fails while the graph is analysed (missing dependency / dependency cycle), after
                # the start callbacks ran: every callback whose start ran gets its finish call (failed=True) all the same
                from dask._task_spec import TaskRef
                act = set(Callback.active)
                log = []
                probe = Callback(start=lambda dsk: log.append("start"), finish=lambda dsk, state, failed: log.append(("finish", failed)))
                probe.register()
                bad = {"x": Task("x", int, TaskRef("nope"))} if o == "missing" else {"x": Task("x", int, TaskRef("y")), "y": Task("y", int, TaskRef("x"))}
                try:
                    try:
                        L.get_sync(bad, "x")
                        return f"a graph with a {o} dependency did not raise"
                    except Exception:
                        pass
                    if log.count("start") != sum(1 for e in log if e != "start"):
                        return f"scheduler call on a graph with a {o}: callbacks saw {log} (every start needs its finish)"
                    if "start" in log and ("finish", True) not in log:
                        return f"scheduler call on a graph with a {o}: callbacks saw {log}, expected finish(failed=True)"
                finally:
                    Callback.active.discard(probe._callback)
                if set(Callback.active) != act:
                    return "a scheduler call that failed during graph analysis changed the active set"
            elif op == "get_explicit":
                # callbacks passed with callbacks=: only those are used, and the globally active set is left alone
                for s_ in seen:
                    s_.clear()
                act = set(Callback.active)
                L.get_sync({"x": Task("x", int)}, "x", callbacks=[objs[o]._callback])
                if set(Callback.active) != act:
                    return "a scheduler call with explicit callbacks= changed the globally active set"
                for i in range(2):
                    want = 1 if i == o else 0
                    if len(seen[i]) != want:
                        return f"explicit callbacks=[cb{o}]: callback {i} saw {len(seen[i])} pretask calls, expected {want}"

    finally:
        Callback.active = set()
    return None


def shared_hook_case():
    """two different callbacks that share one hook FUNCTION are still two callbacks: each gets its own calls"""
    from dask.callbacks import Callback
    import dask.local as L
    import dask.threaded as TH
    from dask._task_spec import Task, TaskRef

    calls = []

    def tick(key, dsk, state):
        calls.append(("pre", key))

    def tock(key, res, dsk, state, wid):
        calls.append(("post", key))

    fin = []
    a = Callback(pretask=tick, posttask=tock, finish=lambda d, s, f: fin.append("a"))
    b = Callback(pretask=tick, posttask=tock, start=lambda d: fin.append("b-start"))
    dsk = {"x": Task("x", int), "y": Task("y", lambda v: v + 1, TaskRef("x"))}
    Callback.active = set()
    try:
        for how, run in (("get_sync", lambda: L.get_sync(dsk, "y")), ("threaded.get", lambda: TH.get(dsk, "y", num_workers=2))):
            for mode in ("nested contexts", "registered + context"):
                calls.clear()
                if mode == "nested contexts":
                    with a:
                        with b:
                            run()
                else:
                    a.register()
                    try:
                        with b:
                            run()
                    finally:
                        a.unregister()
                for key in ("x", "y"):
                    n_pre, n_post = calls.count(("pre", key)), calls.count(("post", key))
                    if n_pre != 2 or n_post != 2:
                        return f"{how}, {mode}: two active callbacks share their pretask/posttask functions; task {key!r} got {n_pre} pretask and {n_post} posttask calls, expected 2 and 2"
    finally:
        Callback.active = set()
    return None


def flaky_rerun_case():
    """rerun_exceptions_locally with a task that fails on the worker and passes when re-run: every executed task still gets
    exactly one pretask before exactly one posttask, and finish runs once"""
    import threading

    import dask
    import dask.threaded as TH
    from dask.callbacks import Callback
    from dask._task_spec import Task, TaskRef

    main = threading.main_thread()

    def flaky():
        if threading.current_thread() is not main:
            raise RuntimeError("only fails off the main thread")
        return 5

    log = []
    cb = Callback(pretask=lambda k, d, s: log.append(("pre", k)), posttask=lambda k, r, d, s, w: log.append(("post", k)), finish=lambda d, s, f: log.append(("finish", f)))
    dsk = {"a": Task("a", flaky), "b": Task("b", lambda v: 1, TaskRef("a"))}
    Callback.active = set()
    try:
        for how in ("argument", "config"):
            log.clear()
            try:
                with cb:
                    if how == "argument":
                        TH.get(dsk, "b", num_workers=2, rerun_exceptions_locally=True)
                    else:
                        with dask.config.set(rerun_exceptions_locally=True):
                            TH.get(dsk, "b", num_workers=2)
            except Exception:  # noqa  (whether the call recovers or raises is not what is checked here)
                pass
            for key in ("a", "b"):
                n_pre, n_post = log.count(("pre", key)), log.count(("post", key))
                if n_pre > 1 or n_post > n_pre or (n_pre == 1 and n_post == 0 and ("post", "b") in log):
                    return f"rerun_exceptions_locally ({how}): task {key!r} got {n_pre} pretask and {n_post} posttask calls although its dependent ran: {log}"
            if sum(1 for e in log if e[0] == "finish") != 1:
                return f"rerun_exceptions_locally ({how}): finish callbacks ran {sum(1 for e in log if e[0] == 'finish')} times: {log}"
    finally:
        Callback.active = set()
    return None


def sweep(tier, seed=0, length=None):
    import time

    t0 = time.time()
    length = length or (4 if tier == "quick" else 6)
    cases = 0
    fails = []
    sample = None
    for name, case in (("two callbacks sharing their hook functions", shared_hook_case), ("flaky task with rerun_exceptions_locally", flaky_rerun_case)):
        cases += 1
        try:
            msg = case()
        except Exception as e:  # noqa
            msg = f"{type(e).__name__}: {e}"
        if msg:
            fails.append(rtc.Failure("get_async", {"scenario": name}, "ensures", "C05-every-active-callback-sees-every-task", msg))
    for h in histories(2, length):
        cases += 1
        if sample is None and len(h) == 3:
            sample = h
        msg = run_history(h)
        if msg:
            fails.append(rtc.Failure("add_callbacks.__exit__", {"history": h}, "ensures", "C05-never-deactivates-others", msg))
            if len(fails) >= 3:
                break
        if tier != "quick" and time.time() - t0 > 900:
            break
    return {
        "function": "dask/callbacks.py (real Callback/add_callbacks objects, nested histories)",
        "bounded": True,
        "bound": {"callback_objects": 2, "history_length": length, "ops": "enter Callback / enter add_callbacks(1 or 2 cbs) / register / unregister / exit / get_sync / get_sync(callbacks=[cb]) / failing get_sync / get_sync on a graph with a missing dependency or a cycle"},
        "cases": cases, "distinct_nontrivial": cases, "failures_found": len(fails), "wall_s": round(time.time() - t0, 2),
        "samples": [{"native_case": rtc._jsonable(sample)}], "failures": fails,
    }


def replay(native):
    args = eval(native["args_repr"])
    if "scenario" in args:
        msg = shared_hook_case() if "sharing" in args["scenario"] else flaky_rerun_case()
        return {"reproduced": True, "detail": msg} if msg else None
    msg = run_history(tuple(args["history"]))
    return {"reproduced": True, "detail": msg} if msg else None
