"""E2 for C07 (toposort / getcycle / isdag): all small digraphs, all start sets, several hash seeds
(set iteration order is an input the contracts treat as arbitrary).  Each seed runs in its own process."""
import itertools
import json
import os
import subprocess
import sys
import time

from . import rtc

WORKER = r'''
import itertools, json, signal, sys
sys.setrecursionlimit(10000)
from dask.core import toposort, getcycle, isdag
def f(*a): pass
class TO(Exception): pass
def alarm(*a): raise TO()
signal.signal(signal.SIGALRM, alarm)
N = int(sys.argv[1])
names = "abcdef"[:N]
fails = []
cases = 0
def reach(g, keys):
    seen=set(); st=list(keys)
    while st:
        k=st.pop()
        if k in seen: continue
        seen.add(k); st.extend(g[k])
    return seen
def has_cycle(g, nodes):
    color={}
    def dfs(u):
        color[u]=1
        for v in g[u]:
            if color.get(v)==1: return True
            if v not in color and dfs(v): return True
        color[u]=2; return False
    return any(u not in color and dfs(u) for u in nodes)
edges=[(a,b) for a in names for b in names]
for mask in range(2**len(edges)):
    g={a:[] for a in names}
    for i,(a,b) in enumerate(edges):
        if mask>>i & 1: g[a].append(b)
    dsk={a:(f,)+tuple(g[a]) for a in names}
    cyc_all = has_cycle(g, names)
    cases+=1
    try:
        signal.setitimer(signal.ITIMER_REAL, 2)
        try:
            o = toposort(dsk)
            signal.setitimer(signal.ITIMER_REAL, 0)
            if cyc_all: fails.append((g,None,"toposort returned %r on a cyclic graph"%(o,)))
            elif sorted(o)!=sorted(names) or any(o.index(d)>o.index(k) for k in names for d in g[k]):
                fails.append((g,None,"toposort order %r is not topological / not a permutation"%(o,)))
        except RuntimeError:
            signal.setitimer(signal.ITIMER_REAL, 0)
            if not cyc_all: fails.append((g,None,"toposort raised on an acyclic graph"))
    except TO:
        fails.append((g,None,"toposort does not terminate (2 s)"))
    for r in range(1,N+1):
        for keys in itertools.combinations(names,r):
            cases+=1
            R=reach(g,keys); cyc=has_cycle(g,sorted(R))
            try:
                signal.setitimer(signal.ITIMER_REAL, 2)
                c=getcycle(dsk,list(keys)); d=isdag(dsk,list(keys))
                signal.setitimer(signal.ITIMER_REAL, 0)
            except TO:
                fails.append((g,keys,"getcycle does not terminate (2 s)")); continue
            except Exception as e:
                signal.setitimer(signal.ITIMER_REAL, 0)
                fails.append((g,keys,"getcycle raised %r"%(e,))); continue
            if d != (not c): fails.append((g,keys,"isdag=%r disagrees with getcycle=%r"%(d,c)))
            if cyc and not c: fails.append((g,keys,"getcycle found no cycle although one is reachable"))
            if c:
                ok = len(c)>=2 and c[0]==c[-1] and all(c[i+1] in g[c[i]] for i in range(len(c)-1)) and set(c)<=R
                if not ok or not cyc: fails.append((g,keys,"getcycle returned %r which is not a dependency cycle reachable from the keys"%(c,)))
    # start keys given as a single (possibly falsy) key, and the empty list
    inames = list(range(N))
    gi = {i: [names.index(b) for b in g[names[i]]] for i in inames}
    dski = {i: (f,) + tuple(gi[i]) for i in inames}
    for single in inames + [[]]:
        cases += 1
        ks = [single] if not isinstance(single, list) else single
        R = reach(gi, ks); cyc = has_cycle(gi, sorted(R))
        try:
            signal.setitimer(signal.ITIMER_REAL, 2)
            c = getcycle(dski, single); d = isdag(dski, single)
            signal.setitimer(signal.ITIMER_REAL, 0)
        except TO:
            fails.append((gi, single, "getcycle does not terminate (2 s)")); continue
        except Exception as e:
            signal.setitimer(signal.ITIMER_REAL, 0)
            fails.append((gi, single, "getcycle raised %r" % (e,))); continue
        if d != (not c) or bool(c) != cyc or (c and not set(c) <= R):
            fails.append((gi, single, "getcycle(keys=%r) -> %r, isdag %r; reachable cycle: %r" % (single, c, d, cyc)))
    if len(fails)>=5: break
print(json.dumps({"cases":cases,"fails":fails[:5]}))
'''


def sweep(tier, seed=0):
    t0 = time.time()
    seeds = list(range(8)) if tier == "quick" else list(range(16))
    N = 4
    env = dict(os.environ)
    procs = []
    for s in seeds:
        e = dict(env, PYTHONHASHSEED=str(s))
        procs.append((s, subprocess.Popen([sys.executable, "-c", WORKER, str(N)], stdout=subprocess.PIPE, stderr=subprocess.PIPE, text=True, env=e)))
    cases, fails = 0, []
    for s, p in procs:
        try:
            out, err = p.communicate(timeout=3000)
            r = json.loads(out.strip().splitlines()[-1])
        except Exception as e:  # noqa
            fails.append(rtc.Failure("_toposort", {"hashseed": s}, "exception", "worker", f"worker failed: {e!r}"))
            continue
        cases += r["cases"]
        for g, keys, msg in r["fails"]:
            fails.append(rtc.Failure("_toposort", {"graph": g, "keys": keys, "hashseed": s}, "timeout" if "terminate" in msg else "ensures", "C07", msg))
    return {"function": "dask/core.py:toposort/getcycle/isdag (real code)", "bounded": True,
            "bound": {"nodes": N, "graphs": "every digraph incl. self-loops", "keys": "every non-empty start set", "PYTHONHASHSEED": seeds, "timeout_s": 2},
            "cases": cases, "distinct_nontrivial": cases, "failures_found": len(fails), "wall_s": round(time.time() - t0, 2),
            "samples": [{"native_case": {"graph": {"a": ["b"], "b": ["a"], "c": []}, "keys": ["a"], "hashseed": 2}}], "failures": fails[:5], "exhaustive": True}
