"""E2 for C07 (toposort / getcycle / isdag): all small digraphs, all start sets, several hash seeds
(set iteration order is an input the contracts treat as arbitrary).  Each seed runs in its own process."""
import itertools
import json
import os
import subprocess
import sys
import time

from . import rtc

WORKER = r'''
import itertools, json, signal, sys
sys.setrecursionlimit(10000)
from dask.core import toposort, getcycle, isdag
def f(*a): pass
class TO(Exception): pass
def alarm(*a): raise TO()
signal.signal(signal.SIGALRM, alarm)
N = int(sys.argv[1])
names = "abcdef"[:N]
fails = []
cases = 0
def reach(g, keys):
    seen=set(); st=list(keys)
    while st:
        k=st.pop()
        if k in seen: continue
        seen.add(k); st.extend(g[k])
    return seen
def has_cycle(g, nodes):
    color={}
    def dfs(u):
        color[u]=1
        for v in g[u]:
            if color.get(v)==1: return True
            if v not in color and dfs(v): return True
        color[u]=2; return False
    return any(u not in color and dfs(u) for u in nodes)
edges=[(a,b) for a in names for b in names]
for mask in range(2**len(edges)):
    g={a:[] for a in names}
    for i,(a,b) in enumerate(edges):
        if mask>>i & 1: g[a].append(b)
    dsk={a:(f,)+tuple(g[a]) for a in names}
    cyc_all = has_cycle(g, names)
    cases+=1
    try:
        signal.setitimer(signal.ITIMER_REAL, 2)
        try:
            o = toposort(dsk)
            signal.setitimer(signal.ITIMER_REAL, 0)
            if cyc_all: fails.append((g,None,"toposort returned %r on a cyclic graph"%(o,)))
            elif sorted(o)!=sorted(names) or any(o.index(d)>o.index(k) for k in names for d in g[k]):
                fails.append((g,None,"toposort order %r is not topological / not a permutation"%(o,)))
        except RuntimeError:
            signal.setitimer(signal.ITIMER_REAL, 0)
            if not cyc_all: fails.append((g,None,"toposort raised on an acyclic graph"))
    except TO:
        fails.append((g,None,"toposort does not terminate (2 s)"))
    for r in range(1,N+1):
        for keys in itertools.combinations(names,r):
            cases+=1
            R=reach(g,keys); cyc=has_cycle(g,sorted(R))
            try:
                signal.setitimer(signal.ITIMER_REAL, 2)
                c=getcycle(dsk,list(keys)); d=isdag(dsk,list(keys))
                signal.setitimer(signal.ITIMER_REAL, 0)
            except TO:
                fails.append((g,keys,"getcycle does not terminate (2 s)")); continue
            except Exception as e:
                signal.setitimer(signal.ITIMER_REAL, 0)
                fails.append((g,keys,"getcycle raised %r"%(e,))); continue
            if d != (not c): fails.append((g,keys,"isdag=%r disagrees with getcycle=%r"%(d,c)))
            if cyc and not c: fails.append((g,keys,"getcycle found no cycle although one is reachable"))
            if c:
                ok = len(c)>=2 and c[0]==c[-1] and all(c[i+1] in g[c[i]] for i in range(len(c)-1)) and set(c)<=R
                if not ok or not cyc: fails.append((g,keys,"getcycle returned %r which is not a dependency cycle reachable from the keys"%(c,)))
    # start keys given as a single (possibly falsy) key, and the empty list
    inames = list(range(N))
    gi = {i: [names.index(b) for b in g[names[i]]] for i in inames}
    dski = {i: (f,) + tuple(gi[i]) for i in inames}
    for single in inames + [[]]:
        cases += 1
        ks = [single] if not isinstance(single, list) else single
        R = reach(gi, ks); cyc = has_cycle(gi, sorted(R))
        try:
            signal.setitimer(signal.ITIMER_REAL, 2)
            c = getcycle(dski, single); d = isdag(dski, single)
            signal.setitimer(signal.ITIMER_REAL, 0)
        except TO:
            fails.append((gi, single, "getcycle does not terminate (2 s)")); continue
        except Exception as e:
            signal.setitimer(signal.ITIMER_REAL, 0)
            fails.append((gi, single, "getcycle raised %r" % (e,))); continue
        if d != (not c) or bool(c) != cyc or (c and not set(c) <= R):
            fails.append((gi, single, "getcycle(keys=%r) -> %r, isdag %r; reachable cycle: %r" % (single, c, d, cyc)))
    if len(fails)>=5: break
print(json.dumps({"cases":cases,"fails":fails[:5]}))
'''


WORKER5 = r'''
import json, signal, sys
from dask.core import toposort, getcycle, isdag
def f(*a): pass
class TO(Exception): pass
def alarm(*a): raise TO()
signal.signal(signal.SIGALRM, alarm)
N, part, nparts, maxedges = (int(x) for x in sys.argv[1:5])
edges = [(a, b) for a in range(N) for b in range(N) if a != b]
E = len(edges)
fails = []; cases = 0
def reach(g, k):
    seen = set(); st = [k]
    while st:
        x = st.pop()
        if x in seen: continue
        seen.add(x); st.extend(g[x])
    return seen
def cyclic_within(g, nodes):
    # Kahn on the induced subgraph
    indeg = {u: 0 for u in nodes}
    for u in nodes:
        for v in g[u]:
            indeg[v] += 1
    st = [u for u in nodes if indeg[u] == 0]; n = 0
    while st:
        u = st.pop(); n += 1
        for v in g[u]:
            indeg[v] -= 1
            if indeg[v] == 0: st.append(v)
    return n != len(nodes)
def bad_cycle(c, g, R):
    return not (len(c) >= 2 and c[0] == c[-1] and all(c[i + 1] in g[c[i]] for i in range(len(c) - 1)) and set(c) <= R)
for mask in range(part, 2 ** E, nparts):
    if bin(mask).count("1") > maxedges: continue
    g = {a: [] for a in range(N)}
    for i, (a, b) in enumerate(edges):
        if mask >> i & 1: g[a].append(b)
    dsk = {a: (f,) + tuple(g[a]) for a in range(N)}
    cases += 1
    signal.setitimer(signal.ITIMER_REAL, 5)
    try:
        cyc_all = cyclic_within(g, list(range(N)))
        try:
            o = toposort(dsk)
            if cyc_all or sorted(o) != list(range(N)) or any(o.index(d) > o.index(k) for k in g for d in g[k]):
                fails.append((g, None, "toposort returned %r" % (o,)))
        except RuntimeError:
            if not cyc_all: fails.append((g, None, "toposort raised on an acyclic graph"))
        for keys in [list(range(N))] + list(range(N)):
            ks = keys if isinstance(keys, list) else [keys]
            R = set().union(*[reach(g, k) for k in ks])
            cyc = cyclic_within(g, sorted(R))
            try:
                c = getcycle(dsk, keys); d = isdag(dsk, keys)
            except TO:
                raise
            except Exception as e:
                fails.append((g, keys, "getcycle raised %r" % (e,))); continue
            if d != (not c) or bool(c) != cyc or (c and bad_cycle(c, g, R)):
                fails.append((g, keys, "getcycle -> %r, isdag %r; a cycle is reachable: %r" % (c, d, cyc)))
    except TO:
        fails.append((g, None, "does not terminate (5 s)"))
    signal.setitimer(signal.ITIMER_REAL, 0)
    if len(fails) >= 3: break
print(json.dumps({"cases": cases, "fails": fails[:3]}))
'''

WORKER_TUPLE = r'''
import itertools, json, sys
from dask.core import toposort, getcycle, isdag
def f(*a): pass
# keys of the usual dask form (name, i), next to keys that are the ELEMENTS of such a tuple
names = [("x", 0), "x", 0, ("x", 1)]
import signal
class TO(BaseException): pass
def _alarm(*a): raise TO()
signal.signal(signal.SIGALRM, _alarm)
N = len(names)
edges = [(a, b) for a in range(N) for b in range(N)]
fails = []; cases = 0
def reach(g, k):
    seen = set(); st = [k]
    while st:
        x = st.pop()
        if x in seen: continue
        seen.add(x); st.extend(g[x])
    return seen
def has_cycle(g, nodes):
    color = {}
    def dfs(u):
        color[u] = 1
        for v in g[u]:
            if color.get(v) == 1: return True
            if v not in color and dfs(v): return True
        color[u] = 2; return False
    return any(u not in color and dfs(u) for u in nodes)
from dask._task_spec import Task, TaskRef
for mask in range(2 ** len(edges)):
    g = {a: [] for a in range(N)}
    for i, (a, b) in enumerate(edges):
        if mask >> i & 1: g[a].append(b)
    gn = {names[a]: [names[b] for b in g[a]] for a in range(N)}
    dsk = {names[a]: Task(names[a], f, *[TaskRef(names[b]) for b in g[a]]) for a in range(N)}
    for single in names:
        cases += 1
        R = reach(gn, single); cyc = has_cycle(gn, list(R))
        signal.setitimer(signal.ITIMER_REAL, 5)
        try:
            c = getcycle(dsk, single); d = isdag(dsk, single)
        except TO:
            fails.append((repr(gn), repr(single), "does not terminate (5 s)")); continue
        except Exception as e:
            fails.append((repr(gn), repr(single), "getcycle raised %r" % (e,))); continue
        finally:
            signal.setitimer(signal.ITIMER_REAL, 0)
        ok = d == (not c) and bool(c) == cyc and (not c or (c[0] == c[-1] and all(c[i + 1] in gn[c[i]] for i in range(len(c) - 1)) and set(c) <= R))
        if not ok:
            fails.append((repr(gn), repr(single), "getcycle(single key %r) -> %r, isdag %r; a cycle is reachable: %r" % (single, c, d, cyc)))
    if len(fails) >= 3: break
print(json.dumps({"cases": cases, "fails": fails[:3]}))
'''


def _run_workers(cmds, env, label, fails):
    procs = [subprocess.Popen(c, stdout=subprocess.PIPE, stderr=subprocess.PIPE, text=True, env=env) for c in cmds]
    cases = 0
    for c, p in zip(cmds, procs):
        try:
            out, err = p.communicate(timeout=6000)
            r = json.loads(out.strip().splitlines()[-1])
        except Exception as e:  # noqa
            fails.append(rtc.Failure("_toposort", {"worker": label}, "exception", "worker", f"worker failed: {e!r} {err[-300:] if 'err' in dir() else ''}"))
            continue
        cases += r["cases"]
        for g, keys, msg in r["fails"]:
            fails.append(rtc.Failure("_toposort", {"graph": g, "keys": keys, "family": label}, "timeout" if "terminate" in msg else "ensures", "C07", msg))
    return cases


def sweep5(tier, seed=0):
    """Every digraph on 5 integer-labelled nodes without self-loops (quick: at most 8 edges), start keys: all / each
    single key.  Integer labels fix the set iteration order, all labelled graphs cover every relative order."""
    t0 = time.time()
    fails = []
    nparts = 14
    maxedges = 8 if tier == "quick" else 20
    env = dict(os.environ, PYTHONHASHSEED="0")
    cases = _run_workers([[sys.executable, "-c", WORKER5, "5", str(i), str(nparts), str(maxedges)] for i in range(nparts)], env, "5 nodes", fails)
    cases += _run_workers([[sys.executable, "-c", WORKER_TUPLE]], env, "tuple keys given as a single start key", fails)
    return {"function": "dask/core.py:toposort/getcycle/isdag (real code), 5-node digraphs and tuple start keys", "bounded": True,
            "bound": {"nodes": 5, "edges": f"<= {maxedges}, no self-loops", "keys": "all keys / every single key", "tuple keys": "every digraph incl. self-loops on the keys ('x',0), 'x', 0, ('x',1), each given as a single start key", "timeout_s": 5},
            "cases": cases, "distinct_nontrivial": cases, "failures_found": len(fails), "wall_s": round(time.time() - t0, 2),
            "samples": [{"native_case": {"graph": {"0": [1, 2], "1": [3], "2": [4, 1], "3": [4], "4": [1]}, "keys": 0}}], "failures": fails[:5], "exhaustive": True}


def sweep(tier, seed=0):
    t0 = time.time()
    seeds = list(range(8)) if tier == "quick" else list(range(16))
    N = 4
    env = dict(os.environ)
    procs = []
    for s in seeds:
        e = dict(env, PYTHONHASHSEED=str(s))
        procs.append((s, subprocess.Popen([sys.executable, "-c", WORKER, str(N)], stdout=subprocess.PIPE, stderr=subprocess.PIPE, text=True, env=e)))
    cases, fails = 0, []
    for s, p in procs:
        try:
            out, err = p.communicate(timeout=3000)
            r = json.loads(out.strip().splitlines()[-1])
        except Exception as e:  # noqa
            fails.append(rtc.Failure("_toposort", {"hashseed": s}, "exception", "worker", f"worker failed: {e!r}"))
            continue
        cases += r["cases"]
        for g, keys, msg in r["fails"]:
            fails.append(rtc.Failure("_toposort", {"graph": g, "keys": keys, "hashseed": s}, "timeout" if "terminate" in msg else "ensures", "C07", msg))
    return {"function": "dask/core.py:toposort/getcycle/isdag (real code)", "bounded": True,
            "bound": {"nodes": N, "graphs": "every digraph incl. self-loops", "keys": "every non-empty start set", "PYTHONHASHSEED": seeds, "timeout_s": 2},
            "cases": cases, "distinct_nontrivial": cases, "failures_found": len(fails), "wall_s": round(time.time() - t0, 2),
            "samples": [{"native_case": {"graph": {"a": ["b"], "b": ["a"], "c": []}, "keys": ["a"], "hashseed": 2}}], "failures": fails[:5], "exhaustive": True}
