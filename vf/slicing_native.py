"""E2 for C20: real dask.array indexing vs NumPy (bounded stand-in) + native runs of the slicing kernels."""
import itertools
import time

from . import rtc
from .overlap_native import chunkings


def slices(lo, hi):
    vals = [None] + list(range(lo, hi + 1))
    for a in vals:
        for b in vals:
            for c in vals:
                if c != 0:
                    yield slice(a, b, c)


def sweep(tier, seed=0):
    import numpy as np

    import dask
    import dask.array as da
    from dask.array.slicing import _slice_1d, new_blockdim, normalize_slice

    t0 = time.time()
    cases, fails = 0, []
    budget = 50 if tier == "quick" else 1200
    maxn = 4 if tier == "quick" else 6
    rng = 6 if tier == "quick" else 8
    # ---- kernels: normalize_slice keeps the selection; _slice_1d decomposes it per block
    for n in range(0, maxn + 1):
        for s in slices(-rng, rng):
            cases += 1
            want = list(range(n))[s]
            ns = normalize_slice(s, n)
            got = list(range(n))[ns]
            if got != want:
                fails.append(rtc.Failure("normalize_slice", {"idx": s, "dim": n}, "ensures", "C20-normalize_slice-keeps-selection", f"normalized to {ns}: selects {got}, original selects {want}"))
                if len(fails) >= 4:
                    break
        if len(fails) >= 4:
            break
    kern_fail = len(fails)
    for n in range(1, maxn + 1):
        if time.time() - t0 > budget / 2:
            break
        chs = list(chunkings(n)) + [c[:i] + (0,) + c[i:] for c in chunkings(n) for i in range(len(c) + 1)][: 40 if tier == "quick" else 400]
        for ch in chs:
            bounds = [0]
            for c in ch:
                bounds.append(bounds[-1] + c)
            for s in slices(-n - 1, n + 1):
                ns = normalize_slice(s, n)
                cases += 1
                want = list(range(n))[s]
                try:
                    d = _slice_1d(n, list(ch), ns)
                    got = []
                    for blk in d:
                        sel = list(range(bounds[blk], bounds[blk + 1]))[d[blk]] if isinstance(d[blk], slice) else [bounds[blk] + d[blk]]
                        got += sel
                    nb = new_blockdim(n, list(ch), ns)
                    msg = None
                    if got != want:
                        msg = f"_slice_1d -> {d}: selects positions {got}, NumPy selects {want}"
                    elif sum(nb) != len(want):
                        msg = f"new_blockdim {nb} does not add up to the {len(want)} selected elements"
                except Exception as e:  # noqa
                    msg = f"{type(e).__name__}: {e}"
                if msg:
                    fails.append(rtc.Failure("_slice_1d", {"dim_shape": n, "lengths": ch, "index": ns, "original": s}, "ensures", "C20-slice-decomposition", msg))
                    if len(fails) - kern_fail >= 4:
                        break
            if len(fails) - kern_fail >= 4:
                break
        if len(fails) - kern_fail >= 4:
            break
    # ---- end to end on the real array code
    e2e_fail = 0
    with dask.config.set(scheduler="sync"):
        for n in range(1, maxn + 1):
            x = np.arange(n) * 10
            chs = list(chunkings(n)) + [(0,) + c for c in itertools.islice(chunkings(n), 2)] + [c[:1] + (0,) + c[1:] for c in itertools.islice(chunkings(n), 3)]
            for ch in chs:
                d = da.from_array(x, chunks=(ch,))
                idxs = list(slices(-n - 1, n + 1)) + list(range(-n, n)) + [None, Ellipsis, [0], list(range(n))[::-1], [0, 0], np.arange(n) % 2 == 0]
                for ix in idxs:
                    cases += 1
                    try:
                        want = x[ix]
                        r = d[ix]
                        got = r.compute()
                        ok = np.array_equal(got, want) and tuple(r.shape) == tuple(np.shape(want)) and (not r.shape or sum(r.chunks[0]) == np.shape(want)[0])
                        msg = None if ok else f"dask gives {got.tolist() if hasattr(got, 'tolist') else got} (lazy shape {r.shape}, chunks {r.chunks}), NumPy gives {np.asarray(want).tolist()}"
                    except Exception as e:  # noqa
                        msg = f"{type(e).__name__}: {e}"
                    if msg:
                        fails.append(rtc.Failure("Array.__getitem__", {"n": n, "chunks": ch, "index": ix if not isinstance(ix, np.ndarray) else ix.tolist()}, "ensures", "C20-equals-numpy", msg))
                        e2e_fail += 1
                        if e2e_fail >= 4:
                            break
                if e2e_fail >= 4 or time.time() - t0 > budget:
                    break
            if e2e_fail >= 4 or time.time() - t0 > budget:
                break
        # integer-list indexers, exhaustively for tiny axes; point-wise (vindex) selection with shared indexer arrays
        if e2e_fail == 0:
            for n in (2, 3) if tier == "quick" else (2, 3, 4):
                x = np.arange(n) * 10 + 1
                for ch in [(n,), (1,) * n] + ([(1, n - 1)] if n > 2 else []):
                    d = da.from_array(x, chunks=(ch,))
                    for ln in range(1, n + 2):
                        for ix in itertools.product(range(-n, n), repeat=ln):
                            cases += 1
                            want = x[list(ix)]
                            try:
                                r = d[list(ix)]
                                got = r.compute()
                                msg = None if (np.array_equal(got, want) and r.shape == want.shape) else f"dask gives {got.tolist()}, NumPy gives {want.tolist()}"
                            except Exception as e:  # noqa
                                msg = f"{type(e).__name__}: {e}"
                            if msg:
                                fails.append(rtc.Failure("Array.__getitem__", {"n": n, "chunks": ch, "index": list(ix)}, "ensures", "C20-equals-numpy", msg))
                                e2e_fail += 1
                                break
                        if e2e_fail:
                            break
                    if e2e_fail:
                        break
                if e2e_fail:
                    break
            x2 = np.arange(40).reshape(5, 8)
            for ch in [((5,), (8,)), ((2, 3), (3, 5)), ((1,) * 5, (4, 4))]:
                d2 = da.from_array(x2, chunks=ch)
                for pts in [[-1, -2, 0, 3], [0, 1], [-5, 4, -1], [2, 2, 2]]:
                    for shared in (True, False):
                        cases += 1
                        i0 = np.array(pts)
                        i1 = i0 if shared else np.array(pts)
                        before = i0.copy()
                        want = x2[np.array(pts), np.array(pts)]
                        try:
                            got = d2.vindex[i0, i1].compute()
                            msg = None if np.array_equal(got, want) else f"vindex gives {got.tolist()}, NumPy point selection gives {want.tolist()}"
                            if msg is None and not np.array_equal(i0, before):
                                msg = f"vindex modified the caller's indexer array: {before.tolist()} -> {i0.tolist()}"
                        except Exception as e:  # noqa
                            msg = f"{type(e).__name__}: {e}"
                        if msg:
                            fails.append(rtc.Failure("Array.vindex", {"chunks": ch, "points": pts, "same_array_for_both_axes": shared}, "ensures", "C20-vindex-equals-numpy", msg))
                            e2e_fail += 1
        # vindex keys that mix a scalar integer / a slice with point indexers, on non-square arrays (the points are
        # checked against the axis they address): dask follows NumPy's rule for the combined selection
        if e2e_fail == 0:
            for shape, ch in [((7, 8), ((3, 4), (5, 3))), ((8, 5), ((8,), (2, 3))), ((3, 5), ((1, 1, 1), (1,) * 5))]:
                xv = np.arange(shape[0] * shape[1]).reshape(shape)
                dv = da.from_array(xv, chunks=ch)
                keys = [(0, [1, -1]), (2, [shape[1] - 1, 0]), (-1, [0, 2, -2]), ([1, -1], 0), ([shape[0] - 1, 0], -2), ([0, 1, -1], [1, -1, 0]), ([-1], [-1])]   # (slices are left out: vindex documents its own axis order for them)
                for key in keys:
                    cases += 1
                    try:
                        want = xv[key]
                        got = dv.vindex[key].compute()
                        msg = None if (got.shape == want.shape and np.array_equal(got, want)) else f"vindex{list(key)!r} gives {got.tolist()}, NumPy gives {want.tolist()}"
                    except Exception as e:  # noqa
                        msg = f"vindex{list(key)!r} raised {type(e).__name__}: {e}"
                    if msg:
                        fails.append(rtc.Failure("Array.vindex", {"shape": shape, "chunks": ch, "key": repr(key), "scalar_with_points": True}, "ensures", "C20-vindex-equals-numpy", msg))
                        e2e_fail += 1
                        break
        # integer-array selection from irregular chunkings whose longest chunk is longer than 256 (and 65536) while the
        # others are short: offsets inside the long chunk need more than one byte
        if e2e_fail == 0:
            rnd_t = __import__("random").Random(seed)
            for chunks in [(300, 20, 20), (20, 300, 20), (5, 5, 270), (260, 260), (70000, 10, 10)] if tier != "quick" else [(300, 20, 20), (20, 300, 20), (5, 5, 270), (70000, 10, 10)]:
                n_ = sum(chunks)
                xt = np.arange(n_) * 10
                dt = da.from_array(xt, chunks=(chunks,))
                for idx in [[299, 3, n_ - 30, 260, 0, n_ - 10], sorted(rnd_t.sample(range(n_), 12)), [rnd_t.randrange(n_) for _ in range(15)], [n_ - 1, 0, 255, 256, 257]]:
                    idx = [i_ for i_ in idx if 0 <= i_ < n_]
                    cases += 1
                    try:
                        got = dt[idx].compute()
                        want = xt[idx]
                        msg = None if np.array_equal(got, want) else f"x[{idx}] on chunks {chunks}: dask gives {got.tolist()[:8]}, NumPy gives {want.tolist()[:8]}"
                    except Exception as e:  # noqa
                        msg = f"x[{idx}] on chunks {chunks} raised {type(e).__name__}: {e}"
                    if msg:
                        fails.append(rtc.Failure("Array.__getitem__", {"n": n_, "chunks": chunks, "index": idx}, "ensures", "C20-equals-numpy", msg))
                        e2e_fail += 1
                        break
                if e2e_fail:
                    break
        # a DASK integer array as indexer, with many (repeated, unsorted) entries per indexer chunk, 1-d and along axis 1
        if e2e_fail == 0:
            rnd_i = __import__("random").Random(seed + 1)
            for xshape, xch, axis in [((30,), ((4, 2, 11, 13),), 0), ((6, 30), ((4, 2), (11, 11, 8)), 1), ((30, 3), ((10, 20), (3,)), 0)]:
                xi = np.arange(int(np.prod(xshape))).reshape(xshape) * 7
                di = da.from_array(xi, chunks=xch)
                for nidx, ich in [(90, 45), (40, 40), (64, 16), (5, 2)]:
                    idx = np.array([rnd_i.randrange(xshape[axis]) for _ in range(nidx)])
                    cases += 1
                    try:
                        key = (slice(None),) * axis + (da.from_array(idx, chunks=ich),)
                        got = di[key].compute()
                        want = xi[(slice(None),) * axis + (idx,)]
                        msg = None if (got.shape == want.shape and np.array_equal(got, want)) else f"x[<dask int array of {nidx} entries, chunks {ich}>] along axis {axis} of chunks {xch}: {int((got != want).sum()) if got.shape == want.shape else 'shape'} values differ from NumPy"
                    except Exception as e:  # noqa
                        msg = f"x[<dask int array>] raised {type(e).__name__}: {e}"
                    if msg:
                        fails.append(rtc.Failure("Array.__getitem__", {"shape": xshape, "chunks": xch, "axis": axis, "dask_indexer": {"entries": nidx, "chunks": ich}}, "ensures", "C20-equals-numpy", msg))
                        e2e_fail += 1
                        break
                if e2e_fail:
                    break
        # vindex keys made of slices only: either refused or NumPy's answer, never the array under another order
        if e2e_fail == 0:
            xs_ = np.arange(12).reshape(3, 4)
            ds_ = da.from_array(xs_, chunks=((2, 1), (2, 2)))
            for key in [(slice(None, None, -1),), (slice(None), slice(None, None, -1)), (slice(-1, None, -1), slice(None)), (slice(None),), (slice(None), slice(None)), (slice(None, None, 2),), (slice(1, None),)]:
                cases += 1
                try:
                    got = ds_.vindex[key].compute()
                    want = xs_[key]
                    msg = None if (got.shape == want.shape and np.array_equal(got, want)) else f"vindex{list(key)!r} returns {got.tolist()}, NumPy gives {want.tolist()}"
                except (IndexError, NotImplementedError, ValueError):
                    msg = None   # refusing a key without point indexers is fine
                except Exception as e:  # noqa
                    msg = f"vindex{list(key)!r} raised {type(e).__name__}: {e}"
                if msg:
                    fails.append(rtc.Failure("Array.vindex", {"chunks": ((2, 1), (2, 2)), "key": repr(key), "slices_only": True}, "ensures", "C20-vindex-equals-numpy", msg))
                    e2e_fail += 1
                    break
        # 2-D combinations
        if e2e_fail == 0:
            x = np.arange(12).reshape(3, 4)
            for ch in [((3,), (4,)), ((1, 2), (2, 2)), ((1, 1, 1), (1, 3)), ((2, 1), (4,))]:
                d = da.from_array(x, chunks=ch)
                ixs0 = [slice(None), slice(None, None, -1), slice(1, None), slice(-5, None, -1), 1, -1, [2, 0], None]
                ixs1 = [slice(None), slice(None, None, -2), slice(3, 0, -1), 0, -2, [0, 3, 3], slice(-9, 2)]
                for a in ixs0:
                    for b in ixs1:
                        if isinstance(a, list) and isinstance(b, list):
                            continue
                        cases += 1
                        try:
                            want = x[a, b]
                        except IndexError:
                            continue  # NumPy itself rejects the index
                        try:
                            r = d[a, b]
                            got = r.compute()
                            ok = np.array_equal(got, want) and tuple(r.shape) == tuple(np.shape(want))
                            msg = None if ok else f"dask gives {np.asarray(got).tolist()}, NumPy gives {np.asarray(want).tolist()}"
                        except Exception as e:  # noqa
                            msg = f"{type(e).__name__}: {e}"
                        if msg:
                            fails.append(rtc.Failure("Array.__getitem__", {"shape": (3, 4), "chunks": ch, "index": (a, b)}, "ensures", "C20-equals-numpy", msg))
                            e2e_fail += 1
                    if e2e_fail >= 4:
                        break
                if e2e_fail >= 4:
                    break
        # boolean masks, NumPy and dask, the dask mask chunked independently of the array (full-shape masks and
        # masks over the leading axis only)
        if e2e_fail == 0:
            x = np.arange(24).reshape(4, 6) * 3 + 1
            xchunks = [((4,), (6,)), ((2, 2), (6,)), ((4,), (3, 3)), ((1, 3), (2, 4)), ((2, 2), (3, 3))]
            mchunks = [((4,), (6,)), ((2, 2), (6,)), ((4,), (3, 3)), ((4,), (2, 2, 2)), ((3, 1), (1, 5))]
            masks = [x % 2 == 0, x % 5 < 2, x > 100, x >= 0, (x // 3) % 4 == 1]
            for xc in xchunks:
                d = da.from_array(x, chunks=xc)
                for m in masks:
                    want = x[m]
                    variants = [("numpy mask", m)] + [(f"dask mask chunks {mc}", da.from_array(m, chunks=mc)) for mc in mchunks]
                    for label, mm in variants:
                        cases += 1
                        try:
                            got = d[mm].compute()
                            msg = None if np.array_equal(got, want) else f"x[mask] with a {label} gives {got.tolist()}, NumPy gives {want.tolist()}"
                        except Exception as e:  # noqa
                            msg = f"{type(e).__name__}: {e}"
                        if msg:
                            fails.append(rtc.Failure("Array.__getitem__", {"shape": (4, 6), "chunks": xc, "mask": label, "mask_values": m.astype(int).tolist()}, "ensures", "C20-equals-numpy", msg))
                            e2e_fail += 1
                            break
                    if e2e_fail:
                        break
                    rowmask = m[:, 0]
                    for label, mm in [("numpy row mask", rowmask), ("dask row mask", da.from_array(rowmask, chunks=(1, 3)))]:
                        cases += 1
                        try:
                            got = d[mm].compute()
                            msg = None if np.array_equal(got, x[rowmask]) else f"x[rowmask] with a {label} gives {got.tolist()}, NumPy gives {x[rowmask].tolist()}"
                        except Exception as e:  # noqa
                            msg = f"{type(e).__name__}: {e}"
                        if msg:
                            fails.append(rtc.Failure("Array.__getitem__", {"shape": (4, 6), "chunks": xc, "mask": label, "mask_values": rowmask.astype(int).tolist()}, "ensures", "C20-equals-numpy", msg))
                            e2e_fail += 1
                            break
                if e2e_fail:
                    break
        # None (new axis) combined with an integer-list indexer (and an integer): two recorded findings live here
        if e2e_fail == 0:
            x = np.arange(24).reshape(4, 6)
            d = da.from_array(x, chunks=(2, 3))
            y = np.arange(6)
            e1 = da.from_array(y, chunks=3)
            fam = [(e1, y, (None, [5, 1, 3])), (e1, y, ([5, 1, 3], None)), (e1, y, (None, [1, 2])), (d, x, (None, [1, 2])), (d, x, ([1, 2], None)), (d, x, (0, None, [1, 2])),
                   (d, x, (1, None, [0, 2, 2])), (d, x, (None, slice(None), [1, 2])), (d, x, (slice(None), None, [1, 4])), (d, x, (slice(None), None, [1, 2])), (d, x, (None, [0, 1], slice(None)))]
            for arr, ref, ix in fam:
                cases += 1
                want = ref[ix]
                symptom = None
                try:
                    r = arr[ix]
                    got = r.compute()
                    if not np.array_equal(got, want):
                        msg, symptom = f"dask gives {np.asarray(got).tolist()}, NumPy gives {want.tolist()}", "wrong-value"
                    elif tuple(r.shape) != tuple(got.shape):
                        msg, symptom = f"lazy shape {tuple(r.shape)} but the computed value has shape {tuple(got.shape)}", "lazy-shape"
                    else:
                        msg = None
                except TypeError as ex:
                    msg, symptom = f"TypeError: {ex}", ("concatenate-arrays-axis" if "concatenate_arrays" in str(ex) else "TypeError")
                except Exception as ex:  # noqa
                    msg, symptom = f"{type(ex).__name__}: {ex}", type(ex).__name__
                if msg:
                    fails.append(rtc.Failure("Array.__getitem__", {"shape": ref.shape, "chunks": arr.chunks, "index": ix, "newaxis_and_list": True, "symptom": symptom}, "ensures", "C20-equals-numpy", msg))
    return {"function": "dask/array/slicing.py kernels + Array.__getitem__ (real code vs NumPy; bounded only)", "bounded": True,
            "bound": {"1-D lengths": maxn, "chunkings": "all, plus zero-length chunks inserted", "slices": f"every start/stop/step in [-n-1, n+1] + None", "other": "ints, None, Ellipsis, int lists, boolean mask; 2-D 3x4 combinations; 4x6 boolean masks (NumPy / dask with 5 independent chunkings, row masks) x 5 array chunkings", "time_budget_s": budget},
            "cases": cases, "distinct_nontrivial": cases, "failures_found": len(fails), "wall_s": round(time.time() - t0, 2),
            "samples": [{"native_case": {"n": 5, "chunks": [2, 3], "index": "slice(-10, None, -1)"}}], "failures": fails}
