"""Run the VC generator over the contracts of one contract module and discharge everything."""
import importlib
import time

import z3

from . import extract
from .core import Unsupported
from .engine import Contract, Engine
from .solve import Obligation, solve_all


class FuncReport:
    def __init__(self, contract):
        self.contract = contract
        self.obligations = []
        self.undecided_reason = None
        self.fingerprint = None
        self.dropped = []
        self.models = []
        self.assumes = []
        self.gen_s = 0.0


def make_engine(mod):
    eng = Engine(module_name=mod.MODULE.replace("/", ".").removesuffix(".py"))
    if hasattr(mod, "setup"):
        mod.setup(eng)
    return eng


def generate(mod, only=None):
    """-> list[FuncReport]; obligations generated, not yet solved."""
    reports = []
    contracts = {c.qualname: c for c in mod.CONTRACTS}
    for c in mod.CONTRACTS:
        if c.assumed:
            continue
        if only and c.qualname not in only:
            continue
        rep = FuncReport(c)
        t0 = time.time()
        eng = make_engine(mod)
        eng.contracts = contracts
        try:
            fn = extract.find_def(c.file, c.source)
            body = extract.body_of(fn)
            if c.fragment:
                try:
                    body = c.fragment(body)
                except AssertionError as e:
                    raise LookupError(str(e) or "fragment selector failed") from None
            rep.fingerprint = extract.fingerprint(body)
            obs = eng.verify(c, body, contracts)
            rep.obligations = obs
            rep.pre_env = dict(eng.pre_state.env)
            # vacuity: precondition satisfiable, and a canary `False` postcondition must be refuted
            s = z3.Solver(); s.set("timeout", 5000)
            for h in eng.pre_state.pc:
                s.add(h)
            rep.pre_sat = str(s.check())
            if len(obs) < c.min_obligations:
                rep.undecided_reason = f"only {len(obs)} obligations generated (< {c.min_obligations})"
        except Unsupported as e:
            rep.undecided_reason = f"outside the verified subset: {e}"
        except LookupError as e:
            rep.undecided_reason = f"extraction failed: {e}"
        except (AttributeError, KeyError, TypeError, IndexError, z3.Z3Exception) as e:
            # code that no longer fits the declared model of its data (an attribute the record type does not have, a
            # value of another shape ...): outside the verified subset, never a verdict
            rep.undecided_reason = f"outside the verified subset (the code no longer fits the contract's data model): {type(e).__name__}: {str(e)[:160]}"
        rep.dropped = sorted(getattr(eng, "dropped", []))
        rep.models = sorted(eng.used_models)
        rep.assumes = sorted(getattr(eng, "assumes_used", []))
        rep.called = sorted(eng.called_contracts)
        rep.gen_s = time.time() - t0
        reports.append(rep)
    return reports


def run(modname, only=None, verbose=True):
    mod = importlib.import_module(modname)
    reps = generate(mod, only)
    allobs = [o for r in reps for o in r.obligations]
    t0 = time.time()
    solve_all(allobs)
    if verbose:
        for r in reps:
            n = sum(o.kind != "canary" for o in r.obligations)
            p = sum(o.status == "proved" and o.kind != "canary" for o in r.obligations)
            print(f"{r.contract.qualname}: {p}/{n} proved, gen {r.gen_s:.1f}s", "UNDECIDED: " + r.undecided_reason if r.undecided_reason else "")
            for o in r.obligations:
                if o.status != "proved" and o.kind != "canary":
                    print("   ", o.status, o.name, o.where, f"{o.time:.1f}s", " ".join(o.trail[-6:]))
        slow = sorted(allobs, key=lambda o: -o.time)[:6]
        print("slowest:", [(o.name.split('/')[-1], round(o.time, 1), o.backend) for o in slow])
        print(f"solve wall {time.time()-t0:.1f}s")
    return reps


if __name__ == "__main__":
    import sys

    run(sys.argv[1], sys.argv[2:] or None)
