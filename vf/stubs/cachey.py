"""Minimal stand-in for the third-party `cachey` package (absent from this sandbox), used ONLY by the
bounded native check of C52: a byte-bounded cache with the attributes dask.cache.Cache uses
(`data`, `put(key, value, cost, nbytes)`, `get(key, default)`), evicting oldest entries first."""
import sys


def nbytes(o):
    # like cachey.nbytes: objects that report their own size (NumPy arrays: 0 for an empty one) are believed
    if hasattr(o, "nbytes"):
        return int(o.nbytes)
    return sys.getsizeof(o)


class Cache:
    def __init__(self, available_bytes, limit=0, **kw):
        self.available_bytes = available_bytes
        self.data = {}
        self._nbytes = {}
        self.total = 0

    def put(self, key, value, cost, nbytes=None):
        nb = nbytes if nbytes is not None else sys.getsizeof(value)
        if nb > self.available_bytes:
            return
        if key in self.data:
            self.total -= self._nbytes.pop(key)
            del self.data[key]
        while self.total + nb > self.available_bytes and self.data:
            old = next(iter(self.data))
            self.total -= self._nbytes.pop(old)
            del self.data[old]
        self.data[key] = value
        self._nbytes[key] = nb
        self.total += nb

    def get(self, key, default=None):
        return self.data.get(key, default)

    def __contains__(self, key):
        return key in self.data
