"""thorough tier: deliberate property-breaking edits (on a scratch copy outside /repo and /verif, removed afterwards)
must turn at least one obligation of the edited function red; an edit that stays green is a CHECKER error."""
import importlib
import os
import shutil
import tempfile

from . import extract
from .run import generate
from .solve import solve_all


def run_mutations(mutations):
    """mutations: [(contract_module, qualname, relpath, old_text, new_text)] -> (report list, errors list)"""
    reports, errors = [], []
    real_repo = extract.REPO
    for modname, qual, rel, old, new in mutations:
        src = open(os.path.join(real_repo, rel)).read()
        if src.count(old) != 1:
            errors.append(f"self-test mutation for {qual}: anchor text occurs {src.count(old)} times in {rel} (mutation out of date)")
            continue
        tmp = tempfile.mkdtemp(prefix="vf-mut-")
        try:
            path = os.path.join(tmp, rel)
            os.makedirs(os.path.dirname(path), exist_ok=True)
            with open(path, "w") as f:
                f.write(src.replace(old, new))
            extract.REPO = tmp
            extract._cache.clear()
            os.environ["VF_SELFTEST"] = "1"
            mod = importlib.import_module(modname)
            reps = generate(mod, [qual])
            obs = [o for r in reps for o in r.obligations if o.kind != "canary"]
            undecided = [r.undecided_reason for r in reps if r.undecided_reason]
            solve_all(obs)
            red = [o.group for o in obs if o.status != "proved"]
            reports.append({"function": qual, "edit": f"{old.strip()[:60]!r} -> {new.strip()[:60]!r}", "obligations": len(obs), "red": sorted(set(red))[:4], "undecided": undecided[:1]})
            if not red and not undecided:
                errors.append(f"self-test: the deliberate edit {old.strip()[:50]!r} -> {new.strip()[:50]!r} in {qual} left every obligation green (contract too weak or engine unsound)")
        finally:
            os.environ.pop("VF_SELFTEST", None)
            extract.REPO = real_repo
            extract._cache.clear()
            shutil.rmtree(tmp, ignore_errors=True)
    return reports, errors
