"""Mechanical extraction of the verified text from /repo's working tree (every run).

Nothing is copied into /verif: the AST that is verified is the AST parsed here.  What the
extraction drops is reported by `dropped_summary` (docstrings, annotations, decorators) plus
the per-contract `drop` list (statement prefixes, e.g. warnings / error-message formatting).
"""
import ast
import hashlib
import os

REPO = os.environ.get("VF_REPO", "/repo")

_cache = {}


def parse_file(relpath):
    path = os.path.join(REPO, relpath)
    st = os.stat(path)
    key = (path, st.st_mtime_ns, st.st_size)
    if key not in _cache:
        with open(path) as f:
            src = f.read()
        _cache[key] = (ast.parse(src), src)
    return _cache[key]


def find_def(relpath, qualname):
    """qualname: 'func', 'Class.method', 'func.inner' (nested def)."""
    tree, _ = parse_file(relpath)
    node = tree
    for part in qualname.split("."):
        found = None
        for child in ast.walk(node) if isinstance(node, (ast.FunctionDef, ast.AsyncFunctionDef)) else node.body:
            if isinstance(child, (ast.FunctionDef, ast.ClassDef)) and child.name == part and child is not node:
                # typing.overload stubs come first and share the name: the implementation is the definition without
                # an @overload decorator
                if isinstance(child, ast.FunctionDef) and any(ast.unparse(d).split(".")[-1] == "overload" for d in child.decorator_list):
                    continue
                found = child
                break
        if found is None:
            raise LookupError(f"{qualname} not found in {relpath}")
        node = found
    return node


def body_of(fn):
    body = list(fn.body)
    if body and isinstance(body[0], ast.Expr) and isinstance(body[0].value, ast.Constant) and isinstance(body[0].value.value, str):
        body = body[1:]
    return body


def fingerprint(stmts):
    """Structural fingerprint: statement kinds + loop count + assigned names."""
    kinds = []
    for s in stmts:
        for n in ast.walk(s):
            if isinstance(n, ast.stmt):
                kinds.append(type(n).__name__)
    src = "\n".join(ast.unparse(s) for s in stmts)
    return {
        "statements": len(kinds),
        "loops": sum(1 for k in kinds if k in ("For", "While")),
        "sha256": hashlib.sha256(src.encode()).hexdigest()[:16],
    }


def source_of(stmts):
    return "\n".join(ast.unparse(s) for s in stmts)


DROPPED_ALWAYS = ["docstrings", "type annotations", "decorators", "comments"]
