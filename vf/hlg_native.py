"""E2 for C10: high-level-graph culling, blockwise fusion and annotation fusing on the real code (bounded)."""
import itertools
import random
import time

from . import rtc


def ref_fuse(args):
    out = {}
    for a in args:
        out.update(a)
    if any("retries" in a for a in args):
        out["retries"] = max(a["retries"] for a in args if "retries" in a)
    if any("priority" in a for a in args):
        out["priority"] = max(a["priority"] for a in args if "priority" in a)
    if any("resources" in a for a in args):
        res = {}
        for a in args:
            for k, v in a.get("resources", {}).items():
                res[k] = max(res.get(k, v), v)
        out["resources"] = res
    if any("workers" in a for a in args):
        ws = None
        for a in args:
            if "workers" in a:
                ws = set(a["workers"]) if ws is None else ws & set(a["workers"])
        out["workers"] = ws
    if any("allow_other_workers" in a for a in args):
        out["allow_other_workers"] = all(a["allow_other_workers"] for a in args if "allow_other_workers" in a)
    return out


def annotations_sweep(tier, seed=0):
    from dask.blockwise import _fuse_annotations

    t0 = time.time()
    vals = {
        "retries": [None, 0, 1, 3],
        "priority": [None, -2, 0, 5],
        "resources": [None, {}, {"GPU": 0}, {"GPU": 2}, {"GPU": 1, "MEM": 4}],
        "workers": [None, [], ["w1"], ["w1", "w2"], ["w2", "w3"]],
        "allow_other_workers": [None, False, True],
    }
    singles = []
    for key, vs in vals.items():
        singles += [{key: v} for v in vs if v is not None]
    anns = [{}] + singles + [{"retries": 0, "priority": 0}, {"priority": -2, "workers": []}, {"retries": 2, "resources": {"GPU": 1}, "allow_other_workers": False}]
    cases, fails = 0, []
    combos = list(itertools.product(anns, repeat=2)) + (list(itertools.product(anns[:14], repeat=3)) if tier != "quick" else list(itertools.product(anns[1:10], repeat=3)))
    for args in combos:
        cases += 1
        try:
            got = _fuse_annotations(*[dict(a) for a in args])
            want = ref_fuse(args)
            g2 = dict(got)
            if "workers" in g2:
                g2["workers"] = set(g2["workers"])
            msg = None if g2 == want else f"fused to {got}, the documented rules (max retries/priority/resources, intersect workers, AND allow_other_workers) give {want}"
        except Exception as e:  # noqa
            msg = f"{type(e).__name__}: {e}"
        if msg:
            fails.append(rtc.Failure("_fuse_annotations", {"annotations": list(args)}, "ensures", "C10-fused-annotations-never-loosen", msg))
    return {"function": "dask/blockwise.py:_fuse_annotations (real code) vs the documented rules", "bounded": True, "bound": {"annotation dicts": len(anns), "tuples": "all pairs + triples of a subset; falsy values (0, [], False) included"},
            "cases": cases, "distinct_nontrivial": cases, "failures_found": len(fails), "wall_s": round(time.time() - t0, 2),
            "samples": [{"native_case": {"annotations": [{"priority": -2}, {"priority": 0}]}}], "failures": fails[:5]}


def _outer(a, b):
    return a[:, None] * b[None, :]


def _rowsum_blocks(blocks):
    if isinstance(blocks, list):
        return sum(b.sum(axis=1) for b in blocks)
    return blocks.sum(axis=1)


def _rowmax_block(block):
    return block.max(axis=-1)


def _rowsum_list_only(blocks):
    # concatenate left at None: the function is handed the LIST of blocks along the contracted index
    if not isinstance(blocks, list):
        raise TypeError("a contraction without concatenate=True was handed one concatenated block")
    return sum(b.sum(axis=1) for b in blocks) + 1000 * len(blocks)


def _rowmax_one_block(block):
    # concatenate=True: the function is handed ONE concatenated block
    if isinstance(block, list):
        raise TypeError("a contraction with concatenate=True was handed a list of blocks")
    return block.max(axis=-1) + block.shape[-1]


def _matmul_block(p, q):
    return p @ q


def _root(name, data):
    """2x2-block array whose single layer is a plain task layer (no dependencies)"""
    import numpy as np

    import dask.array as da
    from dask._task_spec import Task
    from dask.highlevelgraph import HighLevelGraph, MaterializedLayer

    lay = MaterializedLayer({(name, i, j): Task((name, i, j), np.array, data[2 * i:2 * i + 2, 2 * j:2 * j + 2].tolist()) for i in range(2) for j in range(2)})
    return da.Array(HighLevelGraph({name: lay}, {name: set()}), name, ((2, 2), (2, 2)), dtype=float)


def cull_sweep(tier, seed=0):
    import numpy as np

    import dask
    import dask.array as da
    from dask.blockwise import Blockwise, optimize_blockwise
    from dask.core import flatten, get_dependencies
    from dask.highlevelgraph import HighLevelGraph

    t0 = time.time()
    rnd = random.Random(seed)
    cases, fails = 0, []

    def stacks():
        x = da.from_array(np.arange(24).reshape(4, 6), chunks=(2, 3), name="x-base")
        y = da.from_array(np.arange(6) * 10, chunks=3, name="y-base")
        yield "elemwise-transpose-sum", ((x + 1).T * 2).sum(axis=0)
        yield "broadcast", (x + y) - 1
        yield "newaxis-contract", (x[:, None, :] * y).sum(axis=2)
        yield "two-inputs", (x + 1) * (x - 1)
        yield "concat-reduce", da.concatenate([x + 1, x * 2], axis=0).max(axis=1)
        yield "dot", da.dot(x + 1, (x.T - 1))
        # the same input under two different index tuples (after fusion: [(sq, ij), (sq, ji)]); also directly
        sq = da.from_array(np.arange(16).reshape(4, 4), chunks=(2, 2), name="sq-base")
        yield "same-input-twice", (sq + 1) + (sq * 3).T
        v = da.from_array(np.arange(6) + 1, chunks=2, name="v-base")
        yield "outer-of-one-input", da.blockwise(_outer, "ij", v, "i", v, "j", dtype=v.dtype)
        # two contraction layers (no concatenate: the function gets the list of blocks) with different numbers of
        # blocks along their contracted index, fused into one consumer
        p = da.from_array(np.arange(12).reshape(4, 3), chunks=(2, 3), name="p-base")
        q = da.from_array(np.arange(24).reshape(4, 6) * 7, chunks=(2, 2), name="q-base")
        sp = da.blockwise(_rowsum_blocks, "i", p, "ij", dtype=p.dtype)
        tq = da.blockwise(_rowsum_blocks, "i", q, "ij", dtype=q.dtype)
        yield "two-contractions", sp * 2 + tq
        q2 = da.from_array(np.arange(16).reshape(4, 4) + 5, chunks=(2, 2), name="q2-base")
        yield "two-contractions-2-vs-3-blocks", da.blockwise(_rowsum_blocks, "i", q2, "ij", dtype=q2.dtype) - tq
        # an elementwise layer over one list-style contraction (concatenate left at None) and one concatenate=True contraction
        xf = da.from_array(np.arange(24.0).reshape(4, 6), chunks=(2, 3), name="xf-base")
        yield "mixed-concatenate", da.blockwise(_rowsum_list_only, "i", xf, "ij", dtype=xf.dtype) + da.blockwise(_rowmax_one_block, "i", xf, "ij", concatenate=True, dtype=xf.dtype)
        yield "mixed-concatenate-reversed", da.blockwise(_rowmax_one_block, "i", xf, "ij", concatenate=True, dtype=xf.dtype) * 2 - da.blockwise(_rowsum_list_only, "i", xf, "ij", dtype=xf.dtype)
        # plain task layers without dependencies under two levels of blockwise layers (what fuse_roots folds, twice)
        rx, ry, rw = _root("rx", np.arange(16.0).reshape(4, 4)), _root("ry", np.arange(16.0).reshape(4, 4) + 1), _root("rw", np.arange(16.0).reshape(4, 4) * 3)
        yield "roots-two-levels", da.blockwise(_matmul_block, "ij", rx, "ik", ry, "kj", concatenate=True, dtype=float) + rw

    with dask.config.set(scheduler="sync"):
        for name, arr in stacks():
            hlg = arr.__dask_graph__()
            if not isinstance(hlg, HighLevelGraph):
                hlg = HighLevelGraph.from_collections(arr.name, hlg, dependencies=())
            full = dict(hlg)
            keys_all = list(flatten(arr.__dask_keys__()))
            want_all = {k: v for k, v in zip(keys_all, dask.get(full, keys_all))}
            subsets = [keys_all, keys_all[:1], keys_all[-1:]] + [rnd.sample(keys_all, max(1, len(keys_all) // 2)) for _ in range(2 if tier == "quick" else 8)]
            for ks in subsets:
                cases += 1
                try:
                    c1 = hlg.cull(set(ks))
                    c2 = c1.cull(set(ks))
                    c3 = c1.cull(set(ks[:1]))
                    msg = None
                    for label, g, kk in (("cull", c1, ks), ("cull of an already culled graph", c2, ks), ("second cull to fewer keys", c3, ks[:1])):
                        d = dict(g)
                        missing = [dep for k in d for dep in get_dependencies(d, k) if dep not in d]
                        if missing:
                            msg = f"{label}: keys {missing[:3]} needed by the kept tasks were dropped"
                            break
                        got = dask.get(d, list(kk))
                        if any(not np.array_equal(a, want_all[k]) for a, k in zip(got, kk)):
                            msg = f"{label}: computed values differ from the unculled graph"
                            break
                    # blockwise layers: culled dependencies == dependencies of the materialised tasks
                    if msg is None:
                        for lname, layer in hlg.layers.items():
                            if isinstance(layer, Blockwise):
                                out_keys = {k for k in layer.get_output_keys()}
                                sel = set(rnd.sample(sorted(out_keys, key=str), max(1, len(out_keys) // 2)))
                                culled, deps = layer.cull(sel, set(full))   # (the layer was materialised by dict(hlg) above)
                                mat = dict(culled)
                                if set(mat) != set(sel) or set(culled.get_output_keys()) != set(sel):
                                    msg = f"Blockwise.cull to {len(sel)} output keys of {lname}: the culled layer materialises {len(mat)} tasks and reports {len(culled.get_output_keys())} output keys"
                                    break
                                for k in sel:
                                    real = set(get_dependencies({**full, **mat}, k))
                                    if set(deps.get(k, ())) != real:
                                        msg = f"Blockwise.cull reports dependencies {sorted(map(str, deps.get(k, ())))[:4]} for {k}, its materialised task needs {sorted(map(str, real))[:4]}"
                                        break
                            if msg:
                                break
                    if msg is None:
                        opt = optimize_blockwise(hlg, keys=list(ks))
                        got = dask.get(dict(opt), list(ks))
                        if any(not np.array_equal(a, want_all[k]) for a, k in zip(got, ks)):
                            msg = "optimize_blockwise (layer fusion) changed the computed values"
                    if msg is None:
                        # fuse_roots, on the layers in the order given, in dependency-first order and in the order
                        # HighLevelGraph.merge leaves them in; before and after blockwise fusion
                        from dask.blockwise import fuse_roots
                        topo = HighLevelGraph({n: hlg.layers[n] for n in hlg._toposort_layers()}, hlg.dependencies)
                        rev = HighLevelGraph({n: hlg.layers[n] for n in reversed(hlg._toposort_layers())}, hlg.dependencies)
                        for label, g0 in (("as given", hlg), ("dependency-first layer order", topo), ("dependents-first layer order", rev), ("after blockwise fusion", opt)):
                            fr = fuse_roots(g0, list(ks))
                            try:
                                got = dask.get(dict(fr), list(ks))
                            except Exception as e:  # noqa
                                msg = f"fuse_roots ({label}): the fused graph cannot be computed: {type(e).__name__}: {e}"
                                break
                            if any(not np.array_equal(a, want_all[k]) for a, k in zip(got, ks)):
                                msg = f"fuse_roots ({label}) changed the computed values"
                                break
                    if msg is None:
                        # the FUSED graph culled to the keys: nothing needed is dropped, values unchanged, and every
                        # fused blockwise layer reports the dependencies of its materialised tasks
                        oc = opt.cull(set(ks))
                        d = dict(oc)
                        missing = [dep for k in d for dep in get_dependencies(d, k) if dep not in d]
                        if missing:
                            msg = f"cull of the fused graph: keys {missing[:3]} needed by the kept tasks were dropped"
                        else:
                            got = dask.get(d, list(ks))
                            if any(not np.array_equal(a, want_all[k]) for a, k in zip(got, ks)):
                                msg = "cull of the fused graph: computed values differ from the unfused, unculled graph"
                        fullopt = dict(opt)
                        for lname, layer in opt.layers.items():
                            if msg or not isinstance(layer, Blockwise):
                                continue
                            out_keys = sorted(layer.get_output_keys(), key=str)
                            for sel in [set(out_keys[:1]), set(out_keys[-1:]), set(out_keys[1:2]) or set(out_keys[:1]), set(rnd.sample(out_keys, max(1, len(out_keys) // 2)))]:
                                culled, deps = layer.cull(sel, set(fullopt))
                                mat = dict(culled)
                                if set(mat) != set(sel) or set(culled.get_output_keys()) != set(sel):
                                    msg = f"fused Blockwise.cull to {len(sel)} output keys of {lname}: the culled layer materialises {len(mat)} tasks and reports {len(culled.get_output_keys())} output keys"
                                    break
                                for k in sel:
                                    real = set(get_dependencies({**fullopt, **mat}, k))
                                    if set(deps.get(k, ())) != real:
                                        msg = f"fused Blockwise.cull reports dependencies {sorted(map(str, deps.get(k, ())))[:4]} for {k}, its materialised task needs {sorted(map(str, real))[:4]}"
                                        break
                                if msg:
                                    break
                except Exception as e:  # noqa
                    msg = f"{type(e).__name__}: {e}"
                if msg:
                    fails.append(rtc.Failure("HighLevelGraph.cull", {"stack": name, "keys": [str(k) for k in ks][:6]}, "ensures", "C10-cull-and-fusion-sound", msg))
    # hand-written LEGACY high-level graphs: values that are lists / dicts of keys, bare-key aliases, nested tasks, literal
    # data, two independent branches under a common layer -- every key subset
    import itertools as _it
    from operator import add as _add

    from dask.highlevelgraph import MaterializedLayer

    def _legacy_graphs():
        inc = lambda v: v + 1  # noqa: E731
        tot = lambda vs: sum(vs)  # noqa: E731
        dtot = lambda dd: sum(dd.values())  # noqa: E731
        lx = {("x", 0): 1, ("x", 1): 10, ("x", 2): 100}
        lmid = {("mid", 0): [("x", 0), ("x", 1)], ("mid", 1): (inc, ("x", 2)), ("mid", 2): ("x", 0), ("mid", 3): (tot, [("x", 1), (inc, ("x", 2))])}
        lout = {("out", 0): (tot, ("mid", 0)), ("out", 1): (inc, ("mid", 1)), ("out", 2): (inc, ("mid", 2)), ("out", 3): (_add, ("mid", 3), ("out", 1))}
        yield "lists-of-keys", HighLevelGraph({"x": MaterializedLayer(lx), "mid": MaterializedLayer(lmid), "out": MaterializedLayer(lout)}, {"x": set(), "mid": {"x"}, "out": {"mid"}})
        la = {("a", 0): 1, ("a", 1): 2}
        lb = {("b", 0): (inc, ("a", 0)), ("b", 1): (inc, ("a", 1))}
        lb1 = {("b1", 0): (inc, ("b", 0))}
        lc = {("c", 0): (inc, ("a", 0)), ("c", 1): (inc, ("a", 1)), ("c", 2): (inc, ("b1", 0))}
        ld = {("d", 0): (tot, [("c", 0), ("c", 1)]), ("d", 1): (inc, ("c", 2))}
        yield "two-branches", HighLevelGraph({"a": MaterializedLayer(la), "b": MaterializedLayer(lb), "b1": MaterializedLayer(lb1), "c": MaterializedLayer(lc), "d": MaterializedLayer(ld)},
                                             {"a": set(), "b": {"a"}, "b1": {"b"}, "c": {"a", "b1"}, "d": {"c"}})

    for gname, g in _legacy_graphs():
        fullg = dict(g)
        allkeys = sorted(fullg, key=str)
        want_all = dict(zip(allkeys, dask.get(fullg, allkeys)))
        subsets = [list(c) for r in (1, 2) for c in _it.combinations(allkeys, r)] + [allkeys]
        for ks in subsets:
            cases += 1
            try:
                c1 = g.cull(set(ks))
                d = dict(c1)
                missing = [dep for k in d for dep in get_dependencies(d, k) if dep not in d]
                msg = None
                if missing:
                    msg = f"cull({ks}) dropped tasks that the kept tasks need: {missing[:4]}"
                elif any(k not in d for k in ks):
                    msg = f"cull({ks}) dropped requested keys"
                else:
                    got = dask.get(d, list(ks))
                    if list(got) != [want_all[k] for k in ks]:
                        msg = f"cull({ks}): computed values differ from the unculled graph"
            except Exception as e:  # noqa
                msg = f"{type(e).__name__}: {e}"
            if msg:
                fails.append(rtc.Failure("HighLevelGraph.cull", {"stack": "legacy:" + gname, "keys": [str(k) for k in ks][:6]}, "ensures", "C10-cull-and-fusion-sound", msg))
                break
    return {"function": "dask/highlevelgraph.py:cull, dask/blockwise.py:Blockwise.cull/optimize_blockwise (real code, NumPy values)", "bounded": True,
            "bound": {"layer stacks": 13, "fuse_roots": "on every stack, 3 layer orders + after blockwise fusion", "mixed concatenate settings": True, "legacy graphs": "2 hand-written high-level graphs with list/dict-of-keys values, aliases, two branches: every 1- and 2-key subset", "fused graph": "culled again, fused Blockwise.cull dependencies checked", "key subsets per stack": 5 if tier == "quick" else 11, "double cull": True},
            "cases": cases, "distinct_nontrivial": cases, "failures_found": len(fails), "wall_s": round(time.time() - t0, 2),
            "samples": [{"native_case": {"stack": "elemwise-transpose-sum", "keys": "half of the output blocks"}}], "failures": fails[:5]}
