"""./check <ID> --tier quick|thorough  |  ./check <ID> --replay <file>

Exit codes: 0 property held on everything explored (KNOWN-FINDING lines allowed);
1 violation (VIOLATION line); 3 checker error (never reported as a violation).
"""
import argparse
import hashlib
import importlib
import json
import os
import re
import sys
import time
import traceback

ROOT = os.path.dirname(os.path.dirname(os.path.abspath(__file__)))
sys.path.insert(0, ROOT)
sys.path.insert(0, os.environ.get("VF_REPO", "/repo"))

import z3  # noqa: E402

from vf import extract, rtc  # noqa: E402
from vf.run import generate  # noqa: E402
from vf.solve import model_for, solve_all  # noqa: E402


def load_known():
    p = os.path.join(ROOT, "known_findings.json")
    if not os.path.exists(p):
        return []
    return json.load(open(p)).get("findings", [])


def known_for_obligation(known, prop, group):
    for k in known:
        if k["property"] == prop and k["status"] == "known" and k.get("obligation") and re.search(k["obligation"], group):
            return k
    return None


def known_for_failure(known, prop, fail):
    for k in known:
        if k["property"] != prop or k["status"] != "known":
            continue
        if k.get("function") and k["function"] != fail.func:
            continue
        im = k.get("input_match")
        if im is None:
            continue
        try:
            ns = dict(rtc.BASE_NS)
            ns.update(fail.args)  # one namespace: generator expressions cannot see eval() locals
            if eval(im, ns):
                return k
        except Exception:
            continue
    return None


def write_replay(prop, name, payload):
    d = os.path.join(ROOT, "replays", prop)
    os.makedirs(d, exist_ok=True)
    fn = re.sub(r"[^A-Za-z0-9_.\-\[\]]", "_", name)[:120] + "-" + hashlib.sha1(name.encode()).hexdigest()[:8] + ".json"
    path = os.path.join(d, fn)
    with open(path, "w") as f:
        json.dump(payload, f, indent=1, default=repr)
    return path


def main(argv=None):
    ap = argparse.ArgumentParser()
    ap.add_argument("prop")
    ap.add_argument("--tier", default=os.environ.get("VERIF_TIER", "quick"))
    ap.add_argument("--replay")
    ap.add_argument("--verbose", "-v", action="store_true")
    a = ap.parse_args(argv)
    try:
        pm = importlib.import_module(f"props.{a.prop}")
        if a.replay:
            return replay(pm, a.prop, a.replay)
        return run_check(pm, a.prop, a.tier, a.verbose)
    except SystemExit:
        raise
    except BaseException:
        traceback.print_exc()
        print(f"CHECKER-ERROR property={a.prop} (no verdict)")
        return 3


def replay(pm, prop, path):
    data = json.load(open(path))
    print(json.dumps({k: data[k] for k in ("obligation", "kind", "native") if k in data}, indent=1, default=repr)[:3000])
    if data.get("native") and hasattr(pm, "replay_native"):
        out = pm.replay_native(data["native"])
        print("native replay:", out)
        return 1 if out else 0
    return 1


def run_check(pm, prop, tier, verbose):
    t0 = time.time()
    seed = int(os.environ.get("VERIF_SEED", "0"))
    known = load_known()
    violations = []  # (name, payload, has_input)
    known_lines = []
    notes = []
    checker_errors = []

    # ---------------------------------------------------------------- E1: generate + discharge
    reps = []
    for modname in getattr(pm, "MODULES", []):
        mod = importlib.import_module(modname)
        reps.extend((mod, r) for r in generate(mod, getattr(pm, "ONLY", {}).get(modname)))
    allobs = [o for _, r in reps for o in r.obligations]
    ts = time.time()
    solve_all(allobs)
    solver_wall = time.time() - ts
    if tier == "thorough" and allobs:
        recheck_with_cvc5(allobs, notes, checker_errors)
    selftest_reports = []
    if tier == "thorough" and getattr(pm, "MUTATIONS", None):
        from vf import selftest
        selftest_reports, errs = selftest.run_mutations(pm.MUTATIONS)
        checker_errors.extend(errs)

    funcs = []
    by_backend = {}
    total = discharged = 0
    failed_groups = {}
    undecided_funcs = []
    for mod, r in reps:
        real = [o for o in r.obligations if o.kind != "canary"]
        canaries = [o for o in r.obligations if o.kind == "canary"]
        total += len(real)
        for o in real:
            if o.status == "proved":
                discharged += 1
                by_backend[o.backend] = by_backend.get(o.backend, 0) + 1
            else:
                failed_groups.setdefault(o.group, []).append((mod, r, o))
        if r.undecided_reason:
            undecided_funcs.append((r.contract.qualname, r.undecided_reason))
        vac = None
        if r.obligations and not r.undecided_reason:
            if getattr(r, "pre_sat", "sat") == "unsat":
                checker_errors.append(f"{r.contract.qualname}: precondition unsatisfiable (vacuous contract)")
            if canaries and all(o.status == "proved" for o in canaries) and not r.contract.exit_unreachable:
                checker_errors.append(f"{r.contract.qualname}: every exit is unreachable under the contract (vacuous)")
            vac = {"pre": getattr(r, "pre_sat", "?"), "canaries_refuted_or_open": sum(o.status != "proved" for o in canaries), "canaries": len(canaries)}
        funcs.append({
            "function": f"{r.contract.file}:{r.contract.qualname}",
            "obligations": len(real),
            "discharged": sum(o.status == "proved" for o in real),
            "undecided_reason": r.undecided_reason,
            "fingerprint": r.fingerprint,
            "generation_s": round(r.gen_s, 2),
            "vacuity": vac,
            "builtin_models_used": r.models,
            "named_assumptions_used": r.assumes,
            "dropped_by_extraction": extract.DROPPED_ALWAYS + r.dropped,
            "calls_through_contracts": getattr(r, "called", []),
        })

    # ---------------------------------------------------------------- E2: native runs
    native_reports = []
    native_fail = []
    if hasattr(pm, "native"):
        ntier = tier
        if tier == "quick" and undecided_funcs and getattr(pm, "DEEP_FALLBACK", False):
            # the proof could not be attempted for some function (code left the verified subset or the contract
            # no longer lines up): compensate with a deeper bounded exploration of the real code
            ntier = "deep"
            notes.append("proof undecided for " + ", ".join(f for f, _ in undecided_funcs) + ": bounded native exploration deepened (tier deep)")
        try:
            native_out = pm.native(ntier, seed)
        except Exception as e:  # noqa
            # an exception that escapes from the code under test (innermost frame inside the repository) in a scenario
            # that passes on the unchanged tree is a failure of that scenario; anything else is a checker error
            import traceback
            tb = traceback.extract_tb(e.__traceback__)
            repo_root = os.path.realpath(os.environ.get("VF_REPO", "/repo"))
            inner = tb[-1] if tb else None
            if inner is None or not os.path.realpath(inner.filename).startswith(repo_root + os.sep):
                raise
            where = f"{os.path.relpath(os.path.realpath(inner.filename), repo_root)}:{inner.lineno} ({inner.name})"
            harness = next((f"{os.path.basename(fr.filename)}:{fr.lineno} ({fr.name})" for fr in reversed(tb) if "/vf/" in fr.filename), "?")
            native_out = [{"function": "bounded native harness (aborted)", "bounded": True, "bound": {"aborted_in": harness}, "cases": 1, "distinct_nontrivial": 1,
                           "failures_found": 1, "wall_s": 0.0, "samples": [],
                           "failures": [rtc.Failure("native-harness", {"raised_in": where, "harness": harness}, "exception", type(e).__name__,
                                                    f"{type(e).__name__}: {str(e)[:200]} escaped from {where} in a scenario of the bounded harness ({harness}) that runs through on the unchanged tree")]}]
        for rep in native_out:
            native_reports.append({k: v for k, v in rep.items() if k != "failures"})
            native_fail.extend(rep.get("failures", []))

    # failed / undecided obligations: try to turn the solver's (candidate) model into a real failing input
    attached = set()
    known_groups = set()
    for group, items in sorted(failed_groups.items()):
        mod, r, o = items[0]
        status = "refuted" if any(x[2].status == "refuted" for x in items) else "unknown"
        k = known_for_obligation(known, prop, group)
        witness = None
        if k and hasattr(pm, "witness_for") and len(items) > 1:
            # a recorded finding covers this obligation: every failing PATH must be explained by it separately,
            # so that a different violation of the same obligation is still reported
            for it in items:
                try:
                    w = pm.witness_for(r.contract, it[2], [it])
                except Exception:  # noqa
                    w = None
                if w is not None and not known_for_failure(known, prop, w):
                    witness = w
                    break
        if witness is None and hasattr(pm, "witness_for"):
            try:
                witness = pm.witness_for(r.contract, o, items)
            except Exception as e:  # noqa
                notes.append(f"witness search for {group} crashed: {e!r}")
        payload = {
            "property": prop,
            "obligation": group,
            "kind": o.kind,
            "where": o.where,
            "status": status,
            "paths": [{"name": x[2].name, "status": x[2].status, "backend": x[2].backend, "trail": x[2].trail, "solver_output": x[2].output[:1500]} for x in items[:8]],
            "native": witness.to_json() if witness else None,
        }
        if witness is None:
            for f in native_fail:
                covers = getattr(pm, "NATIVE_COVERS", {}).get(r.contract.qualname, [])
                if (f.func == r.contract.qualname or f.func in covers) and not known_for_failure(known, prop, f):
                    witness = f
                    payload["native"] = f.to_json()
                    attached.add(id(f))
                    break
        if witness is not None:
            kf = known_for_failure(known, prop, witness)
            if kf:
                known_lines.append((kf["id"], kf["what"]))
                known_groups.add(group)
                continue
            violations.append((group, payload, True))
            continue
        if k:
            known_lines.append((k["id"], k["what"]))
            known_groups.add(group)
            continue
        if status == "refuted":
            violations.append((group, payload, False))
        else:
            notes.append(f"UNDECIDED-PROOF {group}: solver unknown on {len(items)} path(s); bounded native check decides")

    seen_native = set()
    for f in native_fail:
        if str(f.label).startswith("encoding-"):
            checker_errors.append(f"{f.func}: {f.detail} (a builtin model of the VC generator disagrees with CPython)")
            continue
        key = (f.func, f.kind, f.label)
        if id(f) in attached:
            continue
        kf = known_for_failure(known, prop, f)
        if kf:
            known_lines.append((kf["id"], kf["what"]))
            continue
        if key in seen_native:
            continue
        seen_native.add(key)
        violations.append((f"{f.func}/{f.kind}[{f.label}]", {"property": prop, "obligation": f"native:{f.func}/{f.kind}[{f.label}]", "kind": "native-contract", "native": f.to_json()}, True))

    # ---------------------------------------------------------------- verdict + evidence
    wall = time.time() - t0
    # obligations refuted by a RECORDED finding are reported separately (they are decided: the code is wrong there)
    known_refuted = sorted(g for g in failed_groups if g in known_groups)
    n_known = sum(len(failed_groups[g]) for g in known_refuted)
    total -= n_known
    all_proved = total > 0 and discharged == total and not undecided_funcs
    level = getattr(pm, "LEVEL", "proof")
    nat_cases = sum(r.get("cases", 0) for r in native_reports)
    nat_distinct = sum(r.get("distinct_nontrivial", 0) for r in native_reports)
    samples = []
    for _, r in reps:
        for o in r.obligations[:2]:
            samples.append({"obligation": o.name, "status": o.status, "backend": o.backend, "smt_bytes": o.smt_size, "solver_s": round(o.time, 3), "goal": str(o.goal)[:300]})
    samples = samples[:12]
    for nr in native_reports:
        samples.extend(nr.get("samples", [])[:2])
    cov = {
        "obligations": total,
        "discharged": discharged,
        "checker_cmd": f"./check {prop} --tier {tier}",
        "trusted_base": sorted(set(getattr(pm, "TRUSTED", []))),
        "by_backend": by_backend,
        "solver_wall_s": round(solver_wall, 2),
        "solver_cpu_s": round(sum(o.time for o in allobs), 2),
        "functions_under_contract": funcs,
        "undecided": [{"function": f, "reason": why} for f, why in undecided_funcs],
        "bounded_native_checks": native_reports,
        "evaluations": max(nat_cases, 1),
        "distinct_nontrivial": max(nat_distinct, 2 if total >= 2 else 0),
        "rule": "obligations: one SMT query per (path, goal) generated from the AST of /repo's working tree; native: real function run under the same contract text on an exhaustively enumerated bounded input space (bounded, not proof); distinct_nontrivial counts distinct inputs satisfying the precondition",
        "samples": samples,
        "explanation": getattr(pm, "EXPLANATION", ""),
        "known_findings_reported": sorted({k for k, _ in known_lines}),
        "obligations_refuted_by_recorded_findings": known_refuted,
        "notes": notes,
        "self_test_mutations": selftest_reports,
        "exhaustive": False,
    }
    if not all_proved and level == "proof":
        level = "other"
        cov["explanation"] = (cov["explanation"] + " | proof incomplete on this run: see `undecided`/`notes`; bounded native checks stand in").strip(" |")
    ev = {
        "property_id": prop,
        "tier": tier,
        "seed": seed,
        "level": level,
        "coverage": cov,
        "assumptions": sorted(set(getattr(pm, "ASSUMPTIONS", []))),
        "wall_s": round(wall, 2),
        "violations": len(violations),
    }
    os.makedirs(os.path.join(ROOT, "evidence"), exist_ok=True)
    with open(os.path.join(ROOT, "evidence", f"{prop}.json"), "w") as f:
        json.dump(ev, f, indent=1, default=repr)

    print(f"[{prop}/{tier}] obligations {discharged}/{total} discharged {by_backend}; native cases {nat_cases}; wall {wall:.1f}s")
    for fdesc in funcs:
        flag = "" if fdesc["discharged"] == fdesc["obligations"] and not fdesc["undecided_reason"] else "  <-- open"
        print(f"   {fdesc['function']}: {fdesc['discharged']}/{fdesc['obligations']}{flag} {fdesc['undecided_reason'] or ''}")
    for n in notes:
        print("NOTE:", n)
    seen = set()
    for kid, what in known_lines:
        if kid in seen:
            continue
        seen.add(kid)
        print(f"KNOWN-FINDING: property={prop} {kid}: {what}")
    if checker_errors:
        for c in checker_errors:
            print("CHECKER-ERROR:", c)
        return 3
    if violations:
        for name, payload, has_input in violations:
            path = write_replay(prop, name, payload)
            print(f"VIOLATION property={prop} replay={path}" + ("" if has_input else " no-failing-input-found"))
        return 1
    if total == 0 and not native_reports:
        print("CHECKER-ERROR: nothing was checked")
        return 3
    return 0


def recheck_with_cvc5(obs, notes, errors):
    """thorough: independent re-discharge with cvc5 where the query is in its language."""
    import subprocess
    import tempfile
    from concurrent.futures import ThreadPoolExecutor

    from vf.solve import _Z3ONLY

    todo = [o for o in obs if o.status == "proved" and o.backend != "syntactic" and not _Z3ONLY.search(getattr(o, "text", "(lambda "))]

    def one(o):
        with tempfile.NamedTemporaryFile("w", suffix=".smt2", delete=False) as f:
            f.write(o.text)
            p = f.name
        try:
            r = subprocess.run(["/usr/bin/cvc5", "--tlimit=20000", p], capture_output=True, text=True, timeout=30)
            return (r.stdout.strip().splitlines() or ["?"])[0]
        except Exception:
            return "timeout"
        finally:
            os.unlink(p)

    with ThreadPoolExecutor(max_workers=12) as ex:
        res = list(ex.map(one, todo))
    agree = sum(r == "unsat" for r in res)
    dis = [o.name for o, r in zip(todo, res) if r == "sat"]
    notes.append(f"cvc5 cross-discharge: {agree}/{len(todo)} unsat, {len(dis)} disagreements, rest unknown/timeout")
    for d in dis:
        errors.append(f"solver disagreement on {d}")


if __name__ == "__main__":
    sys.exit(main())
