"""E2 for C18: format_bytes / parse_bytes / parse_timedelta / key_split / natural_sort_key on the real code (bounded)."""
import itertools
import random
import time

from . import rtc

BYTE_UNITS = {"kB": 10**3, "MB": 10**6, "GB": 10**9, "TB": 10**12, "PB": 10**15, "KiB": 2**10, "MiB": 2**20, "GiB": 2**30, "TiB": 2**40, "PiB": 2**50, "B": 1, "": 1,
              "k": 10**3, "M": 10**6, "G": 10**9, "T": 10**12, "P": 10**15, "Ki": 2**10, "Mi": 2**20, "Gi": 2**30, "Ti": 2**40, "Pi": 2**50}
TIME_UNITS = {"s": 1, "ms": 1e-3, "us": 1e-6, "ns": 1e-9, "m": 60, "h": 3600, "d": 86400, "w": 604800,
              "second": 1, "minute": 60, "hour": 3600, "day": 86400, "week": 604800, "millisecond": 1e-3, "microsecond": 1e-6, "nanosecond": 1e-9}
TIME_UNITS.update({k + "s": v for k, v in list(TIME_UNITS.items()) if len(k) > 2})


def casings(u):
    out = {u, u.lower(), u.upper(), u.capitalize(), u.swapcase()}
    if len(u) > 1:
        out.add(u[0].lower() + u[1:].upper())
        out.add(u[0].upper() + u[1:].lower())
    return sorted(out)


def format_sweep(tier, seed=0):
    from dask.utils import format_bytes, parse_bytes

    t0 = time.time()
    rnd = random.Random(seed)
    ns = set(range(0, 1200))
    for j in range(10, 61, 10):
        k = 2**j
        for m in (0.9, 0.995, 0.99995, 1, 9.995, 99.995, 921.59, 999.98, 999.994, 999.995, 999.996, 1000, 1023.99):
            c = int(k * m)
            ns.update(range(max(0, c - 3), c + 4))
    # rounding edges of the second decimal in every band
    for j in (10, 20, 30, 40, 50):
        k = 2**j
        for whole in (0, 1, 9, 10, 99, 100, 920, 999):
            for frac in (0.994, 0.995, 0.996, 0.004, 0.005, 0.006, 0.5):
                c = int((whole + frac) * k)
                ns.update((c - 1, c, c + 1))
    for _ in range(20000 if tier == "quick" else 400000):
        ns.add(rnd.randrange(0, 2**rnd.randrange(1, 61)))
    cases, fails = 0, []
    seen = set()
    for n in sorted(x for x in ns if 0 <= x < 2**60):
        cases += 1
        try:
            s = format_bytes(n)
            back = parse_bytes(s)
            unit = s.split(" ")[1]
            low = {u.lower(): v for u, v in BYTE_UNITS.items()}
            k = low.get(unit.lower())  # parse_bytes is case-insensitive
            msg = None
            if len(s) > 10:
                msg = f"{s!r} has {len(s)} characters (documented: at most 10 below 2**60)"
            elif k is None:
                msg = f"{s!r}: unit {unit!r} is not a documented byte unit"
            elif abs(back - n) > (0.005 * k + 1 if k > 1 else 0):
                msg = f"{s!r} parses back to {back}, off by {abs(back - n)} (printed precision allows {0.005 * k:.0f})"
        except Exception as e:  # noqa
            msg = f"{type(e).__name__}: {e}"
        if msg:
            tag = msg.split(" ")[-6:] if False else ("len" if "characters" in msg else "other")
            if (tag, n.bit_length() // 10) not in seen or len(fails) < 3:
                seen.add((tag, n.bit_length() // 10))
                fails.append(rtc.Failure("format_bytes", {"n": n}, "ensures", "C18-format-roundtrip-and-width", msg))
    return {"function": "dask/utils.py:format_bytes + parse_bytes (real code)", "bounded": True, "bound": {"values": "0..1199, all band and rounding edges, random below 2**60"},
            "cases": cases, "distinct_nontrivial": cases, "failures_found": len(fails), "wall_s": round(time.time() - t0, 2),
            "samples": [{"native_case": {"n": 1020}}], "failures": fails[:400]}


def parse_sweep(tier, seed=0):
    from dask.utils import key_split, natural_sort_key, parse_bytes, parse_timedelta

    t0 = time.time()
    cases, fails = 0, []
    nums = ["1", "5", "10", "0.5", "1.5", "100", "2.25", "1e3", "12", "2.5e-1", "1e+3", "1E-3", ".5", "1e+16", "7."]
    for u, mult in BYTE_UNITS.items():
        for cu in casings(u):
            for num in nums:
                for sep in ("", " "):
                    cases += 1
                    s = f"{num}{sep}{cu}"
                    try:
                        got = parse_bytes(s)
                        want = int(float(num) * mult)
                        msg = None if got == want else f"parse_bytes({s!r}) = {got}, documented multiplier {mult} gives {want}"
                    except Exception as e:  # noqa
                        msg = f"parse_bytes({s!r}) raised {type(e).__name__}: {e}"
                    if msg and len(fails) < 6:
                        fails.append(rtc.Failure("parse_bytes", {"s": s}, "ensures", "C18-units-any-case", msg))
    tnums = nums + ["2.5", "0.4", "0.1234", "12.3456", "1.23456789012", "234.6", "0.000123"]
    for u, mult in TIME_UNITS.items():
        for cu in casings(u):
            for num in tnums:
                for sep in ("", " "):
                    cases += 1
                    s = f"{num}{sep}{cu}"
                    try:
                        got = parse_timedelta(s)
                        want = float(num) * mult
                        # relative tolerance only (float noise): an absolute 1e-9 would hide errors in sub-nanosecond products
                        msg = None if abs(got - want) <= 1e-12 * abs(want) else f"parse_timedelta({s!r}) = {got}, documented multiplier {mult} gives {want}"
                    except Exception as e:  # noqa
                        msg = f"parse_timedelta({s!r}) raised {type(e).__name__}: {e}"
                    if msg and len(fails) < 12:
                        fails.append(rtc.Failure("parse_timedelta", {"s": s}, "ensures", "C18-units-any-case", msg))
    rnd = random.Random(seed)
    alphabet = "abcxyz019-_#()',. <>\u00b2\u0663\u2460"  # incl. digit-like characters: superscript two, arabic-indic three, circled one
    keys = ["x", "x-1", "x-1-2-3", ("x-2", 1), ("x", 1), "x-abcdefab", b"hello-world-1", None, 5, "x-ffffffff", "hello-world-ffffffffffffffffffffffffffffffff", "", "-", "a--b",
            (), ((), 1), ("", 0), b"", ((("x-1",),),), "\u00b2", "\u2460", "a\u00b2", "\u0663", "<>", "_", "()", "''", "-x"]
    for _ in range(3000 if tier == "quick" else 50000):
        ln = rnd.randrange(0, 12)
        s = "".join(rnd.choice(alphabet) for _ in range(ln))
        keys.append(s)
        if rnd.random() < 0.2:
            keys.append((s, rnd.randrange(5)))
    for k in keys:
        cases += 1
        try:
            r = key_split(k)
            msg = None if isinstance(r, str) else f"key_split({k!r}) returned {r!r} (not a str)"
        except Exception as e:  # noqa
            msg = f"key_split({k!r}) raised {type(e).__name__}: {e}"
        if msg is None and isinstance(k, str):
            try:
                parts = natural_sort_key(k)
                ok = isinstance(parts, list) and all(isinstance(p, (str, int)) for p in parts) and "".join(str(p) if not isinstance(p, int) else None or "" for p in parts) is not None
                msg = None if ok else f"natural_sort_key({k!r}) = {parts!r}"
            except Exception as e:  # noqa
                msg = f"natural_sort_key({k!r}) raised {type(e).__name__}: {e}"
        if msg and len(fails) < 16:
            fails.append(rtc.Failure("key_split", {"key": repr(k)}, "ensures", "C18-total-with-documented-shape", msg))
    # the documented shape of key_split on ordinary task names: dash-separated words followed by an optional numeric /
    # hash token -> the words, whether or not the token is there (so the function is idempotent on its own results),
    # for str, bytes and (name, index) tuple keys alike
    words = ["hello", "world", "from", "delayed", "getitem", "read", "parquet", "x", "sum", "aggregate"]
    names = [w for w in words] + [f"{a_}-{b_}" for a_ in words[:6] for b_ in words[:6]] + ["getitem-from-delayed", "read-parquet-sum", "a-b-c"]
    for nm in names:
        for tokn in ("", "-1", "-12", "-1-2-3", "-abcdefab", "-7-abcdefab"):
            for form in ("str", "bytes", "tuple", "nested"):
                cases += 1
                full = nm + tokn
                key = full if form == "str" else full.encode() if form == "bytes" else (full, 3) if form == "tuple" else ((full, 0), 1)
                try:
                    got = key_split(key)
                    msg = None if got == nm else f"key_split({key!r}) = {got!r}, the name part is {nm!r}"
                except Exception as e:  # noqa
                    msg = f"key_split({key!r}) raised {type(e).__name__}: {e}"
                if msg and len(fails) < 16:
                    fails.append(rtc.Failure("key_split", {"key": repr(key)}, "ensures", "C18-total-with-documented-shape", msg))
    # a unit given through default= (unit-less string or number): any letter case, like a unit written in the string
    for u, mult in TIME_UNITS.items():
        for cu in casings(u):
            for arg in ("5", "0.25", 3, 1.5):
                cases += 1
                try:
                    got = parse_timedelta(arg, default=cu)
                    want = float(arg) * mult
                    msg = None if abs(got - want) <= 1e-12 * abs(want) else f"parse_timedelta({arg!r}, default={cu!r}) = {got}, documented multiplier {mult} gives {want}"
                except Exception as e:  # noqa
                    msg = f"parse_timedelta({arg!r}, default={cu!r}) raised {type(e).__name__}: {str(e)[:80]}"
                if msg and len(fails) < 12:
                    fails.append(rtc.Failure("parse_timedelta", {"s": arg, "default": cu}, "ensures", "C18-units-any-case", msg))
    # natural sort: text and numbers alternate in the key ([str, int, str, ...]) whatever script the digits are in, so
    # keys of different strings are always comparable and digit runs sort by value
    digit_sets = ["0123456789", "٠١٢٣٤٥٦٧٨٩", "０１２３４５６７８９"]
    names = []
    for ds in digit_sets:
        for n in (2, 9, 10, 100):
            num = "".join(ds[int(ch)] for ch in str(n))
            names += [f"f{num}", f"{num}", f"f{num}x", f"1{num}" if ds != digit_sets[0] else f"f{num}y"]
    for nm in names:
        cases += 1
        try:
            parts = natural_sort_key(nm)
            ok = all(isinstance(p, str) for p in parts[0::2]) and all(isinstance(p, int) for p in parts[1::2])
            msg = None if ok else f"natural_sort_key({nm!r}) = {parts!r}: text and numbers do not alternate"
        except Exception as e:  # noqa
            msg = f"natural_sort_key({nm!r}) raised {type(e).__name__}: {e}"
        if msg and len(fails) < 16:
            fails.append(rtc.Failure("key_split", {"key": repr(nm)}, "ensures", "C18-total-with-documented-shape", msg))
    for ds in digit_sets:
        cases += 1
        group = ["f" + "".join(ds[int(ch)] for ch in str(n)) for n in (10, 2, 9, 100)]
        try:
            got = sorted(group, key=natural_sort_key)
            want = ["f" + "".join(ds[int(ch)] for ch in str(n)) for n in (2, 9, 10, 100)]
            msg = None if got == want else f"natural sort of {group!r} gives {got!r}, by value it is {want!r}"
            sorted(names, key=natural_sort_key)
        except Exception as e:  # noqa
            msg = f"sorting with natural_sort_key raised {type(e).__name__}: {e}"
        if msg and len(fails) < 16:
            fails.append(rtc.Failure("key_split", {"key": repr(group)}, "ensures", "C18-total-with-documented-shape", msg))
    return {"function": "dask/utils.py:parse_bytes/parse_timedelta/key_split/natural_sort_key (real code)", "bounded": True,
            "bound": {"units": "every documented spelling x 5-7 letter casings x 15 numerals (decimal, leading-dot, signed and unsigned exponents) x optional space", "keys": len(keys)},
            "cases": cases, "distinct_nontrivial": cases, "failures_found": len(fails), "wall_s": round(time.time() - t0, 2),
            "samples": [{"native_case": {"s": "1.5 Mib"}}], "failures": fails}
