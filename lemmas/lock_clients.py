"""Ghost client programs for C53: they call the real methods ONLY through their contracts."""


def gc_step():
    pass


def client_unpickled_copy_is_the_same_lock(a, b, c, t):
    a.__init__(t)
    gc_step()
    b.__setstate__(a.__getstate__())
    gc_step()
    c.__setstate__(a.__getstate__())


def client_separate_locks_differ(a, b, s, t):
    a.__init__(s)
    gc_step()
    b.__init__(t)


def client_generated_tokens_differ(a, b):
    a.__init__(None)
    gc_step()
    b.__init__(None)
