"""Ghost lemmas about prefix sums, proved by the same VC engine (Dafny-style: a lemma is a
ghost function whose postcondition is the statement and whose loop is the induction)."""


def lemma_psum_mono(xs, i, j):
    # requires: all elements >= 0, 0 <= i <= j <= len(xs);  ensures psum(xs, i) <= psum(xs, j)
    k = i
    while k < j:
        k += 1


def lemma_psum_lower(xs, i, j, c):
    # requires: all elements >= c, 0 <= i <= j <= len(xs);  ensures psum(xs,j) - psum(xs,i) >= c*(j-i)
    k = i
    while k < j:
        k += 1


def lemma_psum_ext(xs, ys, n):
    # requires: xs[i] == ys[i] for 0 <= i < n ; ensures psum(xs, n) == psum(ys, n)
    k = 0
    while k < n:
        k += 1


def lemma_ceil_div(n, c):
    # requires c >= 1, n >= 0 ; ensures m = -(n // -c) satisfies  m*c >= n, (m-1)*c < n, (n >= 1 -> m >= 1), (n == 0 -> m == 0)
    pass


def lemma_divmod(d, b):
    # requires b >= 1, d >= 0 ; ensures d == b * (d // b) + d % b, 0 <= d % b < b, d // b >= 0
    pass


def lemma_psum_const(xs, n, c):
    # requires xs[i] == c for 0 <= i < n ; ensures psum(xs, n) == c * n
    k = 0
    while k < n:
        k += 1


def lemma_tiling(b, j):
    # requires b non-decreasing, b[0] <= j < b[-1] ; returns i with b[i] <= j < b[i+1]
    i = 0
    while b[i + 1] <= j:
        i += 1
    return i


def lemma_ideal_mono(a, b, c, r):
    # requires 0 <= a <= b, c >= 0 ; ensures a*c + min(a, r) <= b*c + min(b, r), and with a < b the gap is at least c
    pass


def lemma_divmod_any(d, b):
    # requires b >= 1 (any integer d) ; ensures d == b * (d // b) + d % b, 0 <= d % b < b  (Python's floor division)
    pass


def lemma_divmod_negdiv(d, b):
    # requires b <= -1 (any integer d) ; ensures d == b * (d // b) + d % b, b < d % b <= 0  (Python's floor division)
    pass
