"""Ghost lemmas about the scheduler state (proved by the VC engine; see contracts/local.py)."""


def lemma_no_deadlock(state, k0):
    # Proof by infinite descent: with nothing ready and nothing running, every waiting key waits on
    # another waiting key of strictly smaller rank; the loop below would never stop, but its variant
    # rank(k) >= 0 strictly decreases -- so the precondition is contradictory (ensures False).
    k = k0
    while True:
        d = pick(state["waiting"][k])
        k = d


def lemma_exit_keeps_outer(pre, X, mid):
    # pure set algebra; the induction step of the stack property of callback contexts
    pass
