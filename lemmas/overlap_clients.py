"""Ghost client for C26: overlap then trim is the identity on chunk tuples (calls go through contracts only)."""


def client_overlap_then_trim_is_identity(chunks, axes, boundary, x):
    x.chunks = _overlap_internal_chunks(chunks, axes)
    return trim_chunks(x, axes, boundary)
