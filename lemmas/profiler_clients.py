"""Ghost client programs for C52 (Profiler): they call the real methods only through their contracts."""


def client_two_tasks_one_fails_later(p, dsk, a, b, c, st, v, w):
    # the order in which a scheduler drives the callbacks: tasks a and b complete, task c was started and never finished
    p._pretask(a, dsk, st)
    p._pretask(b, dsk, st)
    p._posttask(b, v, dsk, st, w)
    p._pretask(c, dsk, st)
    p._posttask(a, v, dsk, st, w)
    p._finish(dsk, st, True)
