"""C51 — term-rewrite matching is sound and complete."""
PROPERTY = "C51"
META = {
    "category": "proof",
    "technique": "contract-based deductive verification of _process_match (consistent binding of repeated variables; opaque terms with uninterpreted truthiness), z3; bounded comparison of iter_matches/_rewrite with a brute-force matcher on the real code",
    "text": "Proof for all rules and matched subterm lists: _process_match returns None exactly when a repeated variable meets two different subterms, otherwise the map binding every variable occurrence to its subterm and nothing else; raises exactly on a length mismatch. The discrimination net (RuleSet.add, _match with backtracking, Traverser) and _rewrite walk Python object graphs with generators: bounded — random and hand-picked rule sets over f/2, g/1, constants incl. falsy ones, variables x,y and all terms of depth <= 2, against a brute-force matcher (soundness, completeness, top-level rewrite applies a matching rule iff one exists).",
    "note": "Trusted: VC generator, z3. Bounded only: trie construction, _match backtracking, Traverser, rewrite strategies.",
    "design_ref": "DESIGN.md §5.13",
}
MODULES = ["contracts.rewrite"]
LEVEL = "proof"
EXPLANATION = "_process_match proved; matching net bounded against a brute-force matcher"
TRUSTED = ["VC generator /verif/vf", "z3", "brute-force reference matcher"]
ASSUMPTIONS = ["terms compared with == / != only"]
NATIVE_COVERS = {"_process_match": ["RuleSet.iter_matches"]}


def native(tier, seed):
    from vf import rewrite_native
    return [rewrite_native.sweep(tier, seed)]


# thorough tier: deliberate edits that must turn an obligation red (applied to a scratch copy, never to /repo)
MUTATIONS = [('contracts.rewrite', '_process_match', 'dask/rewrite.py', '        if v in subs and subs[v] != s:', '        if v in subs and subs[v] == s:')]
