"""C17 — configuration changes are scoped, atomic and spelling-insensitive."""
PROPERTY = "C17"
META = {
    "category": "other",
    "technique": "bounded stand-in: run-time contracts on the real dask.config (set/exit restore a deep copy, raising set leaves the config unchanged, get under both spellings, merge/update precedence and non-aliasing, env collection, serialize round trip) over exhaustively enumerated histories",
    "text": "BOUNDED, not proved: config.set navigates and mutates a tree of aliased nested dicts — a heap model with reachability that the self-built VC generator does not have. Exhaustive: 5 start configs x (all single assignments over 10 dotted paths with both spellings x 3 values, all ordered pairs of assignments in one call, all nestings of two contexts); random nested dicts for merge/update incl. aliasing checks; environment collection cases; serialize/deserialize.",
    "note": "No deductive proof (level other). canonical_name could be put under contract (strings as spellings) but carries little of the property by itself. The non-atomic set found while writing the contract is fixed (known_findings.json).",
    "design_ref": "DESIGN.md §5.6",
}
MODULES = []
LEVEL = "other"
EXPLANATION = "bounded exhaustive run-time contract checks; nested mutable dict heap is outside the VC generator"
TRUSTED = ["reference merge/update written from the documentation"]
ASSUMPTIONS = ["bounded universe of paths and values"]


def native(tier, seed):
    from vf import config_native
    return [config_native.set_sweep(tier, seed), config_native.merge_sweep(tier, seed)]
