"""C01 — local schedulers compute exactly the values the graph denotes."""
from vf import rtc

PROPERTY = "C01"
META = {
    "category": "proof",
    "technique": "contract-based deductive verification: VCs from the real Python AST of dask/local.py + sidecar contracts (representation invariant WF, ghost in-flight set), z3",
    "text": "Deductive proof, for every graph size, worker count, batch size and completion interleaving, that get_async returns pack(request, denote): main loop, fire_tasks, finish_task, release_data against the invariant WF; executor/queue behaviour is an assumed contract ('returns the results of SOME in-flight batch').",
    "note": "Trusted: self-built VC generator, z3; ASSUMED contracts: concurrent.futures submit, queue_get().result(), cloudpickle round trip, convert_legacy_graph identity on task-spec graphs (C08), order() irrelevant to correctness, user tasks/callbacks do not touch scheduler state, acyclic graph (rank function), cache=None. multiprocessing.get's cull/fuse assumed (C09).",
    "design_ref": "DESIGN.md §5.1",
}
MODULES = ["contracts.lemmas", "contracts.local"]
LEVEL = "proof"
DEEP_FALLBACK = True
EXPLANATION = "Every obligation generated from dask/local.py's scheduler functions is discharged; see trusted_base for the assumed external contracts."
TRUSTED = [
    "VC generator /verif/vf", "z3 5.1 / z3 4.8.12 / cvc5 1.0.3",
    "ASSUMED submit(): hands each batch to a worker exactly once",
    "ASSUMED queue_get(queue).result(): returns the results of some in-flight batch; a task run on denote(deps) yields denote(key)",
    "ASSUMED convert_legacy_graph identity on task-spec graphs (C08); order() result only used as sort key; nested_get packing (bounded natively)",
    "ASSUMED user tasks, callbacks, dumps/loads/get_id do not mutate scheduler state; loads(dumps(x)) == x",
    "builtin models: set/dict/list operations, len (cardinality), slicing, range",
]
ASSUMPTIONS = ["graph acyclic (rank function)", "cache is None or empty", "rerun_exceptions_locally False", "dict-entry values (sets inside state maps) unaliased"]

NATIVE_COVERS = {q: ["get_async"] for q in ("release_data", "finish_task", "get_async.fire_tasks", "get_async", "start_state_from_dask")}


def native(tier, seed):
    from vf import sched_native
    return [sched_native.sweep(tier, seed), sched_native.packing_sweep(tier, seed)]


def replay_native(native):
    from vf import sched_native
    return sched_native.replay(native)


# thorough tier: deliberate edits that must turn an obligation red (applied to a scratch copy, never to /repo)
MUTATIONS = [('contracts.local', 'finish_task', 'dask/local.py', '            if not s and dep not in results:', '            if not s and key not in results:'), ('contracts.local', 'start_state_from_dask', 'dask/local.py', '                waiting_data[dep].add(key)', '                pass'), ('contracts.local', 'get_async.fire_tasks', 'dask/local.py', '                    state["running"].add(key)', '                    pass'), ('contracts.local', 'release_data', 'dask/local.py', '    state["released"].add(key)', '    pass')]
