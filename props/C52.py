"""C52 — local diagnostics report every executed task faithfully."""
PROPERTY = "C52"
META = {
    "category": "proof",
    "technique": "contract-based deductive verification of Cache._start/_posttask/_finish (two-state contracts over a store invariant, ghost function computed(key)) and of Profiler._pretask/_posttask/_finish (records as a union of the 3-field and 5-field tuple shapes, instance invariant, monotone ghost clock) and of a ghost client driving them in scheduler order, z3; bounded stand-in: run-time postconditions on the real Profiler and Cache callbacks over all small graphs, sync and threaded schedulers, failing tasks, nested / registered profilers, cache reuse under eviction (cachey replaced by a stated stand-in)",
    "text": "Cache callback, PROVED: Cache._start replaces the graph entries of cached keys by data nodes holding exactly the cached value and leaves every other entry and the key set alone; Cache._posttask hands the store exactly (key, value) and keeps the store invariant 'every entry is the value computed for its key' under the ASSUMED contract of cachey's put (keeps, refuses or evicts, never invents a value); Cache._finish leaves the store alone. Profiler: PROVED for every sequence the callback protocol allows (induction over the calls: each method keeps the instance invariant): _pretask opens exactly one record for its key and leaves the others alone, _posttask completes that record with start <= end, _finish appends exactly one entry per completed record (distinct keys, earlier entries kept, TaskData never gets a short record) and drops the records still in flight; client theorem: pretask a, pretask b, posttask b, pretask c, posttask a, finish gives exactly the entries a and b with start <= end. That each executed task gets one pretask before one posttask call is C05. BOUNDED, not proved: for every task/data graph with <= 3 nodes, every request, with and without a failing task, on the sync and threaded schedulers, with one profiler, two nested profilers and a registered + context profiler: each profiler records exactly one entry per task whose posttask fired, start <= end. Cache: 3 graphs x 4 capacities x 3 rounds reusing the cache x 2 schedulers give the same values with and without the callback.",
    "note": "Trusted: VC generator, z3. ASSUMED: default_timer never goes backwards; starmap(TaskData, xs) builds one five-field namedtuple per record (modelled as the tuple). __init__/__enter__/clear and the Callback plumbing are not under contract (bounded natively: nested and registered profilers). The Cache clause is NOT proved: bounded natively only. `cachey` is absent from the sandbox: a 40-line stand-in (vf/stubs/cachey.py) is used, so the Cache part checks dask/cache.py against that model only.",
    "design_ref": "DESIGN.md §5.13",
}
MODULES = ["contracts.profiler", "contracts.cachecb"]
LEVEL = "proof"
EXPLANATION = "Profiler record keeping proved (two-state contracts + instance invariant + client theorem); Cache clause and scheduler integration by bounded run-time contract checks"
TRUSTED = ["VC generator /verif/vf", "z3", "stand-in for cachey (vf/stubs/cachey.py)", "timeit.default_timer monotone (assumed)", "itertools.starmap model", "ASSUMED contract of cachey.Cache.put (keeps / refuses / evicts, never alters a value)", "cachey.nbytes and sys.getsizeof non-negative, module constant overhead > 0 (assumed)"]
ASSUMPTIONS = ["bounded graphs", "one value per key: equal keys denote equal computations (C11/C12)"]


def native(tier, seed):
    from vf import diag_native
    return [diag_native.profiler_sweep(tier, seed), diag_native.cache_sweep(tier, seed)]


NATIVE_COVERS = {q: ["Profiler"] for q in ("Profiler._pretask", "Profiler._posttask", "Profiler._finish", "client_two_tasks_one_fails_later")}
NATIVE_COVERS.update({q: ["Cache"] for q in ("Cache._start", "Cache._posttask", "Cache._finish")})

# thorough tier: deliberate edits that must turn an obligation red (applied to a scratch copy, never to /repo)
MUTATIONS = [('contracts.cachecb', 'Cache._start', 'dask/cache.py', '            dsk[key] = DataNode(key, self.cache.data[key])', '            dsk[key] = self.cache.data[key]'),
             ('contracts.cachecb', 'Cache._posttask', 'dask/cache.py', '        self.cache.put(key, value, cost=duration / nb / 1e9, nbytes=nb)', '        self.cache.put(key, duration, cost=duration / nb / 1e9, nbytes=nb)'),
             ('contracts.profiler', 'Profiler._finish', 'dask/diagnostics/profile.py', '        results = {k: v for k, v in self._results.items() if len(v) == 5}', '        results = {k: v for k, v in self._results.items() if len(v) >= 3}'),
             ('contracts.profiler', 'Profiler._finish', 'dask/diagnostics/profile.py', '        self.results += list(starmap(TaskData, results.values()))', '        self.results = list(starmap(TaskData, results.values()))'),
             ('contracts.profiler', 'Profiler._posttask', 'dask/diagnostics/profile.py', '        end = default_timer()\n        self._results[key] += (end, id)', '        end = default_timer()\n        self._results[key] += (end - 1, id)')]
