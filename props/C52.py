"""C52 — local diagnostics report every executed task faithfully."""
PROPERTY = "C52"
META = {
    "category": "other",
    "technique": "bounded stand-in: run-time postconditions on the real Profiler and Cache callbacks over all small graphs, sync and threaded schedulers, failing tasks, nested / registered profilers, cache reuse under eviction (cachey replaced by a stated stand-in)",
    "text": "BOUNDED, not proved: for every task/data graph with <= 3 nodes, every request, with and without a failing task, on the sync and threaded schedulers, with one profiler, two nested profilers and a registered + context profiler: each profiler records exactly one entry per task whose posttask fired, start <= end. Cache: 3 graphs x 4 capacities x 3 rounds reusing the cache x 2 schedulers give the same values with and without the callback.",
    "note": "No deductive proof (level other): Profiler stores heterogeneous tuples that grow from 3 to 5 fields in a dict and filters them by length (not brought under contract); the callback protocol it relies on is proved in C05. `cachey` is absent from the sandbox: a 40-line stand-in (vf/stubs/cachey.py) is used, so the Cache part checks dask/cache.py against that model only.",
    "design_ref": "DESIGN.md §5.13",
}
MODULES = []
LEVEL = "other"
EXPLANATION = "bounded run-time contract checks; no obligations generated (see note)"
TRUSTED = ["stand-in for cachey (vf/stubs/cachey.py)", "timeit.default_timer monotone"]
ASSUMPTIONS = ["bounded graphs"]


def native(tier, seed):
    from vf import diag_native
    return [diag_native.profiler_sweep(tier, seed), diag_native.cache_sweep(tier, seed)]
