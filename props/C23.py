"""C23 — chunk normalization and rechunking are exact."""
PROPERTY = "C23"
META = {
    "category": "proof",
    "technique": "contract-based deductive verification of the chunk-size arithmetic kernel (blockdims_from_blockshape element expression: div/mod + prefix sums) and of the target-spec normalisation at the top of rechunk (fragment; dict / tuple / list targets, None and omitted axes, negative axes, argument not modified in place), z3; bounded native runs of normalize_chunks / rechunk on the real code",
    "text": "Kernel-level proof for all sizes: expanding an integer block size into explicit chunks yields positive chunks (or the single 0) that add up to the dimension and never exceed the requested size. rechunk: a dict target ends up with every axis present, a None or omitted axis keeps its current chunks and a given one is taken as given (negative axes normalised), a tuple/list target has its None entries replaced by the current chunks, any other target passes through, and the caller's dict/list object is never modified in place. normalize_chunks' type dispatch, auto_chunks' byte limit (floating point), _intersect_1d/plan_rechunk and the rechunk task graph are NOT proved: exhaustive/bounded native runs on the real code (labelled bounded).",
    "note": "Trusted: VC generator, z3, lemmas lemma_divmod/lemma_psum_const (proved by the same engine). Bounded only: normalize_chunks dispatch head, auto_chunks (floats), _intersect_1d/old_to_new, plan_rechunk/find_merge_rechunk (floats), NumPy getitem/concatenate graph of rechunk.",
    "design_ref": "DESIGN.md §5.9",
}
MODULES = ["contracts.lemmas", "contracts.chunks", "contracts.rechunkspec"]
ONLY = {"contracts.lemmas": ["lemma_divmod", "lemma_psum_const"]}
LEVEL = "proof"
EXPLANATION = "kernel proof + bounded native runs (normalize_chunks over small shapes/specs/limits; rechunk over all pairs of 1-D chunkings and multi-stage 2-D plans)"
TRUSTED = ["VC generator /verif/vf", "z3", "ASSUMED contract of validate_axis", "NumPy as value oracle in the bounded runs"]
ASSUMPTIONS = ["chunk sizes are ints"]
NATIVE_COVERS = {"blockdims_from_blockshape": ["normalize_chunks"], "rechunk[target spec]": ["rechunk"]}


def native(tier, seed):
    from vf import chunks_native
    return [chunks_native.normalize_sweep(tier, seed), chunks_native.rechunk_sweep(tier, seed)]


# thorough tier: deliberate edits that must turn an obligation red (applied to a scratch copy, never to /repo)
MUTATIONS = [('contracts.rechunkspec', 'rechunk[target spec]', 'dask/array/rechunk.py', '            elif chunks[i] is None:\n                chunks[i] = x.chunks[i]', '            elif chunks[i] is None and i > 0:\n                chunks[i] = x.chunks[i]'),
             ('contracts.rechunkspec', 'rechunk[target spec]', 'dask/array/rechunk.py', '        chunks = {validate_axis(c, x.ndim): v for c, v in chunks.items()}', '        if any(c < 0 for c in chunks):\n            chunks = {validate_axis(c, x.ndim): v for c, v in chunks.items()}'),
             ('contracts.chunks', 'blockdims_from_blockshape', 'dask/array/core.py', '((bd,) * (d // bd) + ((d % bd,) if d % bd else ()) if d else (0,))', '((bd,) * (d // bd) + ((d % bd,) if d % bd else (0,)) if d else (0,))')]
