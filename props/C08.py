"""C08 — task-spec conversion and execution preserve the graph's meaning."""
PROPERTY = "C08"
META = {
    "category": "proof",
    "technique": "contract-based deductive verification of Task.__init__ (reported dependencies = exactly the referenced keys) from the real AST, z3; bounded run-time contract of convert_legacy_graph/execution against a reference interpreter, and of pickling",
    "text": "Proof for every argument list: Task.__init__ records as dependencies exactly the keys of its TaskRef arguments and the dependencies of its nested GraphNode arguments (positional and keyword), nothing else. BOUNDED: convert_legacy_task recurses over dynamically typed nested Python values, which is outside the VC generator's typed subset. All legacy terms of depth <= 2 over 3 keys (incl. a tuple key), 2 functions, literals, lists, non-call tuples and dict arguments are converted and executed on the real code and compared with a reference interpreter of the stated legacy semantics; reported dependencies are compared with the referenced keys; 632 task nodes are pickled and compared (dependencies and value).",
    "note": "Proof covers the dependency bookkeeping only; conversion and pickling (setattr/getattr over slots) are bounded. Reference interpreter written from the property statement. One recorded finding (dict values).",
    "design_ref": "DESIGN.md §5.5",
}
MODULES = ["contracts.taskspec"]
ONLY = {"contracts.taskspec": ["Task.__init__"]}
LEVEL = "proof"
EXPLANATION = "bounded exhaustive run-time contract check against a reference legacy interpreter; convert_legacy_task is outside the typed subset of the VC generator (dynamically typed recursion), so no obligations are generated"
TRUSTED = ["reference interpreter of the legacy semantics (from the property statement)", "cloudpickle"]
ASSUMPTIONS = ["bounded term universe"]


def native(tier, seed):
    from vf import spec_native
    return [spec_native.legacy_sweep(tier, seed), spec_native.pickle_sweep(tier, seed)]


# thorough tier: deliberate edits that must turn an obligation red (applied to a scratch copy, never to /repo)
MUTATIONS = [('contracts.taskspec', 'Task.__init__', 'dask/_task_spec.py', '                    _dependencies.update(a.dependencies)', '                    pass')]
