"""C53 — serializable locks keep their identity across pickling."""
PROPERTY = "C53"
META = {
    "category": "proof",
    "technique": "contract-based deductive verification of SerializableLock.__init__/__getstate__/__setstate__ over an object model (registry map, ghost set of live lock objects, allocation freshness) and of ghost client programs that call them only through their contracts; z3",
    "text": "Proof for every history of creations, collector runs and unpickles: the class-level registry stays injective, an unpickled copy obtains exactly the lock object registered for its token (client theorem: create, GC, unpickle, GC, unpickle => all three share one lock while the first instance is alive), locks created with different explicit tokens or with generated tokens have different lock objects. Mutual exclusion itself is threading.Lock's (trusted). Bounded native histories on the real class (tokens 1 vs '1', ('a',1) vs its str, deletion + gc, behavioural acquire test) complement the proof.",
    "note": "Trusted: VC generator, z3, threading.Lock. ASSUMED: Lock() returns a new object (allocation freshness); a WeakValueDictionary entry vanishes only when no live instance references its lock (GC axiom, contract gc_step); uuid4 strings are non-empty and not yet registered; tokens are hashable. Lock creation is documented as not thread-safe: concurrent creation excluded.",
    "design_ref": "DESIGN.md §5.13",
}
MODULES = ["contracts.locks"]
LEVEL = "proof"
EXPLANATION = "two-state contracts + client theorems over the object model; native histories"
TRUSTED = ["VC generator /verif/vf", "z3", "threading.Lock", "GC axiom for WeakValueDictionary", "allocation freshness", "uuid4 uniqueness"]
ASSUMPTIONS = ["single-threaded creation (documented)", "tokens hashable"]
NATIVE_COVERS = {q: ["SerializableLock"] for q in ("SerializableLock.__init__", "SerializableLock.__getstate__", "SerializableLock.__setstate__")}


def native(tier, seed):
    from vf import diag_native
    return [diag_native.lock_sweep(tier, seed)]


# thorough tier: deliberate edits that must turn an obligation red (applied to a scratch copy, never to /repo)
MUTATIONS = [('contracts.locks', 'SerializableLock.__init__', 'dask/utils.py', '            SerializableLock._locks[self.token] = self.lock', '            pass')]
