"""C07 — topological sort and cycle detection are correct."""
PROPERTY = "C07"
META = {
    "category": "proof",
    "technique": "contract-based deductive verification of the DFS of _toposort (loop invariants with a ghost position map over the real AST), z3; exhaustive bounded native runs over all small digraphs and several hash seeds",
    "text": "Proof for every graph (any size, any set iteration order) that a normal return of _toposort/toposort is a duplicate-free list of graph keys that contains every start key, is closed under dependencies and places every key after all of its dependencies — hence (meta-argument) a normal return implies acyclicity, i.e. a cycle can only end in the raise. The cycle-reconstruction block and termination are bounded: every digraph with <= 4 nodes (self-loops included), every start set, PYTHONHASHSEED 0..15, 2 s time-out per call.",
    "note": "Trusted: VC generator, z3. For the proof the cycle block under `if nxt in seen:` is replaced mechanically by `raise RuntimeError` (stated in the evidence); getcycle's returned list (T2) and termination are bounded only. DependenciesMapping assumed to be the dependency map of the graph.",
    "design_ref": "DESIGN.md §5.4",
}
MODULES = ["contracts.coregraph"]
LEVEL = "proof"
EXPLANATION = "DFS partial correctness proved; cycle reconstruction + termination exhaustively bounded"
TRUSTED = ["VC generator /verif/vf", "z3", "meta-argument: a topological order exists only for acyclic graphs"]
ASSUMPTIONS = ["keys hashable; set iteration order arbitrary (contract semantics)", "termination not proved"]
NATIVE_COVERS = {"_toposort": ["_toposort"]}


def native(tier, seed):
    from vf import graph_native
    return [graph_native.sweep(tier, seed), graph_native.sweep5(tier, seed)]


# thorough tier: deliberate edits that must turn an obligation red (applied to a scratch copy, never to /repo)
MUTATIONS = [('contracts.coregraph', '_toposort', 'dask/core.py', '                completed.add(cur)\n                seen.remove(cur)', '                seen.remove(cur)')]
