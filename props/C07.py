"""C07 — topological sort and cycle detection are correct."""
PROPERTY = "C07"
META = {
    "category": "proof",
    "technique": "contract-based deductive verification of _toposort in both modes: the DFS (loop invariants with a ghost position map) and the cycle-reconstruction block (ghost pusher/expansion indices of the DFS stack, priorities = depth of the deepest popped copy, greedy walk invariant), z3; exhaustive bounded native runs over all small digraphs and several hash seeds for termination",
    "text": "Proof for every graph (any size, any set iteration order): (1) a normal return of _toposort/toposort is a duplicate-free list of graph keys that contains every start key, is closed under dependencies and places every key after all of its dependencies — hence (meta-argument) a normal return implies acyclicity, i.e. a cycle can only end in the raise; (2) with returncycle=True (getcycle/isdag): an empty answer comes with a ranking of all reached keys that puts every key after its dependencies (so no cycle is reachable), a non-empty answer c satisfies c[0] == c[-1], every c[i+1] is a dependency of c[i], every c[i] lies in every dependency-closed set containing the start keys (reachability), and the greedy walk never runs out of candidates (no ValueError/KeyError/IndexError). The pop loop and the greedy walk are proved to terminate (the walk strictly descends in priority). Termination of the DFS loops is bounded: every digraph with <= 4 nodes (self-loops included) x every start set x PYTHONHASHSEED 0..15, every 5-node digraph (<= 8 edges quick / all thorough), 2-5 s time-outs.",
    "note": "Trusted: VC generator, z3. Two contracts on the same source: for (1) the cycle block under `if nxt in seen:` is replaced mechanically by `raise RuntimeError`; for (2) the whole body is verified with returncycle=True (the string-formatting/raise tail is then infeasible). reverse_dict is verified too (its contract is what the cycle block uses). ASSUMED: DependenciesMapping is the dependency map of the graph; keys normalised to a list. Termination is not proved.",
    "design_ref": "DESIGN.md §5.4",
}
MODULES = ["contracts.coregraph"]
LEVEL = "proof"
EXPLANATION = "DFS and cycle reconstruction proved (partial correctness, exception freedom); termination exhaustively bounded"
TRUSTED = ["VC generator /verif/vf", "z3", "meta-argument: a topological order exists only for acyclic graphs"]
ASSUMPTIONS = ["keys hashable; set iteration order arbitrary (contract semantics)", "termination not proved"]
NATIVE_COVERS = {"_toposort": ["_toposort"], "_toposort[returncycle]": ["_toposort"], "reverse_dict": ["_toposort"]}


def native(tier, seed):
    from vf import graph_native
    return [graph_native.sweep(tier, seed), graph_native.sweep5(tier, seed)]


# thorough tier: deliberate edits that must turn an obligation red (applied to a scratch copy, never to /repo)
MUTATIONS = [('contracts.coregraph', '_toposort[returncycle]', 'dask/core.py', '                        cycle.reverse()\n', '                        pass\n'), ('contracts.coregraph', '_toposort[returncycle]', 'dask/core.py', '                        while nodes[-1] != nxt:', '                        while nodes[-1] != prev:'), ('contracts.coregraph', '_toposort[returncycle]', 'dask/core.py', '                        cycle = [nodes.pop()]', '                        cycle = [prev]'), ('contracts.coregraph', '_toposort[returncycle]', 'dask/core.py', '                            prev = min(deps, key=priorities.__getitem__)', '                            prev = max(deps, key=priorities.__getitem__)'), ('contracts.coregraph', 'reverse_dict', 'dask/core.py', '            _add(result[val], k)', '            _add(result[k], val)'), ('contracts.coregraph', '_toposort', 'dask/core.py', '                completed.add(cur)\n                seen.remove(cur)', '                seen.remove(cur)')]
