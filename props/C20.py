"""C20 — array indexing equals NumPy indexing."""
PROPERTY = "C20"
META = {
    "category": "proof",
    "technique": "contract-based deductive verification of normalize_slice against a spec function defined from slice.indices, and of the per-chunk decomposition _slice_1d for positive and for negative steps (loop invariants with a ghost `first / last selected position per chunk`, modulus isolated in lemma_divmod_any / lemma_divmod_negdiv), z3; exhaustive bounded native runs of _slice_1d/new_blockdim and Array.__getitem__ against NumPy",
    "text": "Proof for every slice and every dimension length that normalize_slice selects exactly the same positions in the same direction (spec function `selects` from the model of slice.indices; symbolic-step modulus kept uninterpreted, identical on both sides). _slice_1d (fragment, one contract per sign of the step; shown for a positive step, mirrored for a negative one — the block repaired by fix 21a8b40, whose pre-fix text fails `chunks-above-the-range-begin-above-START`): for every chunking with non-negative chunk lengths and every normalised slice, a chunk gets an entry exactly when a selected position START + k*step < STOP lies in it; the entry's local start is that chunk's first selected position (congruent to START modulo step, less than one step past the chunk start), its local stop is where the chunk or the slice ends, its step is the slice's; chunks outside the visited range hold no selected position. The integer / full-slice fast paths of _slice_1d, new_blockdim and list/boolean/None/Ellipsis indexing are bounded: exhaustive over all chunkings (zero-length chunks included) and all slices of small arrays, against NumPy.",
    "note": "Trusted: VC generator, z3, model of slice.indices (CPython PySlice_AdjustIndices; cross-checked natively on every run); ASSUMED: cached_cumsum returns the running sums of the chunk lengths (stated as a precondition on chunk_boundaries); bisect models. The _slice_1d fragment runs from `step = index.step or 1` to the end of the positive-step loop (the two cosmetic statements after it are dropped). Bounded only: new_blockdim, take/shuffle, boolean and vindex indexing, NumPy fancy-index semantics.",
    "design_ref": "DESIGN.md §5.8",
}
MODULES = ["contracts.lemmas", "contracts.slicing"]
ONLY = {"contracts.lemmas": ["lemma_divmod_any", "lemma_divmod_negdiv"]}
LEVEL = "proof"
EXPLANATION = "kernel proofs of normalize_slice and of the positive-step chunk decomposition + exhaustive bounded native runs against NumPy"
TRUSTED = ["VC generator /verif/vf", "z3", "model of slice.indices", "NumPy as oracle in bounded runs"]
ASSUMPTIONS = ["integer dimension lengths (unknown/NaN chunk sizes excluded)"]
NATIVE_COVERS = {"normalize_slice": ["normalize_slice", "Array.__getitem__"], "_slice_1d[positive step]": ["_slice_1d", "Array.__getitem__"], "_slice_1d[negative step]": ["_slice_1d", "Array.__getitem__"]}


def native(tier, seed):
    from vf import slicing_native
    return [slicing_native.sweep(tier, seed), indices_crosscheck()]


def indices_crosscheck():
    """Encoding cross-check: the SMT model of slice.indices against CPython on all small slices."""
    import z3
    from vf import rtc, ty as T
    from vf.engine import Engine
    from vf.core import SV, State
    eng = Engine()
    eng.spec_mode = True
    st = State()
    O = T.Opt(T.Int)
    cases = bad = 0
    fails = []
    for n in range(0, 7):
        for a in [None] + list(range(-8, 9)):
            for b in [None] + list(range(-8, 9)):
                for c in [None, -3, -2, -1, 1, 2, 3]:
                    cases += 1
                    mk = lambda v: O.none() if v is None else O.some(z3.IntVal(v))
                    s = SV(T.Slice.mk(start=mk(a), stop=mk(b), step=mk(c)), T.Slice)
                    tup = eng.slice_indices(s, z3.IntVal(n), st, None)
                    got = tuple(z3.simplify(tup.ty.get(tup.t, i)).as_long() for i in range(3))
                    if got != slice(a, b, c).indices(n):
                        fails.append(rtc.Failure("model:slice.indices", {"slice": (a, b, c), "n": n}, "exception", "encoding-disagrees-with-CPython", f"model {got}, CPython {slice(a, b, c).indices(n)}"))
    return {"function": "builtin model slice.indices vs CPython", "bounded": True, "bound": {"fields": "[-8, 8] + None", "n": "0..6"}, "cases": cases,
            "distinct_nontrivial": cases, "failures_found": len(fails), "wall_s": 0.0, "samples": [{"native_case": {"slice": [None, -3, -1], "n": 5}}], "failures": fails[:3]}


# thorough tier: deliberate edits that must turn an obligation red (applied to a scratch copy, never to /repo)
MUTATIONS = [('contracts.slicing', '_slice_1d[negative step]', 'dask/array/slicing.py', '        istart = bisect.bisect_right(chunk_boundaries, start)\n        istop = bisect.bisect_right(chunk_boundaries, stop)', '        istart = bisect.bisect_left(chunk_boundaries, start)\n        istop = bisect.bisect_right(chunk_boundaries, stop)'),
             ('contracts.slicing', '_slice_1d[negative step]', 'dask/array/slicing.py', '                rstart = chunk_start + offset - 1', '                rstart = chunk_start + offset'),
             ('contracts.slicing', '_slice_1d[positive step]', 'dask/array/slicing.py', '                start = (start - length) % step', '                start = (start - length)'),
             ('contracts.slicing', '_slice_1d[positive step]', 'dask/array/slicing.py', '                d[i] = slice(start, min(stop, length), step)', '                d[i] = slice(start, stop, step)'),
             ('contracts.slicing', '_slice_1d[positive step]', 'dask/array/slicing.py', '        istop = min(istop + 1, len(lengths))', '        istop = min(istop, len(lengths))'),
             ('contracts.slicing', 'normalize_slice', 'dask/array/slicing.py', '            if stop >= dim:\n                stop = None', '            if stop > dim:\n                stop = None\n            if stop == dim:\n                stop = dim - 1')]
