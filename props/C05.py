"""C05 — callbacks fire in protocol order and contexts nest like a stack."""
PROPERTY = "C05"
META = {
    "category": "proof",
    "technique": "contract-based deductive verification: two-state contracts on add_callbacks/Callback operations over the abstract set Callback.active, set-algebra stack lemma, ghost flags in get_async; z3",
    "text": "Proof for every history (induction on its length: each operation's two-state contract is the induction step) that leaving a context removes exactly what that context activated; in get_async: finish callbacks on both exits of the try with the right failure flag, pretask only when a key moves to running, posttask only after finish_task. local_callbacks (the @contextmanager generator every scheduler call runs in) is proved to leave Callback.active as it found it on normal and on exceptional exit and to hide the global callbacks from nested schedulers (`yield` = call of the assumed with-body contract). The exact pre/post pairing per key is bounded natively.",
    "note": "Trusted: VC generator, z3; normalize_callback modelled as `object -> its 5-tuple`; unpack_callbacks assumed (native bounded runs); ASSUMED contract of the body of `with local_callbacks(...)` (it restores Callback.active, also when it raises: the stack property + induction on nesting depth); user callbacks assumed not to touch scheduler state or Callback.active.",
    "design_ref": "DESIGN.md §5.2",
}
MODULES = ["contracts.callbacks", "contracts.lemmas", "contracts.local"]
ONLY = {"contracts.local": ["get_async", "get_async.fire_tasks"], "contracts.lemmas": ["lemma_ceil_div"]}
LEVEL = "proof"
DEEP_FALLBACK = True
EXPLANATION = "Two-state contracts on every operation that touches Callback.active + the stack lemma; callback dispatch inside get_async through ghost flags."
TRUSTED = ["VC generator /verif/vf", "z3 5.1 / z3 4.8.12", "ASSUMED: the body of `with local_callbacks()` restores Callback.active (stack property; induction on nesting)", "ASSUMED: user callbacks do not modify Callback.active or scheduler state"]
ASSUMPTIONS = ["callback objects are hashable and compared by identity of their 5-tuple"]
NATIVE_COVERS = {q: ["add_callbacks.__exit__"] for q in ("local_callbacks", "add_callbacks.__init__", "add_callbacks.__exit__", "Callback.__enter__", "Callback.__exit__", "Callback.register", "Callback.unregister")}
NATIVE_COVERS.update({q: ["get_async"] for q in ("get_async", "get_async.fire_tasks")})


def native(tier, seed):
    from vf import cb_native, sched_native
    return [cb_native.sweep(tier, seed), sched_native.sweep(tier, seed, time_budget=10 if tier == "quick" else 120)]


def replay_native(native):
    from vf import cb_native, sched_native
    if "history" in native.get("args", {}):
        return cb_native.replay(native)
    return sched_native.replay(native)


# thorough tier: deliberate edits that must turn an obligation red (applied to a scratch copy, never to /repo)
MUTATIONS = [('contracts.callbacks', 'local_callbacks', 'dask/callbacks.py', '    finally:\n        if global_callbacks:\n            Callback.active = callbacks', '    finally:\n        if not global_callbacks:\n            Callback.active = set()'), ('contracts.callbacks', 'add_callbacks.__exit__', 'dask/callbacks.py', '            Callback.active.discard(c)', '            Callback.active.add(c)')]
