"""C10 — high-level graph culling and blockwise fusion are sound."""
PROPERTY = "C10"
META = {
    "category": "proof",
    "technique": "contract-based deductive verification of HighLevelGraph.cull (modular: checked against the contracts of Layer.cull, itself proved for the legacy-task branch, and of _toposort_layers) and of _fuse_annotations (annotation dicts as records of optional keys, filtered comprehensions as index bijections, assumed models of toolz.merge/merge_with and set.intersection), z3; bounded stand-in (run-time postconditions) for HighLevelGraph.cull / Blockwise.cull / optimize_blockwise over a fixed family of blockwise layer stacks",
    "text": "PROVED for every valid high-level graph (each key in one layer; a key's dependencies live in its own layer or in a layer listed in `dependencies`) and every key set: HighLevelGraph.cull keeps only original tasks, keeps every requested key that the graph defines, and keeps everything a kept task needs (loop invariant over the dependents-first walk: needs of kept tasks are kept or still wanted in a layer not walked yet); Layer.cull (legacy-task branch) returns a part of the layer that contains the requested keys, is closed under dependencies inside the layer and reports exactly the dependencies of the kept tasks, without modifying its arguments. PROVED for every list of annotation dicts: fused retries and priority are the maximum over the layers that set them, resources the per-resource maximum, workers exactly the intersection, allow_other_workers the conjunction, and a key no layer sets stays unset (so no constraint is ever loosened). BOUNDED, not proved: (a) the same function run natively against the documented rules for all pairs (and triples of a subset) of 20 annotation dicts including falsy values; (b) for 6 stacks of blockwise layers (elementwise, transpose, broadcasting, new axes, contraction, concatenate) and several output-key subsets: culling keeps every needed key and the values, culling an already culled graph again does too, Blockwise.cull's dependencies equal those of the materialised tasks, optimize_blockwise leaves values unchanged (NumPy comparison).",
    "note": "Trusted: VC generator, z3; ASSUMED models of toolz.merge (key present iff present in some input, value from an input), toolz.merge_with(max, ...) (per-key maximum) and set.intersection. ASSUMED for HighLevelGraph.cull: _toposort_layers returns every layer once with dependencies first; every layer class's cull satisfies the contract proved for Layer.cull; new layer names are distinct. That culling leaves VALUES unchanged follows from `kept tasks are the original tasks` + `everything needed is kept` (evaluation itself is C01). Blockwise.cull/_cull_dependencies and fusion of blockwise layers are NOT proved: blockwise index-string algebra and NumPy block functions are outside the VC generator (bounded native runs only).",
    "design_ref": "DESIGN.md §5.5",
}
MODULES = ["contracts.annotations", "contracts.hlg"]
LEVEL = "proof"
EXPLANATION = "HighLevelGraph.cull / Layer.cull and the annotation-fusion clause proved for all inputs; Blockwise culling and fusion soundness by bounded run-time contract checks"
TRUSTED = ["VC generator /verif/vf", "z3", "assumed models: toolz.merge, toolz.merge_with(max), set.intersection", "reference implementation of the documented annotation rules (native)", "NumPy as value oracle (native)"]
ASSUMPTIONS = ["bounded universe of annotations and layer stacks"]


def native(tier, seed):
    from vf import hlg_native
    return [hlg_native.annotations_sweep(tier, seed), hlg_native.cull_sweep(tier, seed)]


NATIVE_COVERS = {"_fuse_annotations": ["_fuse_annotations"], "HighLevelGraph.cull": ["HighLevelGraph.cull"], "Layer.cull[legacy tasks]": ["HighLevelGraph.cull"]}

# thorough tier: deliberate edits that must turn an obligation red (applied to a scratch copy, never to /repo)
MUTATIONS = [('contracts.hlg', 'HighLevelGraph.cull', 'dask/highlevelgraph.py', '                    keys_set |= d\n', '                    pass\n'),
             ('contracts.hlg', 'HighLevelGraph.cull', 'dask/highlevelgraph.py', '        for layer_name in reversed(self._toposort_layers()):', '        for layer_name in self._toposort_layers():'),
             ('contracts.hlg', 'Layer.cull[legacy tasks]', 'dask/highlevelgraph.py', '                            seen.add(d)\n                            work.add(d)', '                            seen.add(d)'),
             ('contracts.hlg', 'Layer.cull[legacy tasks]', 'dask/highlevelgraph.py', '            work = keys.copy()', '            work = keys'),
             ('contracts.annotations', '_fuse_annotations', 'dask/blockwise.py', '        annotations["retries"] = max(retries)', '        annotations["retries"] = retries[-1]'),
             ('contracts.annotations', '_fuse_annotations', 'dask/blockwise.py', '        annotations["allow_other_workers"] = all(allow_other_workers)', '        annotations["allow_other_workers"] = any(allow_other_workers)'),
             ('contracts.annotations', '_fuse_annotations', 'dask/blockwise.py', '    workers = [a["workers"] for a in args if "workers" in a]', '    workers = [a["workers"] for a in args if a.get("workers")]')]
