"""C10 — high-level graph culling and blockwise fusion are sound."""
PROPERTY = "C10"
META = {
    "category": "other",
    "technique": "bounded stand-in: run-time postconditions on the real _fuse_annotations / HighLevelGraph.cull / Blockwise.cull / optimize_blockwise over an enumerated annotation universe and a fixed family of blockwise layer stacks",
    "text": "BOUNDED, not proved: (a) _fuse_annotations against the documented rules for all pairs (and triples of a subset) of 20 annotation dicts including falsy values; (b) for 6 stacks of blockwise layers (elementwise, transpose, broadcasting, new axes, contraction, concatenate) and several output-key subsets: culling keeps every needed key and the values, culling an already culled graph again does too, Blockwise.cull's dependencies equal those of the materialised tasks, optimize_blockwise leaves values unchanged (NumPy comparison).",
    "note": "No deductive proof (level other): blockwise index-string algebra and NumPy block functions are outside the VC generator; _fuse_annotations uses filtered comprehensions over heterogeneous dicts and toolz.merge_with (not brought under contract).",
    "design_ref": "DESIGN.md §5.5",
}
MODULES = []
LEVEL = "other"
EXPLANATION = "bounded run-time contract checks only; no obligations generated"
TRUSTED = ["reference implementation of the documented annotation rules", "NumPy as value oracle"]
ASSUMPTIONS = ["bounded universe of annotations and layer stacks"]


def native(tier, seed):
    from vf import hlg_native
    return [hlg_native.annotations_sweep(tier, seed), hlg_native.cull_sweep(tier, seed)]
