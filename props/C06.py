"""C06 — static task ordering is a total order consistent with dependencies."""
PROPERTY = "C06"
META = {
    "category": "other",
    "technique": "bounded stand-in (exhaustive run-time postcondition on the real order()) for the property as a whole; contract-based deductive verification (z3) of one clause on a fragment: the priorities that the normalisation loop hands to stripped alias leaves; the heuristics of order() (500 lines of closures over mutable maps) are outside the VC generator's reach",
    "text": "PROVED (fragment `all_tasks = False` .. end of the `while not all_tasks` loop, normal runs only: exception freedom of the fragment is not checked): the priorities given to stripped alias leaves are pairwise distinct, lie in [expected_len - n_removed_leaves, expected_len), and the numbered leaves have left the graph -- the clause repaired by fix bc4654f, whose pre-fix text fails `C06-leaf-priorities-are-pairwise-distinct`. BOUNDED, not proved (the property as a whole): the postcondition `every graph key and no other gets a priority, priorities pairwise distinct, every key after all of its in-graph dependencies; cyclic graphs rejected` is evaluated on the real order() for every graph with <= 4 (quick) / 5 (thorough) nodes whose nodes are tasks, data, aliases or multi-dependency lists, with and without a reference to an external key, in legacy and task-spec form, plus cyclic variants with a 3 s time-out.",
    "note": "Level other: only the fragment above is proved; for the rest there is no deductive proof: order() is a 500-line function of nested closures sharing mutable dicts/sets with dynamic typing; bringing it under contract was not attempted. The leaf-priority arithmetic defect found while writing its contract is fixed (known_findings.json).",
    "design_ref": "DESIGN.md §5.3",
}
MODULES = ["contracts.orderfrag"]
LEVEL = "other"
EXPLANATION = "exhaustive bounded run-time postcondition check of order(); one clause (alias-leaf priorities) proved on the normalisation fragment; order()'s closure-heavy heuristics are outside the verified subset"
TRUSTED = ["enumeration harness /verif/vf/order_native.py", "VC generator /verif/vf", "z3", "DependenciesMapping modelled as a plain map (enough for the stated clause)"]
ASSUMPTIONS = ["bounded graph size"]


def native(tier, seed):
    from vf import order_native
    return [order_native.sweep(tier, seed)]


NATIVE_COVERS = {"order[alias-leaf priorities]": ["order"]}

# thorough tier: deliberate edits that must turn an obligation red (applied to a scratch copy, never to /repo)
MUTATIONS = [('contracts.orderfrag', 'order[alias-leaf priorities]', 'dask/order.py', '                prio = expected_len - 1 - n_removed_leaves', '                prio = len(dsk) - 1 - n_removed_leaves'),
             ('contracts.orderfrag', 'order[alias-leaf priorities]', 'dask/order.py', '                del dsk[leaf]\n', '                pass\n')]
