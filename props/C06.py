"""C06 — static task ordering is a total order consistent with dependencies."""
PROPERTY = "C06"
META = {
    "category": "other",
    "technique": "bounded stand-in (exhaustive run-time postcondition on the real order()); the heuristics of order() (500 lines of closures over mutable maps) are outside the VC generator's reach",
    "text": "BOUNDED, not proved: the postcondition `every graph key and no other gets a priority, priorities pairwise distinct, every key after all of its in-graph dependencies; cyclic graphs rejected` is evaluated on the real order() for every graph with <= 4 (quick) / 5 (thorough) nodes whose nodes are tasks, data, aliases or multi-dependency lists, with and without a reference to an external key, in legacy and task-spec form, plus cyclic variants with a 3 s time-out.",
    "note": "No deductive proof (level other): order() is a 500-line function of nested closures sharing mutable dicts/sets with dynamic typing; bringing it under contract was not attempted. The leaf-priority arithmetic defect found while writing its contract is fixed (known_findings.json).",
    "design_ref": "DESIGN.md §5.3",
}
MODULES = []
LEVEL = "other"
EXPLANATION = "exhaustive bounded run-time postcondition check of order(); no obligations generated because order()'s closure-heavy heuristics are outside the verified subset"
TRUSTED = ["enumeration harness /verif/vf/order_native.py"]
ASSUMPTIONS = ["bounded graph size"]


def native(tier, seed):
    from vf import order_native
    return [order_native.sweep(tier, seed)]
