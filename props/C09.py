"""C09 — low-level graph optimizations preserve requested values."""
PROPERTY = "C09"
META = {
    "category": "proof",
    "technique": "contract-based deductive verification of both cull implementations (optimization.cull and _task_spec.cull: closure under dependencies, pointwise identity, dependency map) from the real AST, z3; bounded native runs of every optimisation against a reference evaluator",
    "text": "Proof for every graph that cull returns a sub-graph that contains the requested keys, is closed under dependencies, agrees pointwise with the input and returns exactly each kept key's dependency list (hence, by the meta-lemma `a dependency-closed sub-graph with identical tasks denotes the same values`, preserves the requested values). inline, inline_functions, fuse_linear, fuse (parameter grid, renaming on/off/custom), fuse_linear_task_spec and resolve_aliases rewrite task terms in a dynamically typed universe: bounded only (all graphs <= 4 nodes, random 5-6 node graphs, hyphenated keys to provoke renaming collisions) against a reference evaluator.",
    "note": "Trusted: VC generator, z3; get_dependencies ASSUMED to return the dependency list of a key (uninterpreted function of the task); flatten/set(keys) modelled. Term-rewriting optimisations are bounded only.",
    "design_ref": "DESIGN.md §5.5",
}
MODULES = ["contracts.optimization", "contracts.taskspec"]
ONLY = {"contracts.taskspec": ["cull"]}
LEVEL = "proof"
EXPLANATION = "cull proved; the term-rewriting optimisations bounded against a reference evaluator"
TRUSTED = ["VC generator /verif/vf", "z3", "meta-lemma: closed + pointwise identical sub-graph denotes the same values", "reference evaluator of legacy graphs"]
ASSUMPTIONS = ["get_dependencies returns exactly the keys a task references (C08)"]
NATIVE_COVERS = {"cull": ["cull"]}


def native(tier, seed):
    from vf import opt_native
    return [opt_native.sweep(tier, seed)]


# thorough tier: deliberate edits that must turn an obligation red (applied to a scratch copy, never to /repo)
MUTATIONS = [('contracts.optimization', 'cull', 'dask/optimization.py', '                if d not in seen:', '                if d in seen:'), ('contracts.taskspec', 'cull', 'dask/_task_spec.py', '        wupdate(v.dependencies)', '        pass')]
