"""C11 — equal task nodes compute equal values."""
PROPERTY = "C11"
META = {
    "category": "proof",
    "technique": "contract on NestedContainer.__dask_tokenize__ (which fields, in which order, enter a node's identity) verified from the real AST, z3; exhaustive congruence check over a bounded node universe on the real code",
    "text": "Proof that for List/Tuple containers the identity token lists the component tokens in argument order together with the container class (so, with injective component tokens — C12, assumed — equal tokens force equal argument sequences and equal values). Set/Dict branches, Task._get_token, Alias/DataNode tokens, __eq__ and the token cache under substitute() are bounded: every pair of nodes of a universe with argument permutations, nestings, keyword values, key-like references (1 vs '1') is checked for `same token or == implies same value`.",
    "note": "Trusted: VC generator, z3; tokenize modelled as an uninterpreted deterministic function (its injectivity is C12's business). Bounded only: Set/Dict token branches, Task tokens, cached-token behaviour under substitute.",
    "design_ref": "DESIGN.md §5.5",
}
MODULES = ["contracts.taskspec"]
ONLY = {"contracts.taskspec": ["NestedContainer.__dask_tokenize__"]}
LEVEL = "proof"
EXPLANATION = "order/class part of the container identity proved; congruence of == / tokens with evaluation bounded over a node universe"
TRUSTED = ["VC generator /verif/vf", "z3", "tokenize deterministic (C12 assumed)"]
ASSUMPTIONS = ["component tokens injective (C12)"]
NATIVE_COVERS = {"NestedContainer.__dask_tokenize__": ["GraphNode.__eq__", "Task.substitute"]}


def native(tier, seed):
    from vf import spec_native
    return [spec_native.congruence_sweep(tier, seed), spec_native.token_history_sweep(tier, seed), spec_native.fresh_process_sweep(tier, seed)]
