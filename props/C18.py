"""C18 — size and duration helpers round-trip and meet their documented bounds."""
from vf import rtc

PROPERTY = "C18"
META = {
    "category": "proof",
    "technique": "contract-based deductive verification of format_bytes (band structure, width, printed precision) under an explicit float rounding model and an assumed f-string model, z3; bounded native runs for the string parsers",
    "text": "Proof for every integer below 2**60 of format_bytes: printed unit matches the printed scale, the value parses back within the printed precision, plain bytes exact, and width <= 10 in every band — the last obligation is REFUTED for the PiB band (recorded known finding, witness replayed on the real function). parse_bytes / parse_timedelta scanning, key_split and natural_sort_key are string algorithms: bounded (every documented unit spelling x letter casings incl. mixed case x numerals; random keys).",
    "note": "Trusted: VC generator, z3, float rounding model (2**-53 per operation), ASSUMED model of f'{x:.2f}' (|shown - x| <= 0.005, two decimals) cross-checked natively on band edges. String parsing is bounded only.",
    "design_ref": "DESIGN.md §5.7",
}
MODULES = ["contracts.utils18"]
LEVEL = "proof"
EXPLANATION = "format_bytes proved except for the recorded PiB finding; parsers bounded"
TRUSTED = ["VC generator /verif/vf", "z3", "float rounding model", "f-string '.2f' model"]
ASSUMPTIONS = ["no float overflow", "n is an int"]
NATIVE_COVERS = {"format_bytes": ["format_bytes"]}


def native(tier, seed):
    from vf import utils_native
    return [utils_native.format_sweep(tier, seed), utils_native.parse_sweep(tier, seed)]


def witness_for(contract, ob, items):
    """Replay the solver's counter-model on the real format_bytes."""
    from dask.utils import format_bytes
    from vf.solve import model_for
    rep = items[0][1]
    for _, _, o in items[:3]:
        if o.status != "refuted":
            continue
        m = model_for(o, 8000)
        if m is None:
            continue
        args = rtc.model_to_args(m, contract, rep.pre_env)
        if not args:
            continue
        s = format_bytes(args["n"])
        if len(s) > 10:
            return rtc.Failure("format_bytes", args, "ensures", "C18-at-most-10-characters", f"[replayed from solver model] format_bytes({args['n']}) = {s!r}: {len(s)} characters")
    return None


# thorough tier: deliberate edits that must turn an obligation red (applied to a scratch copy, never to /repo)
MUTATIONS = [('contracts.utils18', 'format_bytes', 'dask/utils.py', '        if n >= k * 0.9:', '        if n >= k * 1.9:')]
