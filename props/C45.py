"""C45 — division planning never splits equal index values."""
PROPERTY = "C45"
META = {
    "category": "proof",
    "technique": "contract-based deductive verification of sorted_division_locations (loop invariant over the real AST, bisect/sorted models), z3; bounded native runs of the extracted source",
    "text": "Proof for every sorted sequence (values modelled as Int: only <, <=, == are used) and every npartitions/chunksize: locations strictly increase from 0 to len(seq), each division is the value at its location, every interior location is a first occurrence (equal values never straddle a boundary), npartitions is met exactly whenever the sequence has at least that many distinct values (invariants: last location = ideal position + drift, the loop ends exactly when npartitions divisions exist, enough distinct values remain for the divisions still owed; nonlinear step isolated in lemma_ideal_mono), no IndexError/None dereference, and the loop terminates (lexicographic measure: distance of the last location from the end, then distance of the probe position from the end). Quantile-based divisions (NumPy) are bounded only.",
    "note": "Trusted: VC generator, z3; builtin models bisect_left, sorted(set(.)), list.append; `tolist` identity. dask.dataframe cannot be imported (pyarrow missing): verified text = AST of the source file, E2 exec()s the extracted function. partitionquantiles (NumPy/pandas percentiles) is NOT proved: bounded native runs of process_val_weights only.",
    "design_ref": "DESIGN.md §5.11",
}
MODULES = ["contracts.lemmas", "contracts.dfio"]
ONLY = {"contracts.lemmas": ["lemma_divmod", "lemma_ideal_mono"]}
LEVEL = "proof"
EXPLANATION = "loop-invariant proof of sorted_division_locations (all five clauses of the statement, including exact npartitions) + total correctness of sorted_division_locations; bounded stand-in for quantile divisions"
TRUSTED = ["VC generator /verif/vf", "z3 5.1/4.8.12", "models: bisect.bisect_left, sorted(set(xs)), tolist"]
ASSUMPTIONS = ["index values totally ordered (modelled as Int)"]
NATIVE_COVERS = {"sorted_division_locations": ["sorted_division_locations"], "sorted_division_locations.chunksizes": ["sorted_division_locations"]}


def native(tier, seed):
    from vf import sdl_native
    return [sdl_native.sweep(tier, seed), sdl_native.pq_sweep(tier, seed), sdl_native.percentile_grid_sweep(tier, seed)]


def replay_native(native):
    from vf import sdl_native
    if native["function"] == "sorted_division_locations":
        return sdl_native.replay(native)
    return {"reproduced": "rerun ./check C45"}


# thorough tier: deliberate edits that must turn an obligation red (applied to a scratch copy, never to /repo)
MUTATIONS = [('contracts.dfio', 'sorted_division_locations', 'dask/dataframe/io/io.py', '            else:\n                i += 1\n', '            else:\n                i += 0\n'), ('contracts.dfio', 'sorted_division_locations', 'dask/dataframe/io/io.py', '        enforce_exact = npartitions and len(offsets) >= npartitions', '        enforce_exact = npartitions and npartitions <= len(offsets) < 2 * npartitions'), ('contracts.dfio', 'sorted_division_locations', 'dask/dataframe/io/io.py', '                ind += 1\n', '                ind += 1\n                drift = 0\n'), ('contracts.dfio', 'sorted_division_locations', 'dask/dataframe/io/io.py', '            pos = int(offsets[ind])', '            pos = i')]
