"""C26 — overlap chunk arithmetic (kernel proof) + bounded native run of the same contracts."""
from contracts import overlap
from vf import rtc

PROPERTY = "C26"
META = {
    "category": "proof",
    "technique": "contract-based deductive verification: VCs from the real Python AST + sidecar contracts, z3/cvc5",
    "text": "Kernel-level proof for all chunkings, depths (symmetric or (left, right) per axis) and sizes: ensure_minimum_chunksize keeps the total and makes every chunk >= depth (or raises exactly when the array is too small); _overlap_internal_chunks grows first/interior/last blocks by exactly the shared depths; the chunk arithmetic of trim_internal removes exactly those; overlap() itself (fragment: the rechunk-or-refuse step) hands on an array whose every chunk holds both depths of its axis -- via _get_overlap_rechunked_chunks when allow_rechunk, unchanged otherwise, and raises exactly when some chunk is smaller than the larger depth and rechunking is not allowed; client theorem: overlapping then trimming the chunk tuples is the identity. Halo contents, boundary modes and map_overlap values are NumPy-level: bounded native runs.",
    "note": "Trusted: self-built VC generator, SMT solvers, builtin models (len/min/sum/append), psum axioms. Not covered: NumPy halo contents, boundary modes, sliding_window_view, map_overlap function application.",
    "design_ref": "DESIGN.md §5.10",
}
MODULES = ["contracts.lemmas", "contracts.overlap"]
LEVEL = "proof"
EXPLANATION = (
    "Kernel-level deductive proof: the integer/sequence arithmetic that carries 'overlap then trim is the identity' "
    "and 'every chunk is at least the depth' is proved for all inputs from the real source; halo contents are NumPy and not covered."
)
TRUSTED = [
    "VC generator /verif/vf (self-built ast->SMT symbolic executor)",
    "z3 5.1 / z3 4.8.12 / cvc5 1.0.3",
    "psum axioms (definition + store-frame lemmas)",
    "builtin models: len, min, sum, tuple, list.append, range",
]
ASSUMPTIONS = [
    "chunk sizes are Python ints (mathematical integers: exact, Python ints are unbounded)",
    "NumPy halo contents, boundary modes and sliding_window_view are NOT covered",
]


def _real(name):
    def r():
        import dask.array.overlap as m

        return getattr(m, name)

    return r


_by_name = {c.name: c for c in overlap.CONTRACTS}

SPECS = [
    rtc.NativeSpec(
        _by_name["ensure_minimum_chunksize"], _real("ensure_minimum_chunksize"),
        bounds={"quick": {"int_lo": 0, "int_hi": 4, "max_len": 4, "per_param": {"size": {"int_lo": 1, "int_hi": 5}}},
                "thorough": {"int_lo": 0, "int_hi": 5, "max_len": 6, "per_param": {"size": {"int_lo": 1, "int_hi": 7}}}},
    ),
]


def native(tier, seed):
    from vf import overlap_native
    return [s.run(tier) for s in SPECS] + [overlap_native.sweep(tier, seed)]


def witness_for(contract, ob, items):
    for s in SPECS:
        if s.contract is contract:
            rep = items[0][1]
            for _, _, o in items[:3]:
                w = rtc.witness_from_model(s, o, rep.pre_env)
                if w:
                    return w
    return None


def replay_native(native):
    args = eval(native["args_repr"], {"slice": slice})
    for s in SPECS:
        if s.contract.qualname == native["function"]:
            r = s.check_args(args)
            return r.to_json() if isinstance(r, rtc.Failure) else None
    return None


# thorough tier: deliberate edits that must turn an obligation red (applied to a scratch copy, never to /repo)
MUTATIONS = [('contracts.overlap', 'overlap[chunks fit the depth]', 'dask/array/overlap.py', '        original_chunks_too_small = any(min(c) < d for d, c in zip(depths, x.chunks))', '        original_chunks_too_small = any(max(c) < d for d, c in zip(depths, x.chunks))'), ('contracts.overlap', '_get_overlap_rechunked_chunks', 'dask/array/overlap.py', 'depths = [max(d) if isinstance(d, tuple) else d for d in depth2.values()]\n    # rechunk if new chunks are needed to fit depth in every chunk\n    return tuple(', 'depths = [(d[0] or d[1]) if isinstance(d, tuple) else d for d in depth2.values()]\n    # rechunk if new chunks are needed to fit depth in every chunk\n    return tuple('), ('contracts.overlap', 'ensure_minimum_chunksize', 'dask/array/overlap.py', '            if new > size + (size - c):', '            if new > size:'), ('contracts.overlap', '_overlap_internal_chunks', 'dask/array/overlap.py', '            left = [bds[0] + right_depth]', '            left = [bds[0] + left_depth]'), ('contracts.overlap', 'trim_internal', 'dask/array/overlap.py', '                d = d - overlap[1] if j != len(bd) - 1 else d', '                d = d - overlap[0] if j != len(bd) - 1 else d')]
