"""C44 — repartitioning preserves rows, order and requested layout (partition-boundary kernels)."""
from vf import rtc
from contracts import repartition as R

PROPERTY = "C44"
META = {
    "category": "proof",
    "technique": "contract-based deductive verification of the boundary arithmetic (float rounding model, prefix sums) and of the task-graph builders RepartitionToFewer._layer / RepartitionToMore._layer and of both phases of RepartitionDivisions._layer (force=False; loop invariants, termination), z3; bounded native execution of the extracted _layer methods on a partition model",
    "text": "Kernel-level proof for all partition counts < 2**31: RepartitionToFewer boundaries have n_new+1 entries, start at 0, end at n_old and never decrease (so the range(start,end) lists tile the input partitions in order: lemma_tiling); RepartitionToMore._nsplits has one entry >= 1 per input partition and sums to the requested count. RepartitionToMore._layer: output partition numbers are exactly 0..sum(nsplits)-1 and piece jj of input partition i is output number psum(nsplits, i) + jj (an alias of the input when nsplits[i] == 1, else getitem(split_evenly(input i, nsplits[i]), jj)); RepartitionToFewer._layer: one output per pair of boundaries, concatenating exactly the inputs boundaries[i] .. boundaries[i+1]-1 in order. Together with the kernels: every input partition reaches exactly one place of the output, in order. RepartitionDivisions._layer with force=False, for all sorted old/new divisions with equal ends (labels modelled as integers): phase 1 -- split q is boundary_slice of ONE old partition src_q over [c[q], c[q+1]) with a[src_q] <= c[q] <= c[q+1] <= a[src_q+1], src starts at 0, ends at the last old partition and moves to the next partition only at that partition's boundary (so the splits tile every old partition), no new division falls strictly inside a split, the cut points are sorted and end at a[-1]; phase 2 -- the last split is closed on the right, every new partition j is the dummy empty slice / an alias / a concat of a run of CONSECUTIVE splits [ST[j], ST[j+1]) with ST[0] = 0 and ST[-1] = k (every split used exactly once, in order), and each split of run j lies inside [b[j], b[j+1]]; all loops terminate. RepartitionDivisions with force=True and RepartitionSize are executed natively on a stated partition model (bounded).",
    "note": "Trusted: VC generator, z3, float model (2**-53 relative error per operation, integers <= 2**53 exact, no overflow). dask.dataframe cannot be imported here (pyarrow missing): verified text = AST of the source; E2 exec()s the extracted functions with stub globals (decorators and module import side effects dropped). pandas-level row movement (boundary_slice, concat, split_evenly) is ASSUMED per the stated partition model. RepartitionSize / from_pandas / force=True not covered by proofs.",
    "design_ref": "DESIGN.md §5.11",
}
MODULES = ["contracts.lemmas", "contracts.repartition", "contracts.repartdiv"]
ONLY = {"contracts.lemmas": ["lemma_divmod", "lemma_psum_const", "lemma_tiling"]}
LEVEL = "proof"
EXPLANATION = "kernel proof of the boundary arithmetic + bounded native runs of the extracted layer builders"
TRUSTED = ["VC generator /verif/vf", "z3 5.1/4.8.12, cvc5", "float rounding model", "partition model of boundary_slice/concat/split_evenly (assumed)"]
ASSUMPTIONS = ["partition counts below 2**31", "no float overflow"]


def native(tier, seed):
    from vf import repart_native
    return repart_native.sweep(tier, seed)


def replay_native(native):
    from vf import repart_native
    return repart_native.replay(native)


NATIVE_COVERS = {"RepartitionToMore._layer": ["RepartitionToMore._layer", "_nsplits"], "RepartitionToFewer._layer": ["_compute_partition_boundaries"], "RepartitionToFewer._compute_partition_boundaries": ["_compute_partition_boundaries"], "RepartitionToMore._nsplits": ["_nsplits"], "RepartitionDivisions._layer[splits]": ["RepartitionDivisions._layer"], "RepartitionDivisions._layer[outputs]": ["RepartitionDivisions._layer"], "RepartitionDivisions._layer._is_single_last_div": ["RepartitionDivisions._layer"], "_clean_new_division_boundaries": ["_compute_partition_boundaries"]}


# thorough tier: deliberate edits that must turn an obligation red (applied to a scratch copy, never to /repo)
MUTATIONS = [('contracts.repartdiv', 'RepartitionDivisions._layer[splits]', 'dask/dataframe/dask_expr/_repartition.py', '                d[(out1, k)] = (methods.boundary_slice, (name, i - 1), low, b[j], False)\n                low = b[j]\n                j += 1', '                d[(out1, k)] = (methods.boundary_slice, (name, i - 1), low, b[j], False)\n                low = a[i]\n                j += 1'),
             ('contracts.repartdiv', 'RepartitionDivisions._layer[outputs]', 'dask/dataframe/dask_expr/_repartition.py', '            while c[i] < b[j]:', '            while c[i] <= b[j] and i < k:'),
             ('contracts.repartdiv', 'RepartitionDivisions._layer[splits]', 'dask/dataframe/dask_expr/_repartition.py', '                if len(a) == i + 1 or a[i] < a[i + 1]:\n                    j += 1', '                j += 1'),
             ('contracts.repartition', 'RepartitionToFewer._layer', 'dask/dataframe/dask_expr/_repartition.py', '                [(self.frame._name, j) for j in range(start, end)],', '                [(self.frame._name, j) for j in range(start, end - 1)],'),
             ('contracts.repartition', 'RepartitionToMore._layer', 'dask/dataframe/dask_expr/_repartition.py', '        for i, k in enumerate(nsplits):\n            if k == 1:\n                dsk[new_name, j] = (df._name, i)\n                j += 1', '        for i, k in enumerate(nsplits):\n            if k == 1:\n                dsk[new_name, j] = (df._name, i)'),
             ('contracts.repartition', 'RepartitionToMore._nsplits', 'dask/dataframe/dask_expr/_repartition.py', '        nsplits = [div] * df.npartitions', '        nsplits = [div] * (df.npartitions - 1) + [0]'), ('contracts.repartition', '_clean_new_division_boundaries', 'dask/dataframe/dask_expr/_repartition.py', '    if new_partitions_boundaries[-1] < frame_npartitions:', '    if new_partitions_boundaries[-1] > frame_npartitions:')]
