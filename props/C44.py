"""C44 — repartitioning preserves rows, order and requested layout (partition-boundary kernels)."""
from vf import rtc
from contracts import repartition as R

PROPERTY = "C44"
META = {
    "category": "proof",
    "technique": "contract-based deductive verification of the boundary arithmetic (float rounding model, prefix sums) and of the task-graph builders RepartitionToFewer._layer / RepartitionToMore._layer, z3; bounded native execution of the extracted _layer methods on a partition model",
    "text": "Kernel-level proof for all partition counts < 2**31: RepartitionToFewer boundaries have n_new+1 entries, start at 0, end at n_old and never decrease (so the range(start,end) lists tile the input partitions in order: lemma_tiling); RepartitionToMore._nsplits has one entry >= 1 per input partition and sums to the requested count. RepartitionToMore._layer: output partition numbers are exactly 0..sum(nsplits)-1 and piece jj of input partition i is output number psum(nsplits, i) + jj (an alias of the input when nsplits[i] == 1, else getitem(split_evenly(input i, nsplits[i]), jj)); RepartitionToFewer._layer: one output per pair of boundaries, concatenating exactly the inputs boundaries[i] .. boundaries[i+1]-1 in order. Together with the kernels: every input partition reaches exactly one place of the output, in order. RepartitionDivisions and RepartitionSize are executed natively on a stated partition model (bounded).",
    "note": "Trusted: VC generator, z3, float model (2**-53 relative error per operation, integers <= 2**53 exact, no overflow). dask.dataframe cannot be imported here (pyarrow missing): verified text = AST of the source; E2 exec()s the extracted functions with stub globals (decorators and module import side effects dropped). pandas-level row movement (boundary_slice, concat, split_evenly) is ASSUMED per the stated partition model. RepartitionSize / from_pandas not covered.",
    "design_ref": "DESIGN.md §5.11",
}
MODULES = ["contracts.lemmas", "contracts.repartition"]
ONLY = {"contracts.lemmas": ["lemma_divmod", "lemma_psum_const", "lemma_tiling"]}
LEVEL = "proof"
EXPLANATION = "kernel proof of the boundary arithmetic + bounded native runs of the extracted layer builders"
TRUSTED = ["VC generator /verif/vf", "z3 5.1/4.8.12, cvc5", "float rounding model", "partition model of boundary_slice/concat/split_evenly (assumed)"]
ASSUMPTIONS = ["partition counts below 2**31", "no float overflow"]


def native(tier, seed):
    from vf import repart_native
    return repart_native.sweep(tier, seed)


def replay_native(native):
    from vf import repart_native
    return repart_native.replay(native)


NATIVE_COVERS = {"RepartitionToMore._layer": ["RepartitionToMore._layer", "_nsplits"], "RepartitionToFewer._layer": ["_compute_partition_boundaries"], "RepartitionToFewer._compute_partition_boundaries": ["_compute_partition_boundaries"], "RepartitionToMore._nsplits": ["_nsplits"], "_clean_new_division_boundaries": ["_compute_partition_boundaries"]}


# thorough tier: deliberate edits that must turn an obligation red (applied to a scratch copy, never to /repo)
MUTATIONS = [('contracts.repartition', 'RepartitionToFewer._layer', 'dask/dataframe/dask_expr/_repartition.py', '                [(self.frame._name, j) for j in range(start, end)],', '                [(self.frame._name, j) for j in range(start, end - 1)],'),
             ('contracts.repartition', 'RepartitionToMore._layer', 'dask/dataframe/dask_expr/_repartition.py', '        for i, k in enumerate(nsplits):\n            if k == 1:\n                dsk[new_name, j] = (df._name, i)\n                j += 1', '        for i, k in enumerate(nsplits):\n            if k == 1:\n                dsk[new_name, j] = (df._name, i)'),
             ('contracts.repartition', 'RepartitionToMore._nsplits', 'dask/dataframe/dask_expr/_repartition.py', '        nsplits = [div] * df.npartitions', '        nsplits = [div] * (df.npartitions - 1) + [0]'), ('contracts.repartition', '_clean_new_division_boundaries', 'dask/dataframe/dask_expr/_repartition.py', '    if new_partitions_boundaries[-1] < frame_npartitions:', '    if new_partitions_boundaries[-1] > frame_npartitions:')]
