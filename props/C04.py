"""C04 — failing task surfaces, scheduler terminates cleanly"""
from vf import rtc

PROPERTY = "C04"
META = {
    "category": "proof",
    "technique": "contract-based deductive verification: VCs from the real Python AST of dask/local.py + sidecar contracts (representation invariant WF, ghost in-flight set), z3",
    "text": "Deductive proof of the failure path of get_async: the raise path keeps the invariant (no task whose dependency is unfinished was ever started), finish callbacks run on both exits of the try with flag == (exit by exception), `never hangs` is the obligation IF != {} before every wait (no-deadlock lemma by infinite descent on the acyclicity rank). Exception identity through execute_task/pack_exception/reraise and multiprocessing's remote_exception re-wrapping are NOT proved (bounded native runs with failing tasks only).",
    "note": "Trusted: self-built VC generator, z3; ASSUMED contracts: concurrent.futures submit, queue_get().result(), cloudpickle round trip, convert_legacy_graph identity on task-spec graphs (C08), order() irrelevant to correctness, user tasks/callbacks do not touch scheduler state, acyclic graph (rank function), cache=None. multiprocessing.get's cull/fuse assumed (C09).",
    "design_ref": "DESIGN.md §5.1",
    "focus": 'obligations: raises-post[TaskError:*], ghost-assert[C04-finish-callbacks-get-the-failure-flag], queue_get_result:something-in-flight, lemma_no_deadlock',
}
MODULES = ["contracts.lemmas", "contracts.local"]
LEVEL = "proof"
DEEP_FALLBACK = True
EXPLANATION = "Every obligation generated from dask/local.py's scheduler functions is discharged; see trusted_base for the assumed external contracts."
TRUSTED = [
    "VC generator /verif/vf", "z3 5.1 / z3 4.8.12 / cvc5 1.0.3",
    "ASSUMED submit(): hands each batch to a worker exactly once",
    "ASSUMED queue_get(queue).result(): returns the results of some in-flight batch; a task run on denote(deps) yields denote(key)",
    "ASSUMED convert_legacy_graph identity on task-spec graphs (C08); order() result only used as sort key; nested_get packing (bounded natively)",
    "ASSUMED user tasks, callbacks, dumps/loads/get_id do not mutate scheduler state; loads(dumps(x)) == x",
    "builtin models: set/dict/list operations, len (cardinality), slicing, range",
]
ASSUMPTIONS = ["graph acyclic (rank function)", "cache is None or empty", "rerun_exceptions_locally False", "dict-entry values (sets inside state maps) unaliased"]

NATIVE_COVERS = {q: ["get_async"] for q in ("release_data", "finish_task", "get_async.fire_tasks", "get_async", "start_state_from_dask")}


def native(tier, seed):
    from vf import cb_native, sched_native
    # callback histories (length 3; longer ones are C05's) include a failing scheduler call: its finish callbacks and the active set afterwards
    return [sched_native.sweep(tier, seed), sched_native.remote_exception_sweep(tier, seed), sched_native.raising_kinds_sweep(tier, seed), cb_native.sweep(tier, seed, length=3)]


def replay_native(native):
    from vf import cb_native, sched_native
    if "history" in native.get("args", {}):
        return cb_native.replay(native)
    return sched_native.replay(native)


from props.C01 import MUTATIONS  # noqa: E402,F401 (same module under contract)
