"""C50 — block-wise text reading reproduces the file exactly."""
PROPERTY = "C50"
META = {
    "category": "other",
    "technique": "bounded stand-in: run-time postconditions of read_bytes / read_text on real files over an enumerated corpus of contents, delimiters and blocksizes; the offset loop of read_bytes (float accumulation) is not yet under contract",
    "text": "BOUNDED, not proved: for 20 hand-picked contents (empty, no delimiter, trailing delimiter, runs, multi-character and self-overlapping delimiters, unicode, form feed/NEL) plus random contents, delimiters \\n | || aa and blocksizes 1,2,3,5,7,len/2,len+1,None: read_bytes blocks concatenate to the file and every interior boundary follows a delimiter; read_text returns the same lines for every blocksize and they equal the file split after each delimiter with no empty trailing element; files_per_partition / include_path variants agree.",
    "note": "No deductive proof (level other): fsspec.utils.read_block and text decoding are third-party/IO; the offset arithmetic of read_bytes uses a float accumulator (candidate for the float model, not done). Recorded finding: self-overlapping delimiters.",
    "design_ref": "DESIGN.md §5.12",
}
MODULES = []
LEVEL = "other"
EXPLANATION = "bounded run-time contract checks on real files; no obligations generated"
TRUSTED = ["reference line splitter (str.split based)", "local filesystem"]
ASSUMPTIONS = ["bounded corpus"]


def native(tier, seed):
    from vf import text_native
    return [text_native.sweep(tier, seed)]
