"""C50 — block-wise text reading reproduces the file exactly."""
PROPERTY = "C50"
META = {
    "category": "proof",
    "technique": "contract-based deductive verification of the offset/length arithmetic of read_bytes (fragment extracted mechanically, one contract per branch of the blocksize selection: exact integers / float accumulator under the rounding model), z3; bounded stand-in: run-time postconditions of read_bytes / read_text on real files over an enumerated corpus of contents, delimiters and blocksizes",
    "text": "PROVED for every file size and blocksize below 2**40: the nominal (offset, length) pairs that read_bytes hands to read_block_from_file tile the file exactly ([0 or 1, size) without gap or overlap, one length per offset, no empty block after the first), on the integer branch including termination of the loop, on the float branch under the rounding model. That is the arithmetic half of `the blocks concatenate to the file contents`; where each block really ends (after a delimiter) is fsspec.read_block (third party, not proved). BOUNDED, not proved: for 20 hand-picked contents (empty, no delimiter, trailing delimiter, runs, multi-character and self-overlapping delimiters, unicode, form feed/NEL) plus random contents, delimiters \\n | || aa and blocksizes 1,2,3,5,7,len/2,len+1,None: read_bytes blocks concatenate to the file and every interior boundary follows a delimiter; read_text returns the same lines for every blocksize and they equal the file split after each delimiter with no empty trailing element; files_per_partition / include_path variants agree.",
    "note": "Trusted: VC generator, z3, float model (2**-53 relative error per operation, integers <= 2**53 exact, no overflow). The verified text is the `else` branch of the per-file size check inside read_bytes up to the append of the offsets, with the `if size % blocksize and size > blocksize` statement replaced by the branch the precondition selects (mechanical, stated in the evidence). fsspec.utils.read_block, delimiter search and text decoding are third-party/IO: bounded natively only. Recorded finding: self-overlapping delimiters.",
    "design_ref": "DESIGN.md §5.12",
}
MODULES = ["contracts.lemmas", "contracts.bytescore"]
ONLY = {"contracts.lemmas": ["lemma_divmod"]}
LEVEL = "proof"
EXPLANATION = "offset arithmetic of read_bytes proved (both branches); delimiter alignment and read_text by bounded run-time contract checks on real files"
TRUSTED = ["VC generator /verif/vf", "z3", "float rounding model", "fsspec.utils.read_block (third party)", "reference line splitter (str.split based)", "local filesystem"]
ASSUMPTIONS = ["file and block sizes below 2**40", "no float overflow", "bounded corpus for the native part"]


def native(tier, seed):
    from vf import text_native
    return [text_native.sweep(tier, seed)]


NATIVE_COVERS = {"read_bytes[offsets, blocksize kept]": ["read_bytes"], "read_bytes[offsets, blocksize shrunk]": ["read_bytes"]}

# thorough tier: deliberate edits that must turn an obligation red (applied to a scratch copy, never to /repo)
MUTATIONS = [('contracts.bytescore', 'read_bytes[offsets, blocksize kept]', 'dask/bytes/core.py', '                length.append(size - off[-1])', '                length.append(size - off[-1] - 1)'),
             ('contracts.bytescore', 'read_bytes[offsets, blocksize shrunk]', 'dask/bytes/core.py', '                    off.append(int(place))', '                    off.append(int(place) + 1)'),
             ('contracts.bytescore', 'read_bytes[offsets, blocksize shrunk]', 'dask/bytes/core.py', '                    length[0] -= 1', '                    length[0] -= 2')]
