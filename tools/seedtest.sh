#!/bin/bash
# Apply each seeded change to /repo, run the check of its property, undo; record what was reported.
cd "$(dirname "$0")/.."
for d in ${@:-seeded/*}; do
  d=${d%/}
  id=$(basename $d); prop=${id%-*}
  [ -f props/$prop.py ] || { echo "$id: no check for $prop yet"; continue; }
  git -C /repo apply $PWD/$d/patch.diff 2>/dev/null || { echo "$id: patch does not apply"; continue; }
  out=$(./check $prop --tier ${TIER:-quick} 2>&1); rc=$?
  git -C /repo checkout -- . ; git -C /repo clean -fdq dask 2>/dev/null
  echo "$id: exit=$rc $(echo "$out" | grep -c '^VIOLATION') violation line(s): $(echo "$out" | grep '^VIOLATION' | head -2 | sed 's/.*replay=.*replays\///' | tr '\n' ' ')"
done
