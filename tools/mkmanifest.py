#!/usr/bin/env python3
"""Regenerate MANIFEST.json from props/*.py (claimed) and tools/na.py (not applicable)."""
import importlib, json, os, sys
ROOT = os.path.dirname(os.path.dirname(os.path.abspath(__file__)))
sys.path.insert(0, ROOT); sys.path.insert(0, os.path.join(ROOT, "tools"))
import na
ids = [json.loads(l)["id"] for l in open(os.path.join(ROOT, "properties.jsonl"))]
checks, notapp = [], []
for pid in ids:
    path = os.path.join(ROOT, "props", pid + ".py")
    meta = None
    if os.path.exists(path):
        src = open(path).read()
        ns = {}
        # META is a plain dict literal at the top of each props module
        import ast
        for node in ast.parse(src).body:
            if isinstance(node, ast.Assign) and getattr(node.targets[0], "id", "") == "META":
                meta = ast.literal_eval(node.value)
    if meta:
        checks.append({
            "property_id": pid,
            "quick_cmd": f"./check {pid} --tier quick",
            "thorough_cmd": f"./check {pid} --tier thorough",
            "evidence_file": f"evidence/{pid}.json",
            "replay_cmd_template": f"./check {pid} --replay {{path}}",
            "engine": "pyvc+rtc",
            "level_claimed": {"category": meta["category"], "text": meta["text"], "design_ref": meta.get("design_ref", "DESIGN.md §5")},
            "level_note": meta["note"],
            "technique": meta["technique"],
        })
    else:
        notapp.append({"property_id": pid, "reason": na.NA.get(pid, na.NOT_YET)})
man = {
    "version": 1,
    "setup_cmd": "./setup.sh",
    "hooks": {"guard": "DASK_VERIF", "enable": "none needed: contracts are sidecar files, extraction reads /repo's working tree; the guard name is reserved and unused",
              "baseline_off_cmd": "cd /repo && /venv/bin/python -m pytest -ra -q -p no:cacheprovider --timeout=900 --continue-on-collection-errors",
              "source_commits": [], "add_only": True},
    "engines": [
        {"name": "pyvc", "path": "vf/", "serves_properties": [c["property_id"] for c in checks],
         "kind_free_text": "self-built verification-condition generator: Python ast of the real functions + sidecar contracts -> one SMT query per (path, goal), discharged by z3 5.1 / z3 4.8.12 / cvc5 1.0.3"},
        {"name": "rtc", "path": "vf/rtc.py", "serves_properties": [c["property_id"] for c in checks],
         "kind_free_text": "the same contract text executed natively on the real function: counter-model replay, bounded exhaustive stand-in (labelled bounded), contract/CPython cross-check"},
    ],
    "checks": checks,
    "not_applicable": notapp,
    "notes": "Contract-based deductive verification; see DESIGN.md. Exit 0 held / 1 VIOLATION / 3 checker error. known_findings.json lists recorded findings and fixes.",
}
json.dump(man, open(os.path.join(ROOT, "MANIFEST.json"), "w"), indent=1)
import jsonschema
jsonschema.validate(man, json.load(open("/root/.vp/MANIFEST.schema.json")))
print("MANIFEST ok:", len(checks), "checks,", len(notapp), "not applicable")
