#!/bin/bash
# Like seedtest.sh, but on a scratch worktree of /repo (outside /repo and /verif, removed afterwards) selected with
# VF_REPO, so that several seeded changes can be tried at once and /repo itself stays untouched.
# NOTE: rewrites evidence/<ID>.json from a patched tree: finish with a clean `tools/runall.sh quick`.
cd "$(dirname "$0")/.."
for d in "$@"; do
  d=${d%/}
  id=$(basename $d); prop=${id%-*}
  [ -f props/$prop.py ] || { echo "$id: no check for $prop yet"; continue; }
  wt=$(mktemp -d /tmp/vf-seedwt-XXXXXX); rmdir $wt
  git -C /repo worktree add -q --detach $wt HEAD || { echo "$id: cannot create worktree"; continue; }
  if git -C $wt apply $PWD/$d/patch.diff 2>/dev/null; then
    out=$(VF_REPO=$wt ./check $prop --tier ${TIER:-quick} 2>&1); rc=$?
    echo "$id: exit=$rc $(echo "$out" | grep -c '^VIOLATION') violation line(s): $(echo "$out" | grep '^VIOLATION' | head -2 | sed 's/.*replay=.*replays\///' | tr '\n' ' ')"
  else
    echo "$id: patch does not apply"
  fi
  git -C /repo worktree remove --force $wt
done
