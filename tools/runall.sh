#!/bin/bash
# Run every registered check (quick tier by default) on the current /repo tree; validate evidence.
cd "$(dirname "$0")/.."
TIER=${1:-quick}
ids=$(.venv/bin/python -c "import json; print(' '.join(c['property_id'] for c in json.load(open('MANIFEST.json'))['checks']))")
mkdir -p /tmp/vf-logs
for id in $ids; do
  ( ./check $id --tier $TIER > /tmp/vf-logs/$id.log 2>&1; echo "$id exit=$? $(grep -c VIOLATION /tmp/vf-logs/$id.log) violations; $(head -1 /tmp/vf-logs/$id.log)" ) &
  while [ $(jobs -r | wc -l) -ge ${PAR:-3} ]; do sleep 1; done
done
wait
.venv/bin/python - <<'PY'
import json, jsonschema, glob
sch = json.load(open('/root/.vp/EVIDENCE.schema.json'))
man = json.load(open('MANIFEST.json'))
for c in man['checks']:
    try:
        ev = json.load(open(c['evidence_file']))
        jsonschema.validate(ev, sch)
        ok = ev['level'] == c['level_claimed']['category']
        print(c['property_id'], 'evidence ok' if ok else f"LEVEL MISMATCH {ev['level']} vs {c['level_claimed']['category']}", ev['coverage'].get('obligations'), ev['coverage'].get('discharged'))
    except Exception as e:
        print(c['property_id'], 'EVIDENCE PROBLEM', str(e)[:200])
PY
