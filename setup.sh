#!/bin/bash
# Build the offline interpreter used by every check: /verif/.venv (git-ignored).
# python 3.12 from /venv (has dask's deps) + z3-solver, cvc5, jsonschema from the wheelhouse.
set -e
cd "$(dirname "$0")"
if [ ! -x .venv/bin/python ] || ! .venv/bin/python -c "import z3, jsonschema, numpy" 2>/dev/null; then
  rm -rf .venv
  /venv/bin/python -m venv .venv
  PIP_NO_INDEX=1 .venv/bin/pip install -q --no-index --find-links /opt/veriftools/wheels z3-solver cvc5 jsonschema >/dev/null
  SP=$(.venv/bin/python -c "import site; print(site.getsitepackages()[0])")
  echo "import site; site.addsitedir('/venv/lib/python3.12/site-packages')" > "$SP/zz_repo_deps.pth"
fi
.venv/bin/python -c "import z3, jsonschema, numpy; print('venv ok', z3.get_version_string())"
