"""Contracts for the chunk-arithmetic kernels behind C23 (dask/array/core.py, dask/array/rechunk.py)."""
import ast

from vf import ty as T
from vf.engine import Contract
from contracts.lemmas import LEMMA_FUNCS

MODULE = "dask/array/core.py"
SI = T.Seq(T.Int)


def blockdims_element(body):
    """Fragment selector: the element expression of the generator in blockdims_from_blockshape's
    return statement, `((bd,) * (d // bd) + ((d % bd,) if d % bd else ()) if d else (0,)) for d, bd in zip(shape, chunks)`,
    turned mechanically into `return <element>` with d, bd as parameters."""
    ret = [s for s in body if isinstance(s, ast.Return)][-1]
    gen = ret.value.args[0]
    assert isinstance(gen, ast.GeneratorExp) and [n.id for n in gen.generators[0].target.elts] == ["d", "bd"]
    r = ast.Return(value=gen.elt)
    ast.copy_location(r, ret)
    return [ast.fix_missing_locations(r)]


blockdims = Contract(
    MODULE, "blockdims_from_blockshape",
    fragment=blockdims_element,
    params={"d": T.Int, "bd": T.Int},
    returns=SI,
    requires=[("dim", "d >= 0"), ("blocksize", "bd >= 1")],
    ensures=[
        ("C23-adds-up-to-shape", "sum(result) == d"),
        ("C23-positive-or-single-zero", "(d == 0 and len(result) == 1 and result[0] == 0) or (d > 0 and all(result[i] >= 1 for i in range(len(result))))"),
        ("C23-no-chunk-larger-than-requested", "all(result[i] <= bd for i in range(len(result)))"),
        ("nonempty", "len(result) >= 1"),
    ],
    ghost=[
        ("entry", "", "lemma_divmod(d, bd)"),
        ("exit", "", "lemma_psum_const(result, d // bd, bd)\nassert_(implies(d > 0 and d % bd != 0, psum(result, d // bd + 1) == psum(result, d // bd) + result[d // bd]), 'unfold-remainder')\nassert_(implies(d == 0, psum(result, 1) == psum(result, 0) + result[0]), 'unfold-zero')"),
    ],
    note="fragment: element expression of the per-dimension generator (extracted mechanically); the type checks and NaN handling around it are dropped",
)

CONTRACTS = [blockdims]


def setup(eng):
    eng.funcs.update(LEMMA_FUNCS)
    eng.uninterp_divmod = True
