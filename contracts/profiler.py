"""Contracts for dask/diagnostics/profile.py:Profiler (C52, profiler clause).

A record of `Profiler._results` is a tuple that grows from (key, task, start) to (key, task, start, end, worker id):
a union of the two shapes.  `default_timer()` is modelled as a monotone clock (ghost CLOCK; ASSUMED).  Two-state
contracts on _pretask/_posttask/_finish + an instance invariant, and a ghost client that drives them in the order
the scheduler does (pretask before posttask per key, finish at the end).
"""
import ast
import os

import z3

from vf import ty as T
from vf.core import SV, FuncVal, Unsupported, fresh, fresh_name
from vf.engine import Contract

MODULE = "dask/diagnostics/profile.py"
Key = T.U("Key")
TaskT = T.U("TaskT")
Wid = T.U("WorkerId")
Started = T.Tup(Key, TaskT, T.Real)
Done = T.Tup(Key, TaskT, T.Real, T.Real, Wid)
Rec_ = T.Union("ProfRecord", {"started": Started, "done": Done})
Results = T.Map(Key, Rec_)
Prof = T.Rec("ProfilerObj", {"_results": Results, "results": T.Seq(Done)})
Graph = T.Map(Key, TaskT)
Opaque = T.U("Opaque")
FREE = {"CLOCK": T.Real}

INV = [
    ("records-are-filed-under-their-key", "forall(lambda k: implies(k in self._results.keys(), rec_key(self._results[k]) == k), Key)"),
    ("recorded-times-are-in-the-past", "forall(lambda k: implies(k in self._results.keys(), rec_start(self._results[k]) <= CLOCK and implies(len(self._results[k]) == 5, rec_start(self._results[k]) <= rec_end(self._results[k]) and rec_end(self._results[k]) <= CLOCK)), Key)"),
    ("C52-start-before-end", "forall(lambda j: implies(0 <= j and j < len(self.results), self.results[j][2] <= self.results[j][3]))"),
]
_OTHERS = "forall(lambda k: implies(k != key, (k in self._results.keys()) == (k in old(self._results).keys()) and implies(k in self._results.keys(), self._results[k] == old(self._results)[k])), Key)"

pretask = Contract(
    MODULE, "Profiler._pretask",
    params={"self": Prof, "key": Key, "dsk": Graph, "state": Opaque},
    free=FREE, frame=["self", "CLOCK"],
    requires=INV + [("key-in-graph", "key in dsk.keys()")],
    ensures=INV + [
        ("C52-opens-one-record-for-the-task", "key in self._results.keys() and len(self._results[key]) == 3 and rec_start(self._results[key]) == CLOCK and CLOCK >= old(CLOCK)"),
        ("other-records-untouched", _OTHERS),
        ("finished-list-untouched", "same(self.results, old(self.results))"),
    ],
)

posttask = Contract(
    MODULE, "Profiler._posttask",
    params={"self": Prof, "key": Key, "value": Opaque, "dsk": Graph, "state": Opaque, "id": Wid},
    free=FREE, frame=["self", "CLOCK"],
    requires=INV + [("C52-pretask-came-first", "key in self._results.keys() and len(self._results[key]) == 3")],
    ensures=INV + [
        ("C52-completes-the-record", "key in self._results.keys() and len(self._results[key]) == 5 and rec_start(self._results[key]) == rec_start(old(self._results)[key]) and rec_end(self._results[key]) == CLOCK and rec_start(self._results[key]) <= rec_end(self._results[key])"),
        ("other-records-untouched", _OTHERS),
        ("finished-list-untouched", "same(self.results, old(self.results))"),
    ],
)

finish = Contract(
    MODULE, "Profiler._finish",
    params={"self": Prof, "dsk": Graph, "state": Opaque, "failed": T.Bool},
    free=FREE, frame=["self"],
    locals={"results": Results},
    requires=INV,
    ensures=INV + [
        ("in-flight-records-are-dropped", "forall(lambda k: k not in self._results.keys(), Key)"),
        ("earlier-entries-kept", "len(self.results) >= len(old(self.results)) and forall(lambda j: implies(0 <= j and j < len(old(self.results)), self.results[j] == old(self.results)[j]))"),
        ("C52-one-entry-per-completed-task",
         "len(self.results) - len(old(self.results)) == len(completed(old(self._results)))"
         " and forall(lambda k: implies(k in completed(old(self._results)), exists(lambda j: len(old(self.results)) <= j and j < len(self.results) and self.results[j][0] == k)), Key)"
         " and forall(lambda i, j: implies(len(old(self.results)) <= i and i < j and j < len(self.results), self.results[i][0] != self.results[j][0]))"
         " and forall(lambda j: implies(len(old(self.results)) <= j and j < len(self.results), self.results[j][0] in completed(old(self._results))))"),
    ],
)

_LEM = os.path.join(os.path.dirname(os.path.dirname(os.path.abspath(__file__))), "lemmas", "profiler_clients.py")

client = Contract(
    _LEM, "client_two_tasks_one_fails_later",
    params={"p": Prof, "dsk": Graph, "a": Key, "b": Key, "c": Key, "st": Opaque, "v": Opaque, "w": Wid},
    free=FREE, frame=["p", "CLOCK"],
    requires=[(l, c_.replace("self.", "p.")) for l, c_ in INV] + [("fresh-profiler", "forall(lambda k: k not in p._results.keys(), Key) and len(p.results) == 0"),
                                                                    ("three-different-tasks", "a != b and b != c and a != c and a in dsk.keys() and b in dsk.keys() and c in dsk.keys()")],
    ensures=[("C52-exactly-the-completed-tasks-are-recorded-once",
              "len(p.results) == 2 and ((p.results[0][0] == a and p.results[1][0] == b) or (p.results[0][0] == b and p.results[1][0] == a))"),
             ("C52-start-before-end", "p.results[0][2] <= p.results[0][3] and p.results[1][2] <= p.results[1][3]")],
    note="client program: pretask a, pretask b, posttask b, pretask c, posttask a, finish (c still running: its task failed) — calls the real methods only through their contracts",
)

CONTRACTS = [pretask, posttask, finish, client]


def _fld(r, i_started, i_done):
    d = Rec_.proj("done", r)
    s_ = Rec_.proj("started", r)
    return z3.If(Rec_.is_("done", r), Done.get(d, i_done), Started.get(s_, i_started))


def spec_rec_key(eng, st, r):
    return SV(_fld(r.t, 0, 0), Key)


def spec_rec_start(eng, st, r):
    return SV(_fld(r.t, 2, 2), T.Real)


def spec_rec_end(eng, st, r):
    return SV(Done.get(Rec_.proj("done", r.t), 3), T.Real)


def spec_completed(eng, st, m):
    """keys whose record has reached its five-field form"""
    k = z3.Const(fresh_name("k"), Key.sort())
    return SV(z3.Lambda([k], z3.And(z3.Select(Results.dom(m.t), k), Rec_.is_("done", z3.Select(Results.valarr(m.t), k)))), T.Set(Key))


def model_timer(eng, st, node, want):
    """default_timer(): ASSUMED monotone clock"""
    t = fresh(T.Real, "now")
    c = eng.read_name(st, "CLOCK")
    st.assume(t.t >= c.t)
    st.env["CLOCK"] = t
    eng.used_models.add("default_timer: ASSUMED monotone (never goes backwards)")
    return t


def model_starmap(eng, st, node, want):
    """starmap(TaskData, records): TaskData(*rec) for each record -- a five-field namedtuple, modelled as the tuple itself;
    a record that does not have five fields would raise TypeError (obligation)."""
    if not (isinstance(node.args[0], ast.Name) and node.args[0].id == "TaskData"):
        raise Unsupported("starmap of a function other than TaskData")
    xs = eng.ev(node.args[1], st)
    sty = xs.ty
    if not (isinstance(sty, T.Seq) and sty.elem == Rec_):
        raise Unsupported(f"starmap over {sty}")
    j = z3.Int(fresh_name("j"))
    n, arr = sty.len(xs.t), sty.arr(xs.t)
    eng.check(st, z3.ForAll([j], z3.Implies(z3.And(0 <= j, j < n), Rec_.is_("done", z3.Select(arr, j)))), "TypeError(TaskData needs five fields)", node)
    out = T.Seq(Done)
    i = z3.Int("i!sm")
    return SV(out.mk(z3.Lambda([i], Rec_.proj("done", z3.Select(arr, i))), n), out)


def method_via(contract):
    def m(eng, st, base, node, lv):
        tmp = f"__self_{id(node)}"
        st.env[tmp] = base
        call = ast.Call(func=ast.Name(id="m", ctx=ast.Load()), args=[ast.Name(id=tmp, ctx=ast.Load())] + list(node.args), keywords=list(node.keywords))
        ast.copy_location(call, node)
        ast.fix_missing_locations(call)
        r = eng.call_contract(contract, call, st, None)
        post = st.env.pop(tmp)
        if lv is not None and "self" in contract.frame:
            eng.write_path(st, lv[0], lv[1], post, node)
        return r
    return m


def setup(eng):
    eng.spec_types["Key"] = Key
    eng.mutable_records.add("ProfilerObj")
    eng.spec_funcs["rec_key"] = spec_rec_key
    eng.spec_funcs["rec_start"] = spec_rec_start
    eng.spec_funcs["rec_end"] = spec_rec_end
    eng.spec_funcs["completed"] = spec_completed
    eng.funcs["default_timer"] = FuncVal("default_timer", "model", model_timer)
    eng.funcs["starmap"] = FuncVal("starmap", "model", model_starmap)
    eng.attr_models[("method", "ProfilerObj", "_pretask")] = method_via(pretask)
    eng.attr_models[("method", "ProfilerObj", "_posttask")] = method_via(posttask)
    eng.attr_models[("method", "ProfilerObj", "_finish")] = method_via(finish)
