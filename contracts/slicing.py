"""Contracts for dask/array/slicing.py kernels (C20)."""
import z3

from vf import ty as T
from vf.core import SV, FuncVal
from vf.engine import Contract
from vf.expr import _UFMOD

MODULE = "dask/array/slicing.py"
OI = T.Opt(T.Int)


def spec_selects(eng, st, s, n, p):
    """p is one of the positions range(n)[s] yields (defined from the model of slice.indices)."""
    tup = eng.slice_indices(s, n.t, st, None)
    a, b, stp = (tup.ty.get(tup.t, i) for i in range(3))
    pos = z3.And(stp > 0, a <= p.t, p.t < b, _UFMOD(p.t - a, stp) == 0)
    neg = z3.And(stp < 0, b < p.t, p.t <= a, _UFMOD(a - p.t, -stp) == 0)
    return SV(z3.And(0 <= p.t, p.t < n.t, z3.Or(pos, neg)), T.Bool)


def spec_step(eng, st, s):
    O = OI
    f = T.Slice.get(s.t, "step")
    return SV(z3.If(O.is_none(f), z3.IntVal(1), O.val(f)), T.Int)


normalize_slice = Contract(
    MODULE, "normalize_slice",
    params={"idx": T.Slice, "dim": T.Int},
    locals={"start": OI, "stop": OI, "step": OI},
    returns=T.Slice,
    requires=[("dim", "dim >= 0"), ("step-nonzero", "idx.step is None or idx.step != 0")],
    ensures=[
        ("C20-same-selection", "forall(lambda p: selects(result, dim, p) == selects(idx, dim, p))"),
        ("C20-same-direction", "step_of(result) == step_of(idx)"),
    ],
    note="math.isnan(dim) is False for integer dimensions (unknown chunk sizes are outside the contract); non-slice indices are returned unchanged (not in the contract)",
)

# ------------------------------------------------------------------------------------------------------------
# _slice_1d, positive step: which local slice each chunk gets.  Fragment (extracted mechanically): from
# `step = index.step or 1` to the end of the `if step > 0:` block's loop, then `return d`.  Dropped: the integer-index
# and full-slice fast paths before it, the negative-step block, and the two cosmetic statements after it (rewriting
# slice(0, length, 1) as slice(None, None, None), and the `x[:0]` special case) -- bounded natively.
import ast as _ast


def slice1d_positive(body):
    start = next(i for i, s_ in enumerate(body) if _ast.unparse(s_) == "step = index.step or 1")
    end = next(i for i, s_ in enumerate(body) if isinstance(s_, _ast.If) and _ast.unparse(s_.test) == "step > 0" and any(isinstance(x, _ast.For) for x in s_.body))
    frag = list(body[start:end + 1])
    r = _ast.Return(value=_ast.Name(id="d", ctx=_ast.Load()))
    _ast.copy_location(r, body[end])
    return frag + [_ast.fix_missing_locations(r)]


SI = T.Seq(T.Int)
_B = lambda j: f"(chunk_boundaries[({j}) - 1] if ({j}) > 0 else 0)"
# the entry of chunk j is exactly what the statement demands:  local start = first selected position at or after the chunk
# start, congruent to START modulo step (FIRST[j] == START + step * M[j]), local stop = where the chunk or the slice ends
_ENTRY = (f"d[j].start is not None and d[j].stop is not None and d[j].step is not None and d[j].step == step and d[j].start == FIRST[j] - {_B('j')}"
          f" and d[j].stop == (STOP - {_B('j')} if STOP - {_B('j')} < lengths[j] else lengths[j])")
_VISITED = ("forall(lambda j: implies(istart <= j and j < {hi}, "
            f"implies(STOP > {_B('j')}, FIRST[j] == START + step * M[j] and M[j] >= 0 and FIRST[j] >= {_B('j')} and (FIRST[j] - {_B('j')} < step or M[j] == 0))"
            f" and (j in d.keys()) == (STOP > {_B('j')} and FIRST[j] < {_B('j')} + lengths[j])"
            f" and implies(j in d.keys(), {_ENTRY})), Int)")

slice_1d_pos = Contract(
    MODULE, "_slice_1d[positive step]", source="_slice_1d",
    fragment=slice1d_positive,
    params={"dim_shape": T.Int, "lengths": SI, "index": T.Slice, "chunk_boundaries": SI},
    locals={"step": T.Int, "start": T.Int, "stop": T.Int, "d": T.Map(T.Int, T.Slice), "istart": T.Int, "istop": T.Int, "length": T.Int,
            "START": T.Int, "STOP": T.Int, "MM": T.Int, "S_": T.Int, "TOOK": T.Bool, "FIRST": T.Map(T.Int, T.Int), "M": T.Map(T.Int, T.Int)},
    returns=T.Map(T.Int, T.Slice),
    requires=[
        ("chunks", "len(lengths) >= 1 and all(lengths[q] >= 0 for q in range(len(lengths)))"),
        ("boundaries are the running sums of the chunk lengths (cached_cumsum: ASSUMED)",
         "len(chunk_boundaries) == len(lengths) and chunk_boundaries[0] == lengths[0] and all(chunk_boundaries[q] == chunk_boundaries[q - 1] + lengths[q] for q in range(1, len(lengths)))"
         " and forall(lambda a, b: implies(0 <= a and a <= b and b < len(lengths), chunk_boundaries[a] <= chunk_boundaries[b])) and chunk_boundaries[len(lengths) - 1] == dim_shape"),
        ("positive-step", "index.step is None or index.step >= 1"),
        ("normalised-bounds", "(index.start is None or (0 - dim_shape <= index.start and index.start <= dim_shape)) and (index.stop is None or (0 - dim_shape <= index.stop and index.stop <= dim_shape))"),
    ],
    ensures=[
        ("C20-only-chunks-that-hold-a-selected-position-get-an-entry, with exactly the local slice", _VISITED.format(hi="istop").replace("d[j]", "result[j]").replace("d.keys()", "result.keys()")),
        ("C20-no-entry-outside-the-visited-range", "forall(lambda j: implies(j in result.keys(), istart <= j and j < istop), Int)"),
        ("C20-chunks-before-the-range-end-before-START", "forall(lambda j: implies(0 <= j and j < istart, chunk_boundaries[j] <= START), Int)"),
        ("C20-chunks-after-the-range-begin-at-or-after-STOP", f"forall(lambda j: implies(istop <= j and j < len(lengths), {_B('j')} >= STOP), Int)"),
        ("range", "0 <= istart and istop <= len(lengths) and 0 <= START and START <= dim_shape and 0 <= STOP and STOP <= dim_shape"),
    ],
    loops={0: dict(index="i0", invariant=[
        ("stop-is-relative", f"stop == STOP - {_B('i0')}"),
        ("start-is-the-next-selected-position", f"implies(stop > 0, start >= 0 and {_B('i0')} + start == START + step * MM and MM >= 0 and (start < step or MM == 0))"),
        ("visited", _VISITED.format(hi="i0")),
        ("no-entry-outside", "forall(lambda j: implies(j in d.keys(), istart <= j and j < i0), Int)"),
        ("facts", "step >= 1 and 0 <= istart and istart <= i0 and istop <= len(lengths) and 0 <= START and START <= dim_shape and 0 <= STOP and STOP <= dim_shape"),
    ])},
    ghost=[
        ("before", "d = dict()", "START = start\nSTOP = stop\nMM = 0\nFIRST = {}\nM = {}"),
        ("after", "length = lengths[i]", "S_ = start\nTOOK = start < length and stop > 0\nFIRST[i] = " + _B("i") + " + start\nM[i] = MM"),
        ("before", "stop -=", "if TOOK:\n    lemma_divmod_any(S_ - length, step)\n    MM = MM - (S_ - length) // step"),
    ],
    note="per-chunk characterisation; that it amounts to `the union of the local selections is the global selection` is the paper argument: "
         "FIRST[j] is the least position START + k*step at or after the chunk start, so the chunk holds a selected position iff FIRST[j] lies in it and before STOP",
)

# ---- negative step: the same fragment with step <= -1 (the `else` block).  Positions are global until the entry is
# written relative to the END of its chunk.  LASTC[j] = the greatest selected candidate START + k*step below the end of chunk j.
_CS = _B  # chunk start
_NENTRY = (f"d[j].start is not None and d[j].stop is not None and d[j].step is not None and d[j].step == step and d[j].start == LASTC[j] - chunk_boundaries[j]"
           f" and d[j].stop == ({_CS('j')} - chunk_boundaries[j] - 1 if {_CS('j')} - chunk_boundaries[j] - 1 > STOP - chunk_boundaries[j] else STOP - chunk_boundaries[j])")
_NVISITED = ("forall(lambda j: implies({lo} < j and j <= istart, "
             "implies(LASTC[j] > STOP, LASTC[j] == START + step * M[j] and M[j] >= 0 and LASTC[j] < chunk_boundaries[j] and (LASTC[j] - step >= chunk_boundaries[j] or M[j] == 0))"
             f" and (j in d.keys()) == (LASTC[j] > STOP and {_CS('j')} <= LASTC[j])"
             f" and implies(j in d.keys(), {_NENTRY})), Int)")

slice_1d_neg = Contract(
    MODULE, "_slice_1d[negative step]", source="_slice_1d",
    fragment=slice1d_positive,
    params={"dim_shape": T.Int, "lengths": SI, "index": T.Slice, "chunk_boundaries": SI},
    locals={"step": T.Int, "start": T.Int, "stop": T.Int, "rstart": T.Int, "d": T.Map(T.Int, T.Slice), "istart": T.Int, "istop": T.Int,
            "chunk_start": T.Int, "chunk_stop": T.Int, "offset": T.Int,
            "START": T.Int, "STOP": T.Int, "MM": T.Int, "R_": T.Int, "TOOK": T.Bool, "LASTC": T.Map(T.Int, T.Int), "M": T.Map(T.Int, T.Int)},
    returns=T.Map(T.Int, T.Slice),
    requires=[
        ("chunks", "len(lengths) >= 1 and all(lengths[q] >= 0 for q in range(len(lengths))) and dim_shape >= 1"),
        ("boundaries are the running sums of the chunk lengths (cached_cumsum: ASSUMED)",
         "len(chunk_boundaries) == len(lengths) and chunk_boundaries[0] == lengths[0] and all(chunk_boundaries[q] == chunk_boundaries[q - 1] + lengths[q] for q in range(1, len(lengths)))"
         " and forall(lambda a, b: implies(0 <= a and a <= b and b < len(lengths), chunk_boundaries[a] <= chunk_boundaries[b])) and chunk_boundaries[len(lengths) - 1] == dim_shape"),
        ("negative-step", "index.step is not None and index.step <= 0 - 1"),
        ("normalised-bounds", "(index.start is None or 0 - dim_shape <= index.start) and (index.stop is None or (0 - dim_shape <= index.stop and index.stop <= dim_shape))"),
    ],
    ensures=[
        ("C20-only-chunks-that-hold-a-selected-position-get-an-entry, with exactly the local slice", _NVISITED.format(lo="istop").replace("d[j]", "result[j]").replace("d.keys()", "result.keys()")),
        ("C20-no-entry-outside-the-visited-range", "forall(lambda j: implies(j in result.keys(), istop < j and j <= istart), Int)"),
        ("C20-chunks-above-the-range-begin-above-START", f"forall(lambda j: implies(istart < j and j < len(lengths), {_CS('j')} > START), Int)"),
        ("C20-chunks-below-the-range-end-at-or-below-STOP", "forall(lambda j: implies(0 <= j and j <= istop, chunk_boundaries[j] - 1 <= STOP), Int)"),
        ("range", "0 - 1 <= istop and istart <= len(lengths) - 1 and 0 - 1 <= START and START <= dim_shape - 1 and 0 - 1 <= STOP and STOP <= dim_shape"),
    ],
    loops={1: dict(index="i0", invariant=[
        ("rstart-is-the-next-selected-position", "implies(rstart > STOP, rstart == START + step * MM and MM >= 0 and (i0 < 0 or rstart < chunk_boundaries[i0]) and (MM == 0 or i0 < 0 or rstart - step >= chunk_boundaries[i0]))"),
        ("visited", _NVISITED.format(lo="i0")),
        ("no-entry-outside", "forall(lambda j: implies(j in d.keys(), i0 < j and j <= istart), Int)"),
        ("facts", "step <= 0 - 1 and 0 - 1 <= istop and (istop <= i0 or istart <= istop) and i0 <= istart and istart <= len(lengths) - 1 and 0 - 1 <= START and START <= dim_shape - 1 and 0 - 1 <= STOP and STOP <= dim_shape and stop == STOP"),
    ])},
    ghost=[
        ("before", "d = dict()", "START = start\nSTOP = stop\nMM = 0\nLASTC = {}\nM = {}"),
        ("after", "chunk_stop = chunk_boundaries[i]", "R_ = rstart\nLASTC[i] = rstart\nM[i] = MM"),
        ("after", "rstart = chunk_start + offset", "lemma_divmod_negdiv(R_ - (chunk_start - 1), step)\nMM = MM - (R_ - (chunk_start - 1)) // step"),
    ],
    note="per-chunk characterisation for negative steps (the block repaired by fix 21a8b40); same paper argument as for positive steps, mirrored",
)

CONTRACTS = [normalize_slice, slice_1d_pos, slice_1d_neg]


def setup(eng):
    eng.spec_funcs["selects"] = spec_selects
    eng.spec_funcs["step_of"] = spec_step
    eng.funcs["math.isnan"] = FuncVal("math.isnan", "model", lambda e, st, node, want: SV(z3.BoolVal(False), T.Bool))
    eng.isinstance_static[("slice", "slice")] = True
    eng.uninterp_divmod = True
    from contracts.lemmas import LEMMA_FUNCS
    eng.funcs.update(LEMMA_FUNCS)
