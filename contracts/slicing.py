"""Contracts for dask/array/slicing.py kernels (C20)."""
import z3

from vf import ty as T
from vf.core import SV, FuncVal
from vf.engine import Contract
from vf.expr import _UFMOD

MODULE = "dask/array/slicing.py"
OI = T.Opt(T.Int)


def spec_selects(eng, st, s, n, p):
    """p is one of the positions range(n)[s] yields (defined from the model of slice.indices)."""
    tup = eng.slice_indices(s, n.t, st, None)
    a, b, stp = (tup.ty.get(tup.t, i) for i in range(3))
    pos = z3.And(stp > 0, a <= p.t, p.t < b, _UFMOD(p.t - a, stp) == 0)
    neg = z3.And(stp < 0, b < p.t, p.t <= a, _UFMOD(a - p.t, -stp) == 0)
    return SV(z3.And(0 <= p.t, p.t < n.t, z3.Or(pos, neg)), T.Bool)


def spec_step(eng, st, s):
    O = OI
    f = T.Slice.get(s.t, "step")
    return SV(z3.If(O.is_none(f), z3.IntVal(1), O.val(f)), T.Int)


normalize_slice = Contract(
    MODULE, "normalize_slice",
    params={"idx": T.Slice, "dim": T.Int},
    locals={"start": OI, "stop": OI, "step": OI},
    returns=T.Slice,
    requires=[("dim", "dim >= 0"), ("step-nonzero", "idx.step is None or idx.step != 0")],
    ensures=[
        ("C20-same-selection", "forall(lambda p: selects(result, dim, p) == selects(idx, dim, p))"),
        ("C20-same-direction", "step_of(result) == step_of(idx)"),
    ],
    note="math.isnan(dim) is False for integer dimensions (unknown chunk sizes are outside the contract); non-slice indices are returned unchanged (not in the contract)",
)

CONTRACTS = [normalize_slice]


def setup(eng):
    eng.spec_funcs["selects"] = spec_selects
    eng.spec_funcs["step_of"] = spec_step
    eng.funcs["math.isnan"] = FuncVal("math.isnan", "model", lambda e, st, node, want: SV(z3.BoolVal(False), T.Bool))
    eng.isinstance_static[("slice", "slice")] = True
    eng.uninterp_divmod = True
