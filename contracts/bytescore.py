"""Contract for the offset arithmetic of dask/bytes/core.py:read_bytes (C50) — a fragment, extracted mechanically."""
import ast

from vf import ty as T
from vf.engine import Contract
from contracts.lemmas import LEMMA_FUNCS

MODULE = "dask/bytes/core.py"
SI = T.Seq(T.Int)


def offsets_fragment(body):
    """The `else:` branch (size > 0) of the `if size is None / elif size == 0` chain inside the per-file loop of
    read_bytes, up to (not including) `offsets.append(off)`, followed by a synthesised `return (off, length)`."""
    target = None
    for node in ast.walk(ast.Module(body=body, type_ignores=[])):
        if isinstance(node, ast.If) and ast.unparse(node.test) == "size == 0":
            target = node.orelse
    assert target, "offset computation not found: contract no longer lines up"
    stmts = [s for s in target if not ast.unparse(s).startswith(("offsets.append", "lengths.append"))]
    r = ast.Return(value=ast.Tuple(elts=[ast.Name(id="off", ctx=ast.Load()), ast.Name(id="length", ctx=ast.Load())], ctx=ast.Load()))
    ast.copy_location(r, target[-1])
    return stmts + [ast.fix_missing_locations(r)]


def branch_fragment(take_float):
    """offsets_fragment with the `if size % blocksize and size > blocksize:` statement replaced by the branch that the
    precondition selects (mechanical; the condition itself is the precondition).  In the `else` branch every value is a
    Python int (blocksize1 = blocksize), in the `if` branch blocksize1 is a float."""
    def frag(body):
        out = []
        hit = 0
        for st in offsets_fragment(body):
            if isinstance(st, ast.If) and ast.unparse(st.test) == "size % blocksize and size > blocksize":
                hit += 1
                out.extend(st.body if take_float else st.orelse)
            else:
                out.append(st)
        assert hit == 1, "blocksize selection not found: contract no longer lines up"
        return out
    return frag


_ENS = [
    ("C50-one-length-per-offset", "len(result[0]) == len(result[1]) and len(result[0]) >= 1"),
    ("C50-blocks-tile-the-file", "all(result[0][i] + result[1][i] == result[0][i + 1] for i in range(len(result[0]) - 1)) and result[0][len(result[0]) - 1] + result[1][len(result[1]) - 1] == size"),
    ("C50-starts-at-the-beginning", "result[0][0] == (1 if not_zero else 0)"),
    ("C50-no-empty-block", "all(result[1][i] >= 1 for i in range(1, len(result[1]))) and result[1][0] >= (0 if not_zero else 1)"),
    ("C50-no-two-blocks-share-offset-and-length", "forall(lambda i, j: implies(0 <= i and i < j and j < len(result[0]), result[0][i] != result[0][j] or result[1][i] != result[1][j]))"),
]
_REQ = [("size", "1 <= size and size < 1099511627776"), ("blocksize", "1 <= blocksize and blocksize < 1099511627776")]

offsets_int = Contract(
    MODULE, "read_bytes[offsets, blocksize kept]", source="read_bytes",
    fragment=branch_fragment(False),
    params={"size": T.Int, "blocksize": T.Int, "not_zero": T.Bool},
    locals={"blocksize1": T.Int, "place": T.Int, "off": SI, "length": SI},
    returns=T.Tup(SI, SI),
    requires=_REQ + [("branch", "not (size % blocksize != 0 and size > blocksize)")],
    ensures=_ENS,
    loops={0: dict(decreases="size - place", invariant=[
        ("shape", "len(off) == len(length) + 1 and len(length) >= 0 and off[0] == 0"),
        ("tiling", "all(off[i] + length[i] == off[i + 1] for i in range(len(length)))"),
        ("positive", "all(length[i] >= 1 for i in range(len(length)))"),
        ("increasing", "forall(lambda i, j: implies(0 <= i and i < j and j < len(off), off[i] < off[j]))"),
        ("place", "place == off[len(off) - 1] and place >= 0 and place < size"),
        ("blocksize1", "blocksize1 == blocksize"),
    ])},
    note="all values are Python ints on this branch: exact integer arithmetic, termination included",
)

offsets_float = Contract(
    MODULE, "read_bytes[offsets, blocksize shrunk]", source="read_bytes",
    fragment=branch_fragment(True),
    params={"size": T.Int, "blocksize": T.Int, "not_zero": T.Bool},
    locals={"blocksize1": T.Real, "place": T.Real, "off": SI, "length": SI},
    returns=T.Tup(SI, SI),
    requires=_REQ + [("branch", "size % blocksize != 0 and size > blocksize")],
    ensures=_ENS,
    loops={0: dict(invariant=[
        ("shape", "len(off) == len(length) + 1 and len(length) >= 0 and off[0] == 0"),
        ("tiling", "all(off[i] + length[i] == off[i + 1] for i in range(len(length)))"),
        ("positive", "all(length[i] >= 1 for i in range(len(length)))"),
        ("increasing", "forall(lambda i, j: implies(0 <= i and i < j and j < len(off), off[i] < off[j]))"),
        ("place", "off[len(off) - 1] <= place and place < off[len(off) - 1] + 1 and place >= 0 and place < size"),
        ("blocksize1", "blocksize1 >= 2 and blocksize1 >= blocksize"),
    ])},
    ghost=[("entry", "", "lemma_divmod(size, blocksize)"),
           ("after", "blocksize1 = size / (size // blocksize)", "assert_(size // blocksize >= 1, 'quotient-positive')\nassert_(realdiv(size, size // blocksize) <= size, 'ratio-at-most-size')")],
    note="float accumulation under the rounding model; file sizes and block sizes below 2**40 (so every intermediate value is far below 2**53)",
)

CONTRACTS = [offsets_int, offsets_float]


def spec_is_integer(eng, st, x):
    import z3
    from vf.core import SV
    return SV(z3.IsInt(x.t) if x.ty == T.Real else z3.BoolVal(True), T.Bool)


def spec_realdiv(eng, st, a, b):
    import z3
    from vf.core import SV
    return SV(eng.coerce(a, T.Real).t / eng.coerce(b, T.Real).t, T.Real)


def setup(eng):
    eng.spec_funcs["realdiv"] = spec_realdiv
    eng.spec_funcs["is_integer"] = spec_is_integer
    eng.funcs.update(LEMMA_FUNCS)
    eng.uninterp_divmod = True
