"""Contract for dask/utils.py:format_bytes (C18)."""
import ast

import z3

from vf import ty as T
from vf.core import SV, fresh_name
from vf.engine import Contract

MODULE = "dask/utils.py"
Prefix = T.Enum("Prefix", ["", "ki", "Mi", "Gi", "Ti", "Pi"])
FB = T.Rec("FormattedBytes", {"shown": T.Real, "scale": T.Int, "unit": Prefix})
MULT = {"": 1, "ki": 2**10, "Mi": 2**20, "Gi": 2**30, "Ti": 2**40, "Pi": 2**50}


def fstring_model(eng, node, st, want):
    """ASSUMED model of the two f-strings of format_bytes:
    f"{x:.2f} {prefix}B": the number is printed as x rounded to 2 decimals (|shown - x| <= 0.005, 100*shown integral);
    f"{n} B": the integer itself."""
    vals = node.values
    if len(vals) == 4 and isinstance(vals[0], ast.FormattedValue) and vals[0].format_spec is not None and ast.unparse(vals[0].format_spec) == "f'.2f'" \
            and isinstance(vals[0].value, ast.BinOp) and isinstance(vals[0].value.op, ast.Div):
        x = eng.ev(vals[0].value, st)
        k = eng.ev(vals[0].value.right, st)
        pref = eng.ev(vals[2].value, st, Prefix)
        r = z3.Real(fresh_name("shown"))
        st.assume(z3.And(r - x.t <= z3.RealVal("0.005"), x.t - r <= z3.RealVal("0.005"), z3.IsInt(r * 100)))
        eng.used_models.add("f'{x:.2f}': |shown - x| <= 0.005 and 100*shown is an integer")
        return SV(FB.mk(shown=r, scale=k.t, unit=pref.t), FB)
    if len(vals) == 2 and isinstance(vals[0], ast.FormattedValue) and vals[0].format_spec is None and isinstance(vals[1], ast.Constant) and vals[1].value == " B":
        n = eng.ev(vals[0].value, st)
        return SV(FB.mk(shown=z3.ToReal(n.t), scale=z3.IntVal(1), unit=Prefix.const("")), FB)
    return None


def spec_strlen(eng, st, r):
    shown, unit = FB.get(r.t, "shown"), FB.get(r.t, "unit")
    digits = z3.If(shown < 10, 1, z3.If(shown < 100, 2, z3.If(shown < 1000, 3, z3.If(shown < 10000, 4, 5))))
    plain = unit == Prefix.const("")
    big = z3.If(shown < 10**15, 15, z3.If(shown < 10**18, 18, 19))
    digits_plain = z3.If(shown < 10, 1, z3.If(shown < 100, 2, z3.If(shown < 1000, 3, z3.If(shown < 10000, 4, big))))
    return SV(z3.If(plain, digits_plain + 2, digits + 3 + 1 + 3), T.Int)


def spec_multiplier(eng, st, r):
    unit = FB.get(r.t, "unit")
    e = z3.IntVal(1)
    for name, m in MULT.items():
        e = z3.If(unit == Prefix.const(name), z3.IntVal(m), e)
    return SV(e, T.Int)


format_bytes = Contract(
    MODULE, "format_bytes",
    params={"n": T.Int},
    locals={"prefix": Prefix, "k": T.Int},
    returns=FB,
    requires=[("range", "0 <= n and n < 1152921504606846976")],
    ensures=[
        ("C18-at-most-10-characters", "strlen(result) <= 10"),
        ("C18-printed-unit-has-the-printed-scale", "multiplier(result) == result.scale"),
        ("C18-parses-back-within-printed-precision", "result.shown * result.scale - n <= 0.005 * result.scale + n * 0.000000000000001 and n - result.shown * result.scale <= 0.005 * result.scale + n * 0.000000000000001"),
        ("C18-plain-bytes-are-exact", "implies(result.unit == '', result.shown == n)"),
    ],
    note="string results are modelled structurally (number shown, unit, scale); float arithmetic under the rounding model",
)

CONTRACTS = [format_bytes]


def setup(eng):
    eng.enums.append(Prefix)
    eng.fstring_model = fstring_model
    eng.spec_funcs["strlen"] = spec_strlen
    eng.spec_funcs["multiplier"] = spec_multiplier
