"""Contracts for dask/array/overlap.py (C26)."""
from vf import ty as T
from vf.engine import Contract
from contracts.lemmas import LEMMA_FUNCS

MODULE = "dask/array/overlap.py"

Depth = T.Union("Depth", {"int": T.Int, "pair": T.Tup(T.Int, T.Int)}, classes={"tuple": ["pair"], "Integral": ["int"]})
SSI = T.Seq(T.Seq(T.Int))

_LEFT = "(axes[i][0] if isinstance(axes[i], tuple) else axes[i])"

overlap_internal_chunks = Contract(
    MODULE, "_overlap_internal_chunks",
    params={"original_chunks": SSI, "axes": T.Map(T.Int, Depth)},
    locals={"chunks": SSI, "left": T.Seq(T.Int), "right": T.Seq(T.Int), "mid": T.Seq(T.Int), "depth": Depth, "left_depth": T.Int, "right_depth": T.Int},
    returns=SSI,
    requires=[("dims", "len(original_chunks) >= 0"), ("nonempty-axes", "all(len(original_chunks[a]) >= 1 for a in range(len(original_chunks)))")],
    ensures=[
        ("one-entry-per-axis", "len(result) == len(original_chunks)"),
        ("C26-same-number-of-blocks", "all(len(result[a]) == len(original_chunks[a]) for a in range(len(result)))"),
        ("C26-single-block-unchanged", "all(implies(len(original_chunks[a]) == 1, result[a][0] == original_chunks[a][0]) for a in range(len(result)))"),
        ("C26-first-block-grows-by-right-depth", "all(implies(len(original_chunks[a]) >= 2, result[a][0] == original_chunks[a][0] + rdepth(axes, a)) for a in range(len(result)))"),
        ("C26-last-block-grows-by-left-depth", "all(implies(len(original_chunks[a]) >= 2, result[a][len(result[a]) - 1] == original_chunks[a][len(original_chunks[a]) - 1] + ldepth(axes, a)) for a in range(len(result)))"),
        ("C26-interior-blocks-grow-by-both", "all(implies(1 <= j and j < len(original_chunks[a]) - 1, result[a][j] == original_chunks[a][j] + ldepth(axes, a) + rdepth(axes, a)) for a in range(len(result)) for j in range(len(original_chunks[a])))"),
    ],
    loops={
        0: dict(index="a0", invariant=[
            ("done", "len(chunks) == a0 and a0 >= 0"),
            ("prefix", "all(len(chunks[a]) == len(original_chunks[a]) for a in range(a0))"),
            ("single", "all(implies(len(original_chunks[a]) == 1, chunks[a][0] == original_chunks[a][0]) for a in range(a0))"),
            ("first", "all(implies(len(original_chunks[a]) >= 2, chunks[a][0] == original_chunks[a][0] + rdepth(axes, a)) for a in range(a0))"),
            ("last", "all(implies(len(original_chunks[a]) >= 2, chunks[a][len(chunks[a]) - 1] == original_chunks[a][len(original_chunks[a]) - 1] + ldepth(axes, a)) for a in range(a0))"),
            ("mid", "all(implies(1 <= j and j < len(original_chunks[a]) - 1, chunks[a][j] == original_chunks[a][j] + ldepth(axes, a) + rdepth(axes, a)) for a in range(a0) for j in range(len(original_chunks[a])))"),
        ]),
        1: dict(index="m0", seq="inner", invariant=[
            ("mid-len", "len(mid) == m0 and m0 >= 0"),
            ("mid-val", "all(mid[q] == inner[q] + left_depth + right_depth for q in range(m0))"),
        ]),
    },
)

import ast as _ast
import os as _os


def trim_chunks_fragment(body):
    """Fragment of trim_internal: the statements from `olist = []` to `chunks = tuple(olist)` (the chunk arithmetic),
    followed by a synthesised `return chunks`.  Dropped: coerce_boundary and the map_blocks call (NumPy level)."""
    start = next(i for i, s_ in enumerate(body) if _ast.unparse(s_) == "olist = []")
    end = next(i for i, s_ in enumerate(body) if _ast.unparse(s_) == "chunks = tuple(olist)")
    frag = list(body[start:end + 1])
    r = _ast.Return(value=_ast.Name(id="chunks", ctx=_ast.Load()))
    _ast.copy_location(r, body[end])
    frag.append(_ast.fix_missing_locations(r))
    return frag


ArrX = T.Rec("ArrayLike", {"chunks": SSI})
_TRIMMED = "(x.chunks[a][j] - (ldepth(axes, a) if j != 0 else 0) - (rdepth(axes, a) if j != len(x.chunks[a]) - 1 else 0))"
_TRIMMED_B = "(x.chunks[a][j] - ldepth(axes, a) - rdepth(axes, a))"

trim_chunks = Contract(
    MODULE, "trim_internal",
    fragment=trim_chunks_fragment,
    params={"x": ArrX, "axes": T.Map(T.Int, Depth), "boundary": T.Map(T.Int, T.Str)},
    locals={"olist": SSI, "ilist": T.Seq(T.Int), "chunks": SSI, "overlap": Depth, "d": T.Int},
    returns=SSI,
    requires=[("dims", "len(x.chunks) >= 0 and all(len(x.chunks[a]) >= 0 for a in range(len(x.chunks)))")],
    ensures=[
        ("shape", "len(result) == len(x.chunks) and all(len(result[a]) == len(x.chunks[a]) for a in range(len(result)))"),
        ("C26-trim-without-boundary-removes-exactly-the-shared-depths",
         f"all(implies(not has_boundary(boundary, a), result[a][j] == {_TRIMMED}) for a in range(len(result)) for j in range(len(x.chunks[a])))"),
        ("C26-trim-with-boundary-removes-both-depths-everywhere",
         f"all(implies(has_boundary(boundary, a), result[a][j] == {_TRIMMED_B}) for a in range(len(result)) for j in range(len(x.chunks[a])))"),
    ],
    loops={
        0: dict(index="a0", invariant=[
            ("done", "len(olist) == a0 and a0 >= 0"),
            ("lens", "all(len(olist[a]) == len(x.chunks[a]) for a in range(a0))"),
            ("none", f"all(implies(not has_boundary(boundary, a), olist[a][j] == {_TRIMMED}) for a in range(a0) for j in range(len(x.chunks[a])))"),
            ("bdy", f"all(implies(has_boundary(boundary, a), olist[a][j] == {_TRIMMED_B}) for a in range(a0) for j in range(len(x.chunks[a])))"),
        ]),
        1: dict(index="j0", invariant=[
            ("ilen", "len(ilist) == j0 and j0 >= 0"),
            ("inone", "implies(not has_boundary(boundary, i), all(ilist[j] == (x.chunks[i][j] - (ldepth(axes, i) if j != 0 else 0) - (rdepth(axes, i) if j != len(x.chunks[i]) - 1 else 0)) for j in range(j0)))"),
            ("ibdy", "implies(has_boundary(boundary, i), all(ilist[j] == x.chunks[i][j] - ldepth(axes, i) - rdepth(axes, i) for j in range(j0)))"),
        ]),
    },
    note="fragment of trim_internal (chunk arithmetic only)",
)

_LEMO = _os.path.join(_os.path.dirname(_os.path.dirname(_os.path.abspath(__file__))), "lemmas", "overlap_clients.py")

overlap_trim_identity = Contract(
    _LEMO, "client_overlap_then_trim_is_identity",
    params={"chunks": SSI, "axes": T.Map(T.Int, Depth), "boundary": T.Map(T.Int, T.Str), "x": ArrX},
    returns=SSI,
    requires=[("dims", "len(chunks) >= 0"), ("nonempty-axes", "all(len(chunks[a]) >= 1 for a in range(len(chunks)))"),
              ("no-boundary", "all(not has_boundary(boundary, a) for a in range(len(chunks)))")],
    ensures=[("C26-overlapping-then-trimming-the-chunks-is-the-identity",
              "len(result) == len(chunks) and all(len(result[a]) == len(chunks[a]) for a in range(len(chunks))) and all(result[a][j] == chunks[a][j] for a in range(len(chunks)) for j in range(len(chunks[a])))")],
    note="client program: calls the two real functions only through their contracts",
)

emc = Contract(
        MODULE,
        "ensure_minimum_chunksize",
        params={"size": T.Int, "chunks": T.Seq(T.Int)},
        locals={"output": T.Seq(T.Int), "new": T.Int},
        returns=T.Seq(T.Int),
        requires=[
            ("size-nonneg", "size >= 0"),
            ("nonempty", "len(chunks) >= 1"),
            ("chunks-nonneg", "all(chunks[i] >= 0 for i in range(len(chunks)))"),
        ],
        ensures=[
            ("sum-preserved", "sum(result) == sum(chunks)"),
            ("every-chunk-ge-size", "all(result[i] >= size for i in range(len(result)))"),
            ("nonempty", "len(result) >= 1"),
            ("fits", "sum(chunks) >= size"),
        ],
        raises=[("ValueError", "sum(chunks) < size", "too-small")],
        loops={
            0: dict(
                index="i",
                invariant=[
                    ("sum", "sum(output) + new == psum(chunks, i)"),
                    ("ge-size", "all(output[j] >= size for j in range(len(output)))"),
                    ("new-nonneg", "new >= 0"),
                    ("len", "len(output) >= 0"),
                ],
            )
        },
        ghost=[
            ("entry", "", "lemma_psum_lower(chunks, 0, 1, 0)\nlemma_psum_mono(chunks, 1, len(chunks))\nassert_(psum(chunks, 1) == psum(chunks, 0) + chunks[0], 'first')"),
            ("exit", "", "lemma_psum_mono(result, 1, len(result))\nassert_(psum(result, 1) == psum(result, 0) + result[0], 'first-r')"),
        ],
    )

rechunked = Contract(
    MODULE, "_get_overlap_rechunked_chunks",
    params={"x": ArrX, "depth2": T.Map(T.Int, Depth)},
    locals={"depths": T.Seq(T.Int)},
    returns=SSI,
    requires=[
        ("one-depth-per-axis (coerce_depth)", "forall(lambda a: (a in depth2.keys()) == (0 <= a and a < len(x.chunks))) and len(depth2) == len(x.chunks)"),
        ("depths-nonneg", "all(ldepth(depth2, a) >= 0 and rdepth(depth2, a) >= 0 for a in range(len(x.chunks)))"),
        ("axes-nonempty", "all(len(x.chunks[a]) >= 1 and all(x.chunks[a][j] >= 0 for j in range(len(x.chunks[a]))) for a in range(len(x.chunks)))"),
        ("depth-fits-the-axis", "all(sum(x.chunks[a]) >= ldepth(depth2, a) and sum(x.chunks[a]) >= rdepth(depth2, a) for a in range(len(x.chunks)))"),
    ],
    ensures=[
        ("one-entry-per-axis", "len(result) == len(x.chunks)"),
        ("C26-every-chunk-holds-both-depths", "all(result[a][j] >= ldepth(depth2, a) and result[a][j] >= rdepth(depth2, a) for a in range(len(result)) for j in range(len(result[a])))"),
        ("C26-rechunking-keeps-the-axis-length", "all(sum(result[a]) == sum(x.chunks[a]) for a in range(len(result)))"),
    ],
    note="caller of ensure_minimum_chunksize, checked against that function's contract; `depth2.values()` is modelled as the depths in axis order (what coerce_depth produces; bounded natively)",
)

def overlap_prepare_fragment(body):
    """Fragment of overlap(): from `depths = [...]` to the end of the `if allow_rechunk: ... else: ...` statement that
    fixes x1, followed by a synthesised `return x1`.  Dropped: coerce_depth/coerce_boundary before it and boundaries /
    overlap_internal / trim after it (NumPy level)."""
    start = next(i for i, s_ in enumerate(body) if _ast.unparse(s_).startswith("depths = ["))
    end = next(i for i, s_ in enumerate(body) if isinstance(s_, _ast.If) and _ast.unparse(s_.test) == "allow_rechunk")
    r = _ast.Return(value=_ast.Name(id="x1", ctx=_ast.Load()))
    _ast.copy_location(r, body[end])
    return list(body[start:end + 1]) + [_ast.fix_missing_locations(r)]


_MAXD = "(ldepth(depth2, a) if ldepth(depth2, a) >= rdepth(depth2, a) else rdepth(depth2, a))"

overlap_prepare = Contract(
    MODULE, "overlap[chunks fit the depth]", source="overlap",
    fragment=overlap_prepare_fragment,
    params={"x": ArrX, "depth2": T.Map(T.Int, Depth), "allow_rechunk": T.Bool},
    locals={"depths": T.Seq(T.Int), "x1": ArrX, "original_chunks_too_small": T.Bool},
    returns=ArrX,
    requires=[
        ("one-depth-per-axis (coerce_depth)", "forall(lambda a: (a in depth2.keys()) == (0 <= a and a < len(x.chunks))) and len(depth2) == len(x.chunks)"),
        ("depths-nonneg", "all(ldepth(depth2, a) >= 0 and rdepth(depth2, a) >= 0 for a in range(len(x.chunks)))"),
        ("axes-nonempty", "all(len(x.chunks[a]) >= 1 and all(x.chunks[a][j] >= 0 for j in range(len(x.chunks[a]))) for a in range(len(x.chunks)))"),
        ("depth-fits-the-axis", "all(sum(x.chunks[a]) >= ldepth(depth2, a) and sum(x.chunks[a]) >= rdepth(depth2, a) for a in range(len(x.chunks)))"),
    ],
    ensures=[
        ("C26-every-block-can-lend-its-neighbours-the-full-depth", "len(result.chunks) == len(x.chunks) and all(result.chunks[a][j] >= ldepth(depth2, a) and result.chunks[a][j] >= rdepth(depth2, a) for a in range(len(result.chunks)) for j in range(len(result.chunks[a])))"),
        ("C26-axis-lengths-kept", "all(sum(result.chunks[a]) == sum(x.chunks[a]) for a in range(len(result.chunks)))"),
        ("C26-without-rechunk-the-array-is-untouched", "implies(not allow_rechunk, same(result, x))"),
    ],
    raises=[("ValueError", f"not allow_rechunk and exists(lambda a, j: 0 <= a and a < len(x.chunks) and 0 <= j and j < len(x.chunks[a]) and x.chunks[a][j] < {_MAXD}, Int, Int)", "chunks-smaller-than-depth")],
    ghost=[("after", "depths = [", f"assert_(len(depths) == len(x.chunks), 'one-depth-per-axis')\nassert_(forall(lambda a: implies(0 <= a and a < len(depths), depths[a] >= ldepth(depth2, a) and depths[a] >= rdepth(depth2, a) and (depths[a] == ldepth(depth2, a) or depths[a] == rdepth(depth2, a)))), 'depths-hold-the-larger-side-of-each-axis')")],
    note="ASSUMED: x.rechunk(c) yields an array whose chunks are c (that is C23); depth2.values() are the depths in axis order (coerce_depth)",
)

CONTRACTS = [overlap_internal_chunks, trim_chunks, overlap_trim_identity, emc, rechunked, overlap_prepare]


def spec_ldepth(eng, st, axes, a):
    import z3
    from vf.core import SV
    mt = axes.ty
    d = z3.If(z3.Select(mt.dom(axes.t), a.t), z3.Select(mt.valarr(axes.t), a.t), Depth.inj("int", z3.IntVal(0)))
    pair = Depth.proj("pair", d)
    return SV(z3.If(Depth.is_("pair", d), T.Tup(T.Int, T.Int).get(pair, 0), Depth.proj("int", d)), T.Int)


def spec_rdepth(eng, st, axes, a):
    import z3
    from vf.core import SV
    mt = axes.ty
    d = z3.If(z3.Select(mt.dom(axes.t), a.t), z3.Select(mt.valarr(axes.t), a.t), Depth.inj("int", z3.IntVal(0)))
    pair = Depth.proj("pair", d)
    return SV(z3.If(Depth.is_("pair", d), T.Tup(T.Int, T.Int).get(pair, 1), Depth.proj("int", d)), T.Int)


def spec_has_boundary(eng, st, boundary, a):
    import z3
    from vf.core import SV
    mt = boundary.ty
    return SV(z3.And(z3.Select(mt.dom(boundary.t), a.t), z3.Select(mt.valarr(boundary.t), a.t) != z3.StringVal("none")), T.Bool)


def model_depth_values(eng, st, base, node, lv):
    """depth2.values() for the dict coerce_depth returns ({axis: depth} for axis 0..ndim-1, in axis order): the depths as
    a sequence indexed by axis."""
    import z3
    from vf.core import SV, fresh
    mt = base.ty
    sty = T.Seq(Depth)
    v = fresh(sty, "depthvals")
    a = z3.Int("a!dv")
    n = sty.len(v.t)
    st.assume(n >= 0)
    st.assume(n == eng.card(st, SV(mt.dom(base.t), T.Set(T.Int))).t)  # one value per key
    st.assume(z3.ForAll([a], z3.And(0 <= a, a < n) == z3.Select(mt.dom(base.t), a)))
    st.assume(z3.Implies(n > 0, z3.Select(mt.dom(base.t), n - 1)))
    st.assume(z3.Not(z3.Select(mt.dom(base.t), n)))
    st.assume(z3.Implies(z3.Select(mt.dom(base.t), 0), n > 0))
    st.assume(z3.ForAll([a], z3.Implies(z3.And(0 <= a, a < sty.len(v.t)), z3.Select(sty.arr(v.t), a) == z3.Select(mt.valarr(base.t), a))))
    return v


def model_rechunk_method(eng, st, base, node, lv):
    """x.rechunk(chunks): ASSUMED to return an array with exactly the requested chunks (C23)."""
    from vf.core import SV
    c = eng.ev(node.args[0], st)
    if c.ty != SSI:
        from vf.core import Unsupported
        raise Unsupported(f"x.rechunk({c.ty})")
    eng.used_models.add("Array.rechunk: ASSUMED to yield the requested chunks (C23)")
    return SV(ArrX.mk(chunks=c.t), ArrX)


def setup(eng):
    from vf.core import FuncVal
    eng.attr_models[("method", "ArrayLike", "rechunk")] = model_rechunk_method
    eng.funcs["_get_overlap_rechunked_chunks"] = FuncVal("_get_overlap_rechunked_chunks", "contract", rechunked)
    eng.spec_funcs["has_boundary"] = spec_has_boundary
    eng.funcs["_overlap_internal_chunks"] = FuncVal("_overlap_internal_chunks", "contract", overlap_internal_chunks)
    eng.funcs["trim_chunks"] = FuncVal("trim_chunks", "contract", trim_chunks)
    eng.mutable_records.add("ArrayLike")
    eng.spec_funcs["ldepth"] = spec_ldepth
    eng.spec_funcs["rdepth"] = spec_rdepth
    eng.funcs.update(LEMMA_FUNCS)
    eng.funcs["ensure_minimum_chunksize"] = FuncVal("ensure_minimum_chunksize", "contract", emc)
    eng.attr_models[("method", T.Map(T.Int, Depth).name, "values")] = model_depth_values
