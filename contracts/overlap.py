"""Contracts for dask/array/overlap.py (C26)."""
from vf import ty as T
from vf.engine import Contract
from contracts.lemmas import LEMMA_FUNCS

MODULE = "dask/array/overlap.py"

CONTRACTS = [
    Contract(
        MODULE,
        "ensure_minimum_chunksize",
        params={"size": T.Int, "chunks": T.Seq(T.Int)},
        locals={"output": T.Seq(T.Int), "new": T.Int},
        returns=T.Seq(T.Int),
        requires=[
            ("size-pos", "size >= 1"),
            ("nonempty", "len(chunks) >= 1"),
            ("chunks-nonneg", "all(chunks[i] >= 0 for i in range(len(chunks)))"),
        ],
        ensures=[
            ("sum-preserved", "sum(result) == sum(chunks)"),
            ("every-chunk-ge-size", "all(result[i] >= size for i in range(len(result)))"),
            ("nonempty", "len(result) >= 1"),
            ("fits", "sum(chunks) >= size"),
        ],
        raises=[("ValueError", "sum(chunks) < size", "too-small")],
        loops={
            0: dict(
                index="i",
                invariant=[
                    ("sum", "sum(output) + new == psum(chunks, i)"),
                    ("ge-size", "all(output[j] >= size for j in range(len(output)))"),
                    ("new-nonneg", "new >= 0"),
                    ("len", "len(output) >= 0"),
                ],
            )
        },
        ghost=[
            ("entry", "", "lemma_psum_lower(chunks, 0, 1, 0)\nlemma_psum_mono(chunks, 1, len(chunks))\nassert_(psum(chunks, 1) == psum(chunks, 0) + chunks[0], 'first')"),
            ("exit", "", "lemma_psum_mono(result, 1, len(result))\nassert_(psum(result, 1) == psum(result, 0) + result[0], 'first-r')"),
        ],
    )
]


def setup(eng):
    eng.funcs.update(LEMMA_FUNCS)
