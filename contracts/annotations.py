"""Contract for dask/blockwise.py:_fuse_annotations (C10, annotation clause).

An annotations dict is modelled as a record over the five keys the function gives a meaning to
(`retries`, `priority`, `resources`, `workers`, `allow_other_workers`), each optional; other keys are merged
verbatim by toolz.merge and are not constrained by the property.  toolz.merge / toolz.merge_with /
set.intersection are external: ASSUMED models stated below (bounded natively).
"""
import ast

import z3

from vf import ty as T
from vf.core import SV, FuncVal, Unsupported, fresh, fresh_name
from vf.engine import Contract

MODULE = "dask/blockwise.py"
W = T.U("Worker")
Res = T.Map(T.Str, T.Int)
Ann = T.Rec("Annotations", {"retries": T.Opt(T.Int), "priority": T.Opt(T.Int), "resources": T.Opt(Res),
                            "workers": T.Opt(T.Seq(W)), "allow_other_workers": T.Opt(T.Bool)})
Anns = T.Seq(Ann)
FIELDS = list(Ann.fields)


def _some(f):
    return f"exists(lambda i: 0 <= i and i < len(args) and args[i].{f} is not None)"


def _maxrule(f):
    return (f"implies({_some(f)}, result.{f} is not None"
            f" and forall(lambda i: implies(0 <= i and i < len(args) and args[i].{f} is not None, result.{f} >= args[i].{f}))"
            f" and exists(lambda i: 0 <= i and i < len(args) and args[i].{f} is not None and result.{f} == args[i].{f}))")


fuse = Contract(
    MODULE, "_fuse_annotations",
    params={"args": Anns},
    locals={"annotations": Ann, "retries": T.Seq(T.Int), "priorities": T.Seq(T.Int), "resources": T.Seq(Res),
            "workers": T.Seq(T.Seq(W)), "allow_other_workers": T.Seq(T.Bool)},
    returns=Ann,
    requires=[("some-layers", "len(args) >= 0")],
    ensures=[
        ("C10-retries-take-the-maximum", _maxrule("retries")),
        ("C10-priority-takes-the-maximum", _maxrule("priority")),
        ("C10-resources-take-the-per-resource-maximum",
         f"implies({_some('resources')}, result.resources is not None"
         " and forall(lambda i, k: implies(0 <= i and i < len(args) and args[i].resources is not None and k in args[i].resources.keys(),"
         " k in result.resources.keys() and result.resources[k] >= args[i].resources[k]), Int, Str)"
         " and forall(lambda k: implies(k in result.resources.keys(), exists(lambda i: 0 <= i and i < len(args) and args[i].resources is not None"
         " and k in args[i].resources.keys() and result.resources[k] == args[i].resources[k])), Str))"),
        ("C10-workers-set-when-some-layer-restricts-them", f"implies({_some('workers')}, result.workers is not None)"),
        ("C10-workers-never-loosened (every fused worker is allowed by every layer that restricts workers)",
         "forall(lambda w, i: implies(result.workers is not None and w in result.workers and 0 <= i and i < len(args) and args[i].workers is not None, w in args[i].workers), Worker, Int)"),
        ("C10-workers-are-the-whole-intersection",
         f"implies({_some('workers')}, forall(lambda w: implies(forall(lambda i: implies(0 <= i and i < len(args) and args[i].workers is not None, w in args[i].workers)), w in result.workers), Worker))"),
        ("C10-allow_other_workers-is-the-conjunction",
         f"implies({_some('allow_other_workers')}, result.allow_other_workers is not None"
         " and result.allow_other_workers == forall(lambda i: implies(0 <= i and i < len(args) and args[i].allow_other_workers is not None, args[i].allow_other_workers)))"),
    ] + [(f"C10-{f}-stays-unset-when-no-layer-sets-it", f"implies(not {_some(f)}, result.{f} is None)") for f in FIELDS],
    note="ASSUMED models of toolz.merge (a key is present iff some input has it, its value comes from one of them), "
         "toolz.merge_with(max, ...) (per-key maximum over the inputs defining the key) and set.intersection(*sets)",
)

CONTRACTS = [fuse]


def _starred_seq(eng, st, node):
    if len(node.args) != 1 or not isinstance(node.args[0], ast.Starred):
        raise Unsupported("toolz call without a single *sequence argument")
    return eng.ev(node.args[0].value, st)


def model_merge(eng, st, node, want):
    """toolz.merge(*dicts) restricted to the five keys: present iff present in some input; the value is some input's."""
    xs = _starred_seq(eng, st, node)
    m = fresh(Ann, "merged")
    n, arr = Anns.len(xs.t), Anns.arr(xs.t)
    for f, fty in Ann.fields.items():
        i = z3.Int(fresh_name("i"))
        fld = lambda t: Ann.get(t, f)
        some_in = z3.Exists([i], z3.And(0 <= i, i < n, fty.is_some(fld(arr[i]))))
        st.assume(fty.is_some(fld(m.t)) == some_in)
        st.assume(z3.Implies(fty.is_some(fld(m.t)), z3.Exists([i], z3.And(0 <= i, i < n, fld(arr[i]) == fld(m.t)))))
    eng.used_models.add("toolz.merge: ASSUMED (key present iff present in some input; value taken from an input)")
    return m


def model_merge_with(eng, st, node, want):
    """toolz.merge_with(max, *maps): keys = union of the inputs' keys, value = maximum over the inputs defining the key."""
    if len(node.args) != 2 or not (isinstance(node.args[0], ast.Name) and node.args[0].id == "max") or not isinstance(node.args[1], ast.Starred):
        raise Unsupported("toolz.merge_with: only merge_with(max, *maps) is modelled")
    xs = eng.ev(node.args[1].value, st)
    sty = xs.ty
    r = fresh(Res, "merged_max")
    n, arr = sty.len(xs.t), sty.arr(xs.t)
    j = z3.Int(fresh_name("j"))
    k = z3.Const(fresh_name("k"), T.Str.sort())
    dom, val = Res.dom(r.t), Res.valarr(r.t)
    st.assume(z3.ForAll([j, k], z3.Implies(z3.And(0 <= j, j < n, z3.Select(Res.dom(arr[j]), k)),
                                           z3.And(z3.Select(dom, k), z3.Select(val, k) >= z3.Select(Res.valarr(arr[j]), k)))))
    src = z3.Function(fresh_name("src"), T.Str.sort(), z3.IntSort())
    st.assume(z3.ForAll([k], z3.Implies(z3.Select(dom, k), z3.And(0 <= src(k), src(k) < n, z3.Select(Res.dom(arr[src(k)]), k),
                                                                  z3.Select(val, k) == z3.Select(Res.valarr(arr[src(k)]), k)))))
    eng.used_models.add("toolz.merge_with(max, *maps): ASSUMED (union of keys, per-key maximum)")
    return r


def model_set_intersection(eng, st, node, want):
    """set.intersection(*sets) for a non-empty list of sets."""
    xs = _starred_seq(eng, st, node)
    sty = xs.ty
    if not (isinstance(sty, T.Seq) and isinstance(sty.elem, T.Set)):
        raise Unsupported(f"set.intersection(*{sty})")
    n, arr = sty.len(xs.t), sty.arr(xs.t)
    eng.check(st, n >= 1, "TypeError(set.intersection needs an argument)", node)
    x = z3.Const(fresh_name("x"), sty.elem.elem.sort())
    j = z3.Int(fresh_name("j"))
    r = fresh(sty.elem, "intersection")
    st.assume(z3.ForAll([x], z3.Select(r.t, x) == z3.ForAll([j], z3.Implies(z3.And(0 <= j, j < n), z3.Select(arr[j], x)))))
    return r


def setup(eng):
    eng.dict_records.add("Annotations")
    eng.mutable_records.add("Annotations")
    eng.spec_types["Worker"] = W
    eng.funcs["toolz.merge"] = FuncVal("toolz.merge", "model", model_merge)
    eng.funcs["toolz.merge_with"] = FuncVal("toolz.merge_with", "model", model_merge_with)
    eng.funcs["set.intersection"] = FuncVal("set.intersection", "model", model_set_intersection)
