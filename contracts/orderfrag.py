"""Contract for the normalisation loop of dask/order.py:order (C06) -- a fragment, extracted mechanically: from
`all_tasks = False` to the end of the `while not all_tasks:` loop, followed by a synthesised `return result`.

Only the clause about the priorities handed to the stripped alias leaves is stated (the subject of fix bc4654f):
pairwise distinct, at the top of the range, and given to keys that are then removed from the graph.  Exception
freedom of the fragment is NOT checked (`exceptions_not_checked`): the dependency view `DependenciesMapping` is
modelled as a plain map, which is precise enough for the stated clause only.  Everything else about order() is bounded.
"""
import ast

import z3

from vf import ty as T
from vf.core import SV, FuncVal
from vf.engine import Contract

MODULE = "dask/order.py"
Key = T.U("Key")
Node = T.U("Node")
SetK = T.Set(Key)
Graph = T.Map(Key, Node)
Deps = T.Map(Key, SetK)
Prio = T.Map(Key, T.Int)


def normalisation(body):
    start = next(i for i, s_ in enumerate(body) if ast.unparse(s_) == "all_tasks = False")
    end = next(i for i, s_ in enumerate(body) if isinstance(s_, ast.While) and ast.unparse(s_.test) == "not all_tasks")
    r = ast.Return(value=ast.Name(id="result", ctx=ast.Load()))
    ast.copy_location(r, body[end])
    return list(body[start:end + 1]) + [ast.fix_missing_locations(r)]


_P = [
    ("C06-leaf-priorities-lie-at-the-top-of-the-range", "forall(lambda k: implies(k in result.keys(), expected_len - n_removed_leaves <= result[k] and result[k] < expected_len), Key) and n_removed_leaves >= 0"),
    ("C06-leaf-priorities-are-pairwise-distinct", "forall(lambda k1, k2: implies(k1 in result.keys() and k2 in result.keys() and k1 != k2, result[k1] != result[k2]), Key, Key)"),
    ("C06-numbered-leaves-have-left-the-graph", "forall(lambda k: implies(k in result.keys(), k not in dsk.keys()), Key)"),
]

order_norm = Contract(
    MODULE, "order[alias-leaf priorities]", source="order",
    fragment=normalisation,
    params={"dsk": Graph, "dependencies": Deps, "dependents": Deps, "leaf_nodes": SetK, "root_nodes": SetK, "result": Prio, "expected_len": T.Int, "return_stats": T.Bool},
    locals={"all_tasks": T.Bool, "n_removed_leaves": T.Int, "requires_data_task": Deps, "prio": T.Int, "deps_root": SetK},
    returns=Prio,
    exceptions_not_checked=True,
    requires=[("nothing-numbered-yet", "forall(lambda k: k not in result.keys(), Key)"), ("plain-priorities", "not return_stats")],
    ensures=[(l, c.replace("result.keys()", "result.keys()")) for l, c in _P],
    loops={
        0: dict(invariant=_P),
        1: dict(done="DL", invariant=_P),
        2: dict(done="DD", invariant=_P[:2] + [("C06-numbered-leaves-have-left-the-graph (the current one is about to)", "forall(lambda k: implies(k in result.keys() and k != leaf, k not in dsk.keys()), Key)"),
                                                ("this-leaf", "leaf in result.keys()")]),
        3: dict(done="DR", invariant=_P),
        4: dict(done="DQ", invariant=_P),
    },
    note="normal runs only (exception freedom not checked); dependency view modelled as a plain map",
)

CONTRACTS = [order_norm]


def setup(eng):
    eng.spec_types["Key"] = Key
    eng.funcs["istask"] = FuncVal("istask", "uf", (z3.Function("istask", Node.sort(), z3.BoolSort()), T.Bool, [Node]))
    eng.funcs["defaultdict"] = FuncVal("defaultdict", "model", lambda e, st, node, want: e.bi_dict(__import__("ast").Call(func=__import__("ast").Name(id="dict", ctx=__import__("ast").Load()), args=[], keywords=[]), st, want))
    eng.defaultdicts = {("requires_data_task", ())}
