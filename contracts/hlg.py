"""Contracts for dask/highlevelgraph.py (C10, culling clause): Layer.cull, legacy-task branch.

A layer is a mapping key -> task: modelled as Map(Key, Node); its attributes used here are models
(`has_legacy_tasks`: the precondition selects the branch; `get_dependencies(k, all)` = keys_in_tasks(all, [self[k]]):
an uninterpreted function of the task and the key universe; MaterializedLayer(mapping, annotations=...) wraps the mapping).
"""
import ast

import z3

from vf import ty as T
from vf.core import SV, FuncVal, Unsupported, fresh
from vf.engine import Contract

MODULE = "dask/highlevelgraph.py"
Key = T.U("Key")
Node = T.U("Node")
SetK = T.Set(Key)
Layer = T.Map(Key, Node)
DepsMap = T.Map(Key, SetK)
kdeps = z3.Function("keys_in_task", Node.sort(), SetK.sort(), SetK.sort())


def legacy_branch(body):
    """Body of Layer.cull with `if self.has_legacy_tasks:` replaced by its `if` branch (the precondition selects it)."""
    out = []
    hit = 0
    for st in body:
        if isinstance(st, ast.If) and ast.unparse(st.test) == "self.has_legacy_tasks":
            hit += 1
            out.extend(st.body)
        else:
            out.append(st)
    assert hit == 1, "legacy branch of Layer.cull not found: contract no longer lines up"
    return out


_RES_L, _RES_D = "result[0]", "result[1]"
layer_cull = Contract(
    MODULE, "Layer.cull[legacy tasks]", source="Layer.cull",
    fragment=legacy_branch,
    params={"self": Layer, "keys": SetK, "all_hlg_keys": SetK},
    locals={"ret_deps": DepsMap, "seen": SetK, "out": Layer, "work": SetK, "k": Key},
    returns=T.Tup(Layer, DepsMap),
    immutable=["keys", "self"],
    ensures=[
        ("C10-culled-layer-is-a-part-of-the-layer", f"forall(lambda k: implies(k in {_RES_L}.keys(), k in self.keys() and {_RES_L}[k] == self[k]), Key)"),
        ("C10-requested-keys-of-this-layer-are-kept", f"forall(lambda k: implies(k in keys and k in self.keys(), k in {_RES_L}.keys()), Key)"),
        ("C10-reported-dependencies-are-those-of-the-kept-tasks", f"{_RES_D}.keys() == {_RES_L}.keys() and forall(lambda k: implies(k in {_RES_L}.keys(), {_RES_D}[k] == keys_in_task(self[k], all_hlg_keys)), Key)"),
        ("C10-nothing-needed-inside-the-layer-is-dropped", f"forall(lambda k, d: implies(k in {_RES_L}.keys() and d in {_RES_D}[k] and d in self.keys(), d in {_RES_L}.keys()), Key, Key)"),
    ],
    loops={
        0: dict(invariant=[
            ("kept-so-far", "out.keys() == ret_deps.keys() and forall(lambda k: implies(k in out.keys(), k in self.keys() and out[k] == self[k] and ret_deps[k] == keys_in_task(self[k], all_hlg_keys)), Key)"),
            ("requested-pending", "forall(lambda k: implies(k in keys and k in self.keys(), k in out.keys() or k in work), Key)"),
            ("seen-pending", "forall(lambda d: implies(d in seen, d in self.keys() and (d in out.keys() or d in work)), Key)"),
            ("dependencies-seen", "forall(lambda k, d: implies(k in out.keys() and d in ret_deps[k] and d in self.keys(), d in seen or d in out.keys()), Key, Key)"),
        ]),
        1: dict(done="DD", invariant=[
            ("kept-so-far", "out.keys() == ret_deps.keys() and forall(lambda k2: implies(k2 in out.keys(), k2 in self.keys() and out[k2] == self[k2] and ret_deps[k2] == keys_in_task(self[k2], all_hlg_keys)), Key)"),
            ("requested-pending", "forall(lambda k2: implies(k2 in keys and k2 in self.keys(), k2 in out.keys() or k2 in work), Key)"),
            ("seen-pending", "forall(lambda d: implies(d in seen, d in self.keys() and (d in out.keys() or d in work)), Key)"),
            ("dependencies-seen", "forall(lambda k2, d: implies(k2 in out.keys() and k2 != k and d in ret_deps[k2] and d in self.keys(), d in seen or d in out.keys()), Key, Key)"),
            ("this-key", "k in out.keys() and forall(lambda d: implies(d in DD and d in self.keys(), d in seen or d in out.keys()), Key)"),
        ]),
    },
    note="work-list closure inside one layer; the `len(keys) == len(self)` shortcut returns the whole layer (every clause holds for it too)",
)

# ------------------------------------------------------------------------------------------------------------
# HighLevelGraph.cull: walks the layers dependents-first, culls each one to the keys still wanted, and adds that
# layer's dependencies to the wanted set.  Checked against the contracts of Layer.cull (above; taken for every layer
# class) and of _toposort_layers (below).
LName = T.U("LayerName")
SetL = T.Set(LName)
Layers = T.Map(LName, Layer)
LDeps = T.Map(LName, SetL)
HLG = T.Rec("HLG", {"layers": Layers, "dependencies": LDeps})
Tok = T.U("Token")
newname = z3.Function("new_layer_name", LName.sort(), Tok.sort(), LName.sort())
lof = z3.Function("layer_of_key", Key.sort(), LName.sort())

toposort_layers = Contract(
    MODULE, "HighLevelGraph._toposort_layers", assumed=True,
    params={"self": HLG}, returns=T.Seq(LName),
    ensures=[
        ("every-layer-once", "distinct(result) and forall(lambda i: implies(0 <= i and i < len(result), result[i] in self.layers.keys())) and forall(lambda n: implies(n in self.layers.keys(), exists(lambda i: 0 <= i and i < len(result) and result[i] == n)), LayerName)"),
        ("dependencies-first", "forall(lambda i, j: implies(0 <= i and i < len(result) and 0 <= j and j < len(result) and result[j] in self.dependencies[result[i]], j < i))"),
    ],
    note="ASSUMED here (a Kahn-style sort over self.dependencies; bounded natively, see seed C10-A)",
)

_DEFINED = "(layer_of_key({d}) in self.layers.keys() and {d} in self.layers[layer_of_key({d})].keys())"
_KEPT = "(renamed(layer_of_key({d}), tok) in ret_layers.keys() and {d} in ret_layers[renamed(layer_of_key({d}), tok)].keys())"
_DONE = "exists(lambda i: 0 <= i and i < t and RORDER[i] == {n})"   # layer n was already walked
_DEPS = "keys_in_task(self.layers[{n}][{k}], all_ext_keys)"

hlg_cull = Contract(
    MODULE, "HighLevelGraph.cull",
    params={"self": HLG, "keys": SetK, "all_ext_keys": SetK},
    locals={"keys_set": SetK, "ret_layers": Layers, "layer_dependencies": LDeps, "tok": Tok, "layer_name": LName, "new_layer_name": LName,
            "layer": Layer, "culled_layer": Layer, "culled_deps": DepsMap, "ret_layers_keys": SetL, "ret_dependencies": LDeps,
            "KS0": SetK, "SELF0": HLG, "KEYS0": SetK, "ALL0": SetK},
    returns=HLG,
    immutable=["keys"],
    requires=[
        ("each-key-lives-in-one-layer", "forall(lambda n, k: implies(n in self.layers.keys() and k in self.layers[n].keys(), layer_of_key(k) == n), LayerName, Key)"),
        ("layer-dependencies-cover-the-key-dependencies (a valid high-level graph)",
         "forall(lambda n, k, d: implies(n in self.layers.keys() and k in self.layers[n].keys() and d in " + _DEPS.format(n="n", k="k") + " and " + _DEFINED.format(d="d") +
         ", layer_of_key(d) == n or (n in self.dependencies.keys() and layer_of_key(d) in self.dependencies[n])), LayerName, Key, Key)"),
        ("dependencies-known-for-every-layer", "forall(lambda n: implies(n in self.layers.keys(), n in self.dependencies.keys()), LayerName)"),
        ("new-names-distinct", "forall(lambda n, m, tk: implies(n != m, renamed(n, tk) != renamed(m, tk)), LayerName, LayerName, Token)"),
    ],
    ensures=[
        ("C10-kept-tasks-are-the-original-tasks",
         "forall(lambda n, k: implies(n in self.layers.keys() and renamed(n, tok) in result.layers.keys() and k in result.layers[renamed(n, tok)].keys(), k in self.layers[n].keys() and result.layers[renamed(n, tok)][k] == self.layers[n][k]), LayerName, Key)"),
        ("C10-every-requested-key-of-the-graph-is-kept",
         "forall(lambda k: implies(k in keys and " + _DEFINED.format(d="k") + ", " + _KEPT.format(d="k").replace("ret_layers", "result.layers") + "), Key)"),
        ("C10-everything-a-kept-task-needs-is-kept",
         "forall(lambda k, d: implies(" + _KEPT.format(d="k").replace("ret_layers", "result.layers") + " and " + _DEFINED.format(d="k") + " and d in " + _DEPS.format(n="layer_of_key(k)", k="k") + " and " + _DEFINED.format(d="d") + ", "
         + _KEPT.format(d="d").replace("ret_layers", "result.layers") + "), Key, Key)"),
    ],
    loops={
        0: dict(index="t", seq="RORDER", invariant=[
            ("walk-order: every layer once, dependents before their dependencies",
             "distinct(RORDER) and forall(lambda i: implies(0 <= i and i < len(RORDER), RORDER[i] in self.layers.keys())) and forall(lambda n: implies(n in self.layers.keys(), exists(lambda i: 0 <= i and i < len(RORDER) and RORDER[i] == n)), LayerName)"
             " and forall(lambda i, j: implies(0 <= i and i < len(RORDER) and 0 <= j and j < len(RORDER) and RORDER[j] in self.dependencies[RORDER[i]], i < j))"),
            ("graph-untouched", "same(self, SELF0) and same(keys, KEYS0) and same(all_ext_keys, ALL0)"),
            ("same-names", "ret_layers.keys() == layer_dependencies.keys()"),
            ("only-walked-layers-are-kept", "forall(lambda n2: implies(n2 in ret_layers.keys(), exists(lambda n: n in self.layers.keys() and n2 == renamed(n, tok) and " + _DONE.format(n="n") + ", LayerName)), LayerName)"),
            ("kept-tasks-are-the-original-tasks", "forall(lambda n, k: implies(n in self.layers.keys() and renamed(n, tok) in ret_layers.keys() and k in ret_layers[renamed(n, tok)].keys(), k in self.layers[n].keys() and ret_layers[renamed(n, tok)][k] == self.layers[n][k]), LayerName, Key)"),
            ("requested-keys-are-kept-or-still-wanted", "forall(lambda k: implies(k in keys and " + _DEFINED.format(d="k") + ", " + _KEPT.format(d="k") + " or (k in keys_set and not " + _DONE.format(n="layer_of_key(k)") + ")), Key)"),
            ("needs-of-kept-tasks-are-kept-or-still-wanted",
             "forall(lambda k, d: implies(" + _KEPT.format(d="k") + " and " + _DEFINED.format(d="k") + " and d in " + _DEPS.format(n="layer_of_key(k)", k="k") + " and " + _DEFINED.format(d="d") + ", "
             + _KEPT.format(d="d") + " or ((d in keys_set or keys_set == EMPTYKEYS) and not " + _DONE.format(n="layer_of_key(d)") + ")), Key, Key)"),
        ]),
        1: dict(done="DK", invariant=[
            ("wanted-grows-by-the-dependencies", "forall(lambda x: implies((x in KS0 or exists(lambda k2: k2 in DK and x in culled_deps[k2], Key)) and x not in culled_deps.keys(), x in keys_set), Key)"),
        ]),
    },
    ghost=[
        ("before", "ret_layers: dict = {}", "SELF0 = self\nKEYS0 = keys\nALL0 = all_ext_keys"),
        ("after", "layer = self.layers[layer_name]", "assert_(layer_name in self.layers.keys() and layer_name in self.dependencies.keys() and RORDER[t] == layer_name, 'walking-a-layer-of-the-graph')"),
        ("before", "for k, d in culled_deps.items()", "KS0 = keys_set"),
        ("before", "layer = culled_layer",
         "assert_(forall(lambda x: implies(x in culled_deps.keys(), x in self.layers[layer_name].keys() and layer_of_key(x) == layer_name), Key), 'culled-keys-belong-to-this-layer')\n"
         "assert_(forall(lambda i: implies(0 <= i and i < t, RORDER[i] != layer_name)), 'this-layer-was-not-walked-before')\n"
         "assert_(renamed(layer_name, tok) not in ret_layers.keys(), 'no-entry-for-this-layer-yet')\n"
         "assert_(forall(lambda k2, d2: implies(k2 in culled_deps.keys() and d2 in culled_deps[k2] and d2 not in culled_deps.keys(), d2 in keys_set), Key, Key), 'outside-dependencies-are-now-wanted')\n"
         "assert_(forall(lambda x: implies(x in KS0 and x not in culled_deps.keys(), x in keys_set), Key), 'other-wanted-keys-stay-wanted')\n"
         "assert_(culled_deps.keys() == culled_layer.keys() and forall(lambda k2, d2: implies(k2 in culled_deps.keys() and d2 in culled_deps[k2] and d2 in self.layers[layer_name].keys(), d2 in culled_deps.keys()), Key, Key)"
         " and forall(lambda k2: implies(k2 in culled_deps.keys(), culled_deps[k2] == keys_in_task(self.layers[layer_name][k2], all_ext_keys) and culled_layer[k2] == self.layers[layer_name][k2]), Key), 'what-Layer.cull-promised')\n"
         "assert_(forall(lambda k2, d2: implies(k2 in culled_deps.keys() and d2 in culled_deps[k2] and " + _DEFINED.format(d="d2") + " and layer_of_key(d2) != layer_name, "
         "forall(lambda i: implies(0 <= i and i <= t, RORDER[i] != layer_of_key(d2)))), Key, Key), 'dependencies-live-in-layers-still-to-be-walked')"),
    ],
    drop=["if not any("],
    note="once nothing is wanted any more (keys_set empty) the remaining layers are kept whole, which is why `still wanted` reads `in keys_set, or keys_set is empty`; `all_ext_keys` is taken as given (the statement that chooses between set() and get_all_external_keys() is dropped); every layer's cull is "
         "taken to satisfy the contract proved for Layer.cull; the renamed layers' dependency map (ret_dependencies) is not part of the property",
)

CONTRACTS = [layer_cull, toposort_layers, hlg_cull]


def attr_has_legacy(eng, st, base, node):
    return SV(z3.BoolVal(True), T.Bool)


def attr_annotations(eng, st, base, node):
    return fresh(T.U("Annotations"), "annotations")


def method_get_dependencies(eng, st, base, node, lv):
    k = eng.ev(node.args[0], st, Key)
    allk = eng.ev(node.args[1], st)
    eng.check(st, z3.Select(Layer.dom(base.t), k.t), "KeyError(self[key])", node)
    return SV(kdeps(z3.Select(Layer.valarr(base.t), k.t), allk.t), SetK)


def model_materialized(eng, st, node, want):
    """MaterializedLayer(mapping, annotations=...): the mapping itself (annotations carried along, not modelled)."""
    return eng.ev(node.args[0], st)


def fstring_newname(eng, node, st, want):
    """f"{layer_name}-{tok}": the new layer name, a function of both parts (ASSUMED injective in the layer name: requires)."""
    vals = [v.value for v in node.values if isinstance(v, ast.FormattedValue)]
    if len(vals) == 2:
        a, b = eng.ev(vals[0], st), eng.ev(vals[1], st)
        if a.ty == LName and b.ty == Tok:
            return SV(newname(a.t, b.t), LName)
    return None


def model_reversed(eng, st, node, want):
    sq = eng.ev(node.args[0], st)
    if not isinstance(sq.ty, T.Seq):
        raise Unsupported(f"reversed({sq.ty})")
    i = z3.Int("i!rev")
    n = sq.ty.len(sq.t)
    return SV(sq.ty.mk(z3.Lambda([i], z3.Select(sq.ty.arr(sq.t), n - 1 - i)), n), sq.ty)


def method_via(contract, selfname="self"):
    def m(eng, st, base, node, lv):
        tmp = f"__self_{id(node)}"
        st.env[tmp] = base
        call = ast.Call(func=ast.Name(id="m", ctx=ast.Load()), args=[ast.Name(id=tmp, ctx=ast.Load())] + list(node.args), keywords=list(node.keywords))
        ast.copy_location(call, node)
        ast.fix_missing_locations(call)
        r = eng.call_contract(contract, call, st, None)
        st.env.pop(tmp)
        return r
    return m


def model_hlg(eng, st, node, want):
    a, b = eng.ev(node.args[0], st), eng.ev(node.args[1], st)
    return SV(HLG.mk(layers=a.t, dependencies=b.t), HLG)


def setup(eng):
    eng.consts["EMPTYKEYS"] = SV(SetK.empty(), SetK)
    eng.spec_types["LayerName"] = LName
    eng.spec_types["Token"] = Tok
    eng.mutable_records.add("HLG")
    eng.fstring_model = fstring_newname
    eng.funcs["reversed"] = FuncVal("reversed", "model", model_reversed)
    eng.funcs["flatten"] = FuncVal("flatten", "model", lambda e, st, node, want: e.ev(node.args[0], st))  # keys given as a flat set
    eng.funcs["tokenize"] = FuncVal("tokenize", "model", lambda e, st, node, want: fresh(Tok, "tok"))
    eng.funcs["HighLevelGraph"] = FuncVal("HighLevelGraph", "model", model_hlg)
    eng.funcs["renamed"] = FuncVal("renamed", "uf", (newname, LName, [LName, Tok]))
    eng.funcs["layer_of_key"] = FuncVal("layer_of_key", "uf", (lof, LName, [Key]))
    eng.attr_models[("method", "HLG", "_toposort_layers")] = method_via(toposort_layers)
    eng.attr_models[("method", Layer.name, "cull")] = method_via(layer_cull)
    eng.spec_types["Key"] = Key
    eng.attr_models[("attr", Layer.name, "has_legacy_tasks")] = attr_has_legacy
    eng.attr_models[("attr", Layer.name, "annotations")] = attr_annotations
    eng.attr_models[("method", Layer.name, "get_dependencies")] = method_get_dependencies
    eng.funcs["MaterializedLayer"] = FuncVal("MaterializedLayer", "model", model_materialized)
    eng.funcs["keys_in_task"] = FuncVal("keys_in_task", "uf", (kdeps, SetK, [Node, SetK]))
