"""Contracts for dask/cache.py:Cache (C52, cache clause): the callback never changes what a computation returns.

The argument has two halves, each a two-state contract on the real method:

  _posttask  stores, under the key of the task that just finished, exactly the value the scheduler handed over -- whatever
             the third-party store does with it (cachey may keep it, refuse it, or evict other entries: ASSUMED contract
             of `cache.put` below), every entry the store holds afterwards is still "the value computed for its key";
  _start     replaces the graph entries of cached keys by data nodes holding exactly the cached value, and touches
             nothing else.

Ghost function `computed(k)`: the value the scheduler produces for key k (one value per key: equal keys denote equal
computations -- the identity of keys is property C11/C12, ASSUMED here).  Invariant of the store: data[k] == computed(k).
"""
import z3

from vf import ty as T
from vf.core import SV, FuncVal, fresh
from vf.engine import Contract

MODULE = "dask/cache.py"
Key = T.U("Key")
Val = T.U("Val")
Node = T.U("Node")
SetK = T.Set(Key)
Store = T.Rec("CacheyStore", {"data": T.Map(Key, Val)})
CacheCb = T.Rec("CacheCallback", {"cache": Store, "starttimes": T.Map(Key, T.Real), "durations": T.Map(Key, T.Real)})
Graph = T.Map(Key, Node)
State = T.Rec("SchedulerState", {"dependencies": T.Map(Key, SetK)})
Opaque = T.U("Opaque")
FREE = {"CLOCK": T.Real, "overhead": T.Int}

_STORE_INV = "forall(lambda k: implies(k in {c}.data.keys(), {c}.data[k] == computed(k)), Key)"

put = Contract(
    "cachey (third party)", "Cache.put", assumed=True,
    params={"self": Store, "key": Key, "value": Val, "cost": T.Real, "nbytes": T.Int},
    frame=["self"],
    ensures=[("ASSUMED: the store holds values it was given, under the key they were given for",
              "forall(lambda k: implies(k in self.data.keys(), (k == key and self.data[k] == value) or (k in old(self.data).keys() and self.data[k] == old(self.data)[k])), Key)")],
    note="cachey.Cache.put may keep the entry, refuse it (cost below its limit) or evict others; it never invents or alters a value",
)

start = Contract(
    MODULE, "Cache._start",
    params={"self": CacheCb, "dsk": Graph},
    free=FREE, frame=["self", "dsk"],
    locals={"overlap": SetK},
    requires=[("cached-values-are-the-computed-values", _STORE_INV.format(c="self.cache"))],
    ensures=[
        ("C52-same-keys-in-the-graph", "same(dsk.keys(), old(dsk).keys())"),
        ("C52-cached-keys-become-data-nodes-holding-the-computed-value",
         "forall(lambda k: implies(k in dsk.keys() and k in self.cache.data.keys(), dsk[k] == datanode(k, computed(k))), Key)"),
        ("C52-every-other-entry-of-the-graph-is-untouched", "forall(lambda k: implies(k in dsk.keys() and k not in self.cache.data.keys(), dsk[k] == old(dsk)[k]), Key)"),
        ("store-untouched", "same(self.cache, old(self.cache))"),
    ],
    loops={0: dict(done="DK", invariant=[
        ("keys", "same(dsk.keys(), DSK0.keys()) and same(self.cache, SELF0.cache) and same(overlap, OV0)"),
        ("done-are-data-nodes", "forall(lambda k: implies(k in DK, dsk[k] == datanode(k, computed(k))), Key)"),
        ("others-untouched", "forall(lambda k: implies(k in dsk.keys() and k not in DK, dsk[k] == DSK0[k]), Key)"),
    ])},
    ghost=[("entry", "", "DSK0 = dsk\nSELF0 = self"), ("after", "overlap = set(dsk) & set(self.cache.data)", "OV0 = overlap")],
)
start.locals.update({"DSK0": Graph, "SELF0": CacheCb, "OV0": SetK})

posttask = Contract(
    MODULE, "Cache._posttask",
    params={"self": CacheCb, "key": Key, "value": Val, "dsk": Graph, "state": State, "id": Opaque},
    free=FREE, frame=["self", "CLOCK"],
    locals={"deps": SetK, "duration": T.Real, "nb": T.Int},
    requires=[("cached-values-are-the-computed-values", _STORE_INV.format(c="self.cache")),
              ("the-scheduler-hands-over-the-value-it-computed-for-the-key", "value == computed(key)"),
              ("pretask-came-first", "key in self.starttimes.keys() and self.starttimes[key] <= CLOCK"),
              ("scheduler-state", "key in state.dependencies.keys()"),
              ("sizes", "overhead > 0"),
              ("durations-nonnegative", "forall(lambda k: implies(k in self.durations.keys(), self.durations[k] >= 0), Key)")],
    ensures=[("C52-cached-values-are-the-computed-values", _STORE_INV.format(c="self.cache")),
             ("durations-nonnegative", "forall(lambda k: implies(k in self.durations.keys(), self.durations[k] >= 0), Key)"),
             ("start-times-untouched", "same(self.starttimes, old(self.starttimes))")],
)

finish = Contract(
    MODULE, "Cache._finish",
    params={"self": CacheCb, "dsk": Graph, "state": State, "errored": T.Bool},
    free=FREE, frame=["self"],
    requires=[("cached-values-are-the-computed-values", _STORE_INV.format(c="self.cache"))],
    ensures=[("C52-cached-values-are-the-computed-values", _STORE_INV.format(c="self.cache")), ("store-untouched", "same(self.cache, old(self.cache))"),
             ("timing-tables-emptied", "forall(lambda k: k not in self.starttimes.keys() and k not in self.durations.keys(), Key)")],
)

CONTRACTS = [start, posttask, finish]

_computed = z3.Function("computed", Key.sort(), Val.sort())
_datanode = z3.Function("datanode", Key.sort(), Val.sort(), Node.sort())
_nbytes = z3.Function("cachey_nbytes", Val.sort(), z3.IntSort())
_sizeof = z3.Function("getsizeof_key", Key.sort(), z3.IntSort())


def model_datanode(eng, st, node, want):
    k = eng.ev(node.args[0], st)
    v = eng.ev(node.args[1], st)
    return SV(_datanode(k.t, v.t), Node)


def model_timer(eng, st, node, want):
    """default_timer(): ASSUMED monotone clock"""
    t = fresh(T.Real, "now")
    c = eng.read_name(st, "CLOCK")
    st.assume(t.t >= c.t)
    st.env["CLOCK"] = t
    eng.used_models.add("default_timer: ASSUMED monotone (never goes backwards)")
    return t


def method_nbytes(eng, st, base, node, lv):
    v = eng.ev(node.args[0], st)
    r = _nbytes(v.t)
    st.assume(r >= 0)
    eng.used_models.add("cachey.nbytes: ASSUMED non-negative")
    return SV(r, T.Int)


def model_getsizeof(eng, st, node, want):
    v = eng.ev(node.args[0], st)
    r = _sizeof(v.t)
    st.assume(r >= 0)
    return SV(r, T.Int)


def method_put(eng, st, base, node, lv):
    import ast
    tmp = f"__store_{id(node)}"
    st.env[tmp] = base
    call = ast.Call(func=ast.Name(id="m", ctx=ast.Load()), args=[ast.Name(id=tmp, ctx=ast.Load())] + list(node.args), keywords=list(node.keywords))
    ast.copy_location(call, node)
    ast.fix_missing_locations(call)
    r = eng.call_contract(put, call, st, None)
    post = st.env.pop(tmp)
    if lv is not None:
        eng.write_path(st, lv[0], lv[1], post, node)
    return r


def setup(eng):
    eng.spec_types["Key"] = Key
    eng.mutable_records.update({"CacheCallback", "CacheyStore"})
    eng.funcs["computed"] = FuncVal("computed", "uf", (_computed, Val, [Key]))
    eng.funcs["datanode"] = FuncVal("datanode", "uf", (_datanode, Node, [Key, Val]))
    eng.funcs["DataNode"] = FuncVal("DataNode", "model", model_datanode)
    eng.funcs["default_timer"] = FuncVal("default_timer", "model", model_timer)
    eng.funcs["sys.getsizeof"] = FuncVal("sys.getsizeof", "model", model_getsizeof)
    eng.attr_models[("method", "CacheCallback", "_nbytes")] = method_nbytes
    eng.attr_models[("method", "CacheyStore", "put")] = method_put
    eng.dict_records.add("SchedulerState")
