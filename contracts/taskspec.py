"""Contracts for dask/_task_spec.py (C11, C08): which fields a node's identity and dependencies are built from."""
import z3

from vf import ty as T
from vf.core import SV, FuncVal
from vf.engine import Contract

MODULE = "dask/_task_spec.py"

Arg = T.U("Arg")          # a task argument: literal, TaskRef or nested GraphNode
Tok = T.U("Token")
Klass = T.Enum("Klass", ["list", "tuple", "set", "dict"])
tok = z3.Function("tokenize", Arg.sort(), Tok.sort())   # C12's business: assumed a function of the value (deterministic)

Container = T.Rec("NestedContainer", {"args": T.Seq(Arg), "klass": Klass})
TokResult = T.Tup(T.U("Name"), Klass, T.Seq(Tok))

container_token = Contract(
    MODULE, "NestedContainer.__dask_tokenize__",
    params={"self": Container},
    locals={"tokens": T.Seq(Tok)},
    returns=TokResult,
    requires=[("ordered-container", "self.klass == 'list' or self.klass == 'tuple'"), ("len", "len(self.args) >= 0")],
    ensures=[
        ("C11-order-is-part-of-the-identity", "len(result[2]) == len(self.args) and forall(lambda i: implies(0 <= i and i < len(self.args), result[2][i] == tokenize(self.args[i])))"),
        ("C11-class-is-part-of-the-identity", "result[1] == self.klass"),
    ],
    drop=["from dask.tokenize import tokenize"],
    note="List/Tuple: the token lists the argument tokens IN ORDER, so equal tokens imply (with injective component tokens: C12, assumed) equal argument sequences and hence equal values. Set (sorted) and Dict (sorted pairs) branches are bounded natively.",
)

Key = T.U("Key")
Node = T.U("Node")
Graph = T.Map(Key, Node)
SetK = T.Set(Key)
node_deps = z3.Function("node_deps", Node.sort(), SetK.sort())

cull = Contract(
    MODULE, "cull",
    params={"dsk": Graph, "keys": T.Seq(Key)},
    locals={"work": SetK, "seen": SetK, "dsk2": Graph, "k": Key, "v": Node},
    returns=Graph,
    requires=[("lens", "len(keys) >= 0")],
    ensures=[
        ("C09-requested-keys-kept", "forall(lambda j: implies(0 <= j and j < len(keys) and keys[j] in dsk.keys(), keys[j] in result.keys()))"),
        ("C09-subgraph-identical", "forall(lambda k: implies(k in result.keys(), k in dsk.keys() and result[k] == dsk[k]), Key)"),
        ("C09-closed-under-dependencies", "forall(lambda k, d: implies(k in result.keys() and d in node_deps(dsk[k]) and d in dsk.keys(), d in result.keys()), Key, Key)"),
    ],
    loops={0: dict(invariant=[
        ("subgraph", "dsk2.keys() == seen and forall(lambda k: implies(k in seen, k in dsk.keys() and dsk2[k] == dsk[k]), Key)"),
        ("requested", "forall(lambda j: implies(0 <= j and j < len(keys) and keys[j] in dsk.keys(), keys[j] in seen or keys[j] in work))"),
        ("pending", "forall(lambda k, d: implies(k in seen and d in node_deps(dsk[k]) and d in dsk.keys(), d in seen or d in work), Key, Key)"),
    ])},
    drop=["if not isinstance(keys, (list, set, tuple))"],
    note="the task-spec cull (work-set traversal through bound-method aliases wpop/wupdate/sadd); keys given as a list",
)

# ---- C08: a Task's reported dependencies are exactly the keys its arguments reference
RefT = T.Rec("TaskRef", {"key": Key})
GNodeT = T.Rec("GraphNodeArg", {"dependencies": SetK})
ArgU = T.Union("TaskArg", {"ref": RefT, "node": GNodeT, "other": T.U("Literal")}, classes={"TaskRef": ["ref"], "GraphNode": ["node"]})
KwT = T.Rec("Kwargs", {"vals": T.Seq(ArgU)})
TaskT = T.Rec("TaskObj", {"key": Key, "func": T.U("Fn"), "args": T.Seq(ArgU), "kwargs": KwT, "_dependencies": SetK,
                          "_is_coro": T.Opt(T.Bool), "_token": T.Opt(Tok), "_repr": T.Opt(T.U("Repr")), "_data_producer": T.Bool})

_REFS = ("exists(lambda j: 0 <= j and j < {n} and ((isinstance({xs}[j], TaskRef) and {xs}[j].key == k) or "
         "(isinstance({xs}[j], GraphNode) and k in {xs}[j].dependencies)))")

task_init = Contract(
    MODULE, "Task.__init__",
    params={"self": TaskT, "key": Key, "func": T.U("Fn"), "args": T.Seq(ArgU), "_data_producer": T.Bool, "kwargs": KwT},
    defaults={"_data_producer": "False"},
    locals={"_dependencies": T.Opt(SetK), "a": ArgU},
    frame=["self"],
    requires=[("lens", "len(args) >= 0 and len(kwargs.vals) >= 0")],
    ensures=[
        ("C08-dependencies-are-exactly-the-referenced-keys",
         "forall(lambda k: (k in self._dependencies) == (" + _REFS.format(n="len(args)", xs="args") + " or " + _REFS.format(n="len(kwargs.vals)", xs="kwargs.vals") + "), Key)"),
        ("stores-its-arguments", "same(self.args, args) and same(self.kwargs, kwargs) and self.key == key and self.func == func"),
        ("fresh-caches", "self._token is None and self._is_coro is None"),
    ],
    loops={0: dict(index="n", seq="allargs", invariant=[
        ("allargs", "len(allargs) == len(args) + len(kwargs.vals) and forall(lambda j: implies(0 <= j and j < len(args), allargs[j] == args[j])) and forall(lambda j: implies(0 <= j and j < len(kwargs.vals), allargs[len(args) + j] == kwargs.vals[j]))"),
        ("collected", "forall(lambda k: (_dependencies is not None and k in _dependencies) == " + _REFS.format(n="n", xs="allargs") + ", Key)"),
    ])},
    note="positional-only marker and **kwargs are flattened by the extraction: kwargs is modelled by the sequence of its values (the keyword names are irrelevant to the dependencies)",
)

CONTRACTS = [container_token, cull, task_init]


def model_type_name(eng, st, base, node):
    from vf.core import fresh
    return fresh(T.U("Name"), "typename")


def model_chain(eng, st, node, want):
    a = eng.ev(node.args[0], st)
    b = eng.ev(node.args[1], st)
    return eng.seq_concat(a, b, st)


def setup(eng):
    eng.funcs["itertools.chain"] = FuncVal("itertools.chain", "model", model_chain)
    eng.attr_models[("method", "Kwargs", "values")] = lambda eng_, st, base, node, lv: SV(KwT.get(base.t, "vals"), T.Seq(ArgU))
    eng.funcs["frozenset"] = FuncVal("frozenset", "model", lambda e, st, node, want: e.ev(node.args[0], st))
    eng.consts["_no_deps"] = SV(SetK.empty(), SetK)
    eng.isinstance_static[("Fn", "Task")] = False
    eng.mutable_records.update({"TaskObj"})
    eng.spec_types["Key"] = Key
    eng.funcs["node_deps"] = FuncVal("node_deps", "uf", (node_deps, SetK, [Node]))
    eng.attr_models[("attr", "Node", "dependencies")] = lambda eng_, st, base, node: SV(node_deps(base.t), SetK)
    eng.enums.append(Klass)
    eng.funcs["tokenize"] = FuncVal("tokenize", "uf", (tok, Tok, [Arg]))
    eng.consts["set"] = SV(Klass.const("set"), Klass)
    eng.consts["dict"] = SV(Klass.const("dict"), Klass)
    eng.funcs["type"] = FuncVal("type", "model", lambda e, st, node, want: SV(z3.Const("TYPEOBJ", T.U("TypeObj").sort()), T.U("TypeObj")))
    eng.attr_models[("attr", "TypeObj", "__name__")] = model_type_name
