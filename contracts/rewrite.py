"""Contract for dask/rewrite.py:_process_match (C51): consistent binding of repeated variables."""
from vf import ty as T
from vf.engine import Contract

MODULE = "dask/rewrite.py"
Var = T.U("Var")
Term = T.U("Term")
Rule = T.Rec("RewriteRule", {"_varlist": T.Seq(Var)})
Subs = T.Map(Var, Term)

process_match = Contract(
    MODULE, "_process_match",
    params={"rule": Rule, "syms": T.Seq(Term)},
    locals={"subs": Subs, "varlist": T.Seq(Var)},
    returns=T.Opt(Subs),
    requires=[("lens", "len(rule._varlist) >= 0 and len(syms) >= 0")],
    ensures=[
        ("C51-no-match-iff-a-repeated-variable-meets-two-different-subterms",
         "(result is None) == exists(lambda i, j: 0 <= i and i < j and j < len(syms) and rule._varlist[i] == rule._varlist[j] and syms[i] != syms[j])"),
        ("C51-bindings-reproduce-every-matched-subterm",
         "implies(result is not None, forall(lambda i: implies(0 <= i and i < len(syms), rule._varlist[i] in result.keys() and result[rule._varlist[i]] == syms[i])))"),
        ("C51-binds-only-the-rule-variables",
         "implies(result is not None, forall(lambda v: implies(v in result.keys(), v in rule._varlist), Var))"),
        ("lengths-agree", "len(rule._varlist) == len(syms)"),
    ],
    raises=[("RuntimeError", "len(rule._varlist) != len(syms)", "length-mismatch")],
    loops={0: dict(index="n", invariant=[
        ("len", "len(varlist) == len(syms) and same(varlist, rule._varlist)"),
        ("bound-so-far", "forall(lambda i: implies(0 <= i and i < n, varlist[i] in subs.keys() and subs[varlist[i]] == syms[i]))"),
        ("only-seen-variables", "forall(lambda v: implies(v in subs.keys(), exists(lambda i: 0 <= i and i < n and varlist[i] == v)), Var)"),
    ])},
    note="terms and variables are opaque values compared with == / != (their truthiness is NOT assumed: uninterpreted)",
)

CONTRACTS = [process_match]


def setup(eng):
    eng.spec_types["Var"] = Var
