"""Contracts for dask/core.py:_toposort (C07).

Proved here: partial correctness of the DFS — a normal return is a duplicate-free list of
graph keys containing every start key, each key after all of its dependencies (ghost position
map `pos`).  The cycle-reconstruction block (dict of priorities, reverse_dict, min-walk) is
replaced, mechanically, by `raise RuntimeError` for this proof; its correctness and the
termination of all loops are bounded natively (all digraphs <= 4 nodes, 16 hash seeds).
"""
import ast

from vf import ty as T
from vf.core import FuncVal
from vf.engine import Contract

MODULE = "dask/core.py"
Key = T.U("Key")
SetK = T.Set(Key)
Deps = T.Map(Key, SetK)


def dfs_only(body):
    """Fragment: the body of _toposort with the block under `if nxt in seen:` replaced by a raise."""
    class R(ast.NodeTransformer):
        hit = 0

        def visit_If(self, node):
            self.generic_visit(node)
            if ast.unparse(node.test) == "nxt in seen":
                R.hit += 1
                r = ast.Raise(exc=ast.Call(func=ast.Name(id="RuntimeError", ctx=ast.Load()), args=[], keywords=[]), cause=None)
                node.body = [ast.copy_location(r, node.body[0])]
            return node

    import copy
    new = [R().visit(copy.deepcopy(s)) for s in body]
    assert R.hit == 1, "the cycle block was not found: contract no longer lines up"
    for s in new:
        ast.fix_missing_locations(s)
    return new


INV_COMMON = [
    ("ordered-is-completed", "distinct(ordered) and set(ordered) == completed and len(ordered) >= 0"),
    ("pos", "forall(lambda k: implies(k in completed, 0 <= pos[k] and pos[k] < len(ordered) and ordered[pos[k]] == k), Key)"),
    ("C07-dependencies-come-first", "forall(lambda k, d: implies(k in completed and d in dependencies[k], d in completed and pos[d] < pos[k]), Key, Key)"),
    ("completed-are-graph-keys", "completed <= dependencies.keys()"),
    ("seen-completed-disjoint", "forall(lambda k: not (k in seen and k in completed), Key)"),
    ("earlier-keys-done", "forall(lambda j: implies(0 <= j and j < t, keys[j] in completed))"),
]

toposort = Contract(
    MODULE, "_toposort",
    fragment=dfs_only,
    params={"dsk": Deps, "keys": T.Seq(Key), "returncycle": T.Bool, "dependencies": Deps},
    locals={"ordered": T.Seq(Key), "completed": SetK, "seen": SetK, "nodes": T.Seq(Key), "next_nodes": T.Seq(Key), "pos": T.Map(Key, T.Int), "cur": Key},
    returns=T.Seq(Key),
    requires=[
        ("want-order", "not returncycle"),
        ("closed", "forall(lambda k: implies(k in dependencies.keys(), dependencies[k] <= dependencies.keys()), Key)"),
        ("keys-in-graph", "forall(lambda j: implies(0 <= j and j < len(keys), keys[j] in dependencies.keys()))"),
    ],
    ensures=[
        ("C07-each-key-once", "distinct(result)"),
        ("C07-only-graph-keys", "set(result) <= dependencies.keys()"),
        ("C07-contains-every-start-key", "forall(lambda j: implies(0 <= j and j < len(keys), keys[j] in result))"),
        ("C07-closed-under-dependencies", "forall(lambda k, d: implies(k in result and d in dependencies[k], d in result), Key, Key)"),
        ("C07-each-key-after-its-dependencies", "forall(lambda i, j: implies(0 <= i and i < len(result) and 0 <= j and j < len(result) and result[j] in dependencies[result[i]], j < i))"),
    ],
    raises=[("RuntimeError", "True", "cycle")],
    loops={
        0: dict(index="t", invariant=INV_COMMON + [("between-keys", "seen == EMPTYK")]),
        1: dict(invariant=INV_COMMON + [
            ("stack-in-graph", "forall(lambda j: implies(0 <= j and j < len(nodes), nodes[j] in dependencies.keys())) and len(nodes) >= 0"),
            ("bottom-is-key", "implies(len(nodes) > 0, nodes[0] == key) and implies(len(nodes) == 0, key in completed and seen == EMPTYK)"),
            ("t-range", "0 <= t and t < len(keys) and key == keys[t]"),
            ("seen-in-graph", "seen <= dependencies.keys()"),
            ("seen-on-stack", "forall(lambda k: implies(k in seen, k in nodes), Key)"),
        ]),
        2: dict(done="DN", invariant=[
            ("next-nodes", "forall(lambda d: implies(d in DN, d in completed or d in next_nodes), Key)"),
            ("next-in-graph", "forall(lambda j: implies(0 <= j and j < len(next_nodes), next_nodes[j] in dependencies.keys())) and len(next_nodes) >= 0"),
        ]),
    },
    ghost=[
        ("before", "completed = set()", "pos = {}"),
        ("after", "ordered.append(cur)", "pos[cur] = len(ordered) - 1"),
    ],
    drop=["if keys is None", "if dependencies is None"],
    note="keys normalised to a list and dependencies given explicitly (toposort/getcycle pass them or build DependenciesMapping: assumed to be the dependency map)",
)

# ------------------------------------------------------------------------------------------------------------
# returncycle=True: the cycle-reconstruction block itself.  Ghost state: `push[j]` = stack index of the entry whose
# expansion pushed stack entry j, `exp[k]` = stack index at which the node k (in `seen`) is being expanded, `rank`/`CNT`
# = completion order (for the empty answer), snapshots `nodes0`/`push0` at the moment a cycle is detected, `DJ[x]` =
# deepest popped stack index holding x.
reverse_dict = Contract(
    MODULE, "reverse_dict",
    params={"d": Deps}, returns=Deps,
    locals={"result": Deps, "vals": SetK},
    ensures=[
        ("keys-kept", "d.keys() <= result.keys()"),
        ("reversed", "forall(lambda k, v: implies(v in result.keys(), (k in result[v]) == (k in d.keys() and v in d[k])), Key, Key)"),
    ],
    loops={
        0: dict(done="DK", invariant=[
            ("keys-so-far", "DK <= result.keys()"),
            ("values-are-keys", "forall(lambda k, v: implies(k in DK and v in d[k], v in result.keys()), Key, Key)"),
            ("reversed-so-far", "forall(lambda k, v: implies(v in result.keys(), (k in result[v]) == (k in DK and v in d[k])), Key, Key)"),
        ]),
        1: dict(done="DV", invariant=[
            ("keys-so-far", "DK <= result.keys() and k in result.keys()"),
            ("values-are-keys", "forall(lambda k2, v: implies((k2 in DK and v in d[k2]) or (k2 == k and v in DV), v in result.keys()), Key, Key)"),
            ("reversed-so-far", "forall(lambda k2, v: implies(v in result.keys(), (k2 in result[v]) == ((k2 in DK and v in d[k2]) or (k2 == k and v in DV))), Key, Key)"),
        ]),
    },
    note="the result is a defaultdict(set): looking up an absent key creates it (modelled)",
)

_STACK = [
    ("push-len", "len(push) == len(nodes)"),
    ("pusher", "forall(lambda j: implies(1 <= j and j < len(nodes), 0 <= push[j] and push[j] < j and nodes[push[j]] in seen and exp[nodes[push[j]]] == push[j] and nodes[j] in dependencies[nodes[push[j]]]))"),
    ("expanded-entry-is-topmost", "forall(lambda k: implies(k in seen, k in exp.keys() and 0 <= exp[k] and exp[k] < len(nodes) and nodes[exp[k]] == k), Key) and forall(lambda k, j: implies(k in seen and exp[k] < j and j < len(nodes), nodes[j] != k), Key, Int)"),
    ("stack-discipline", "forall(lambda k, j: implies(k in seen and exp[k] < j and j < len(nodes), push[j] >= exp[k]), Key, Int)"),
    ("stack-reachable", "forall(lambda j: implies(0 <= j and j < len(nodes), nodes[j] in REACH))"),
]
_RANK = [
    ("rank", "forall(lambda k: implies(k in completed, k in rank.keys() and 0 <= rank[k] and rank[k] < CNT), Key) and CNT >= 0"),
    ("C07-completed-are-ranked-after-their-dependencies", "forall(lambda k, d: implies(k in completed and d in dependencies[k], d in completed and rank[d] < rank[k]), Key, Key)"),
    ("completed-are-graph-keys", "completed <= dependencies.keys()"),
    ("seen-completed-disjoint", "forall(lambda k: not (k in seen and k in completed), Key)"),
    ("earlier-keys-done", "forall(lambda j: implies(0 <= j and j < t, keys[j] in completed))"),
]
_L1 = [
    ("stack-in-graph", "forall(lambda j: implies(0 <= j and j < len(nodes), nodes[j] in dependencies.keys())) and len(nodes) >= 0"),
    ("bottom-is-key", "implies(len(nodes) > 0, nodes[0] == key) and implies(len(nodes) == 0, key in completed and seen == EMPTYK)"),
    ("t-range", "0 <= t and t < len(keys) and key == keys[t]"),
    ("seen-in-graph", "seen <= dependencies.keys()"),
]
_POPPED = ("forall(lambda j: implies(len(nodes) <= j and j < len(nodes0), nodes0[j] in priorities.keys() and DJ[nodes0[j]] <= j))"
           " and forall(lambda x: implies(x in priorities.keys(), len(nodes) <= DJ[x] and DJ[x] < len(nodes0) and nodes0[DJ[x]] == x and priorities[x] == DJ[x] - (len(nodes0) - 1)), Key)")

cycle_c = Contract(
    MODULE, "_toposort[returncycle]", source="_toposort",
    params={"dsk": Deps, "keys": T.Seq(Key), "returncycle": T.Bool, "dependencies": Deps, "REACH": SetK},
    locals={"completed": SetK, "seen": SetK, "nodes": T.Seq(Key), "next_nodes": T.Seq(Key), "cur": Key, "prev": Key,
            "priorities": T.Map(Key, T.Int), "npopped": T.Int, "inplay": SetK, "dependents": Deps, "dependentsW": Deps, "cycle": T.Seq(Key), "deps": SetK,
            "push": T.Seq(T.Int), "exp": T.Map(Key, T.Int), "rank": T.Map(Key, T.Int), "CNT": T.Int,
            "nodes0": T.Seq(Key), "nodesL": T.Seq(Key), "push0": T.Seq(T.Int), "DJ": T.Map(Key, T.Int), "E0": T.Int},
    returns=T.Seq(Key),
    requires=[
        ("want-cycle", "returncycle"),
        ("closed", "forall(lambda k: implies(k in dependencies.keys(), dependencies[k] <= dependencies.keys()), Key)"),
        ("keys-in-graph", "forall(lambda j: implies(0 <= j and j < len(keys), keys[j] in dependencies.keys()))"),
        ("REACH is any set that contains the start keys and is closed under dependencies",
         "forall(lambda j: implies(0 <= j and j < len(keys), keys[j] in REACH)) and forall(lambda k, d: implies(k in REACH and k in dependencies.keys() and d in dependencies[k], d in REACH), Key, Key)"),
    ],
    ensures=[
        ("C07-empty-answer-means-acyclic (every start key completed, completed keys ranked after their dependencies)",
         "implies(len(result) == 0, forall(lambda j: implies(0 <= j and j < len(keys), keys[j] in completed)) and forall(lambda k, d: implies(k in completed and d in dependencies[k], d in completed and rank[d] < rank[k]), Key, Key))"),
        ("C07-cycle-is-closed", "implies(len(result) > 0, len(result) >= 2 and result[0] == result[len(result) - 1])"),
        ("C07-cycle-follows-dependencies", "forall(lambda i: implies(0 <= i and i < len(result) - 1, result[i] in dependencies.keys() and result[i + 1] in dependencies[result[i]]))"),
        ("C07-cycle-is-reachable-from-the-keys", "forall(lambda i: implies(0 <= i and i < len(result), result[i] in REACH))"),
    ],
    loops={
        0: dict(index="t", invariant=_RANK + [("between-keys", "seen == EMPTYK")]),
        1: dict(invariant=_RANK + _L1 + _STACK),
        2: dict(done="DN", invariant=[
            ("next-nodes", "forall(lambda d: implies(d in DN, d in completed or d in next_nodes), Key)"),
            ("stack-untouched (the cycle block pops it, but only on paths that leave the function)", "same(nodes, nodesL)"),
            ("next-are-fresh-dependencies-of-cur", "forall(lambda j: implies(0 <= j and j < len(next_nodes), next_nodes[j] in dependencies[cur] and next_nodes[j] not in seen and next_nodes[j] in dependencies.keys())) and len(next_nodes) >= 0"),
        ]),
        3: dict(decreases="len(nodes)", invariant=[
            ("prefix", "len(nodes) + npopped == len(nodes0) and npopped >= 0 and E0 < len(nodes) and forall(lambda j: implies(0 <= j and j < len(nodes), nodes[j] == nodes0[j]))"),
            ("popped-entries-are-in-play, priority = depth of the deepest popped copy", _POPPED),
        ]),
        4: dict(decreases="priorities[prev] + len(nodes0)", invariant=[
            ("dependents-untouched (`deps` is only read)", "same(dependents, dependentsW)"),
            ("walk-shape", "len(cycle) >= 2 and cycle[0] == nxt and cycle[len(cycle) - 1] == prev"),
            ("C07-each-step-follows-a-dependency", "forall(lambda i: implies(1 <= i and i < len(cycle), cycle[i] in dependencies.keys() and cycle[i - 1] in dependencies[cycle[i]]))"),
            ("walk-in-play", "forall(lambda i: implies(0 <= i and i < len(cycle), cycle[i] in inplay))"),
        ]),
    },
    ghost=[
        ("before", "completed = set()", "rank = {}\nCNT = 0"),
        ("after", "nodes = [key]", "push = [0 - 1]\nexp = {}"),
        ("after", "seen.add(cur)", "exp[cur] = len(nodes) - 1"),
        ("before", "nodes.extend(next_nodes)", "push = push + [len(nodes) - 1] * len(next_nodes)"),
        ("after", "=nodes.pop()", "push = push[:len(nodes)]"),
        ("after", "completed.add(cur)", "rank[cur] = CNT\nCNT = CNT + 1"),
        ("before", "for nxt in dependencies[cur]", "nodesL = nodes"),
        ("before", "priorities = {}", "nodes0 = nodes\npush0 = push\nDJ = {}\nE0 = exp[nxt]"),
        ("after", "priorities[nodes.pop()] = -npopped", "DJ[nodes0[len(nodes)]] = len(nodes)"),
        ("after", "priorities[nxt] = -npopped", "DJ[nxt] = E0\nassert_(len(nodes) - 1 == E0, 'stopped-at-the-expanded-entry')"),
        ("before", "while prev != cycle[0]", "dependentsW = dependents"),
        ("before", "deps = dependents[cycle[-1]]", "assert_(prev in inplay and prev != nxt and E0 < DJ[prev] and E0 <= push0[DJ[prev]] and nodes0[push0[DJ[prev]]] in inplay and prev in dependencies[nodes0[push0[DJ[prev]]]], 'the-entry-that-pushed-prev-is-in-play-and-depends-on-it')"),
    ],
    drop=["if keys is None", "if dependencies is None"],
    note="partial correctness of getcycle's answer, including that the greedy walk never runs out of candidates (no ValueError/KeyError/IndexError); the pop loop and the greedy walk terminate (the walk strictly descends in priority: the property the fix dda7948 restored); termination of the DFS loops is bounded natively",
)

CONTRACTS = [toposort, reverse_dict, cycle_c]


def setup(eng):
    import z3
    from vf.core import SV
    eng.spec_types["Key"] = Key
    eng.consts["EMPTYK"] = SV(SetK.empty(), SetK)
    eng.isinstance_static[("Seq<Key>", "list")] = True
    eng.funcs["reverse_dict"] = FuncVal("reverse_dict", "contract", reverse_dict)
    eng.funcs["defaultdict"] = FuncVal("defaultdict", "model", lambda e, st, node, want: e.bi_dict(ast.Call(func=ast.Name(id="dict", ctx=ast.Load()), args=[], keywords=[]), st, want))
    eng.defaultdicts = {("result", ())}  # reverse_dict's accumulator is a defaultdict(set)
