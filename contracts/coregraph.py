"""Contracts for dask/core.py:_toposort (C07).

Proved here: partial correctness of the DFS — a normal return is a duplicate-free list of
graph keys containing every start key, each key after all of its dependencies (ghost position
map `pos`).  The cycle-reconstruction block (dict of priorities, reverse_dict, min-walk) is
replaced, mechanically, by `raise RuntimeError` for this proof; its correctness and the
termination of all loops are bounded natively (all digraphs <= 4 nodes, 16 hash seeds).
"""
import ast

from vf import ty as T
from vf.core import FuncVal
from vf.engine import Contract

MODULE = "dask/core.py"
Key = T.U("Key")
SetK = T.Set(Key)
Deps = T.Map(Key, SetK)


def dfs_only(body):
    """Fragment: the body of _toposort with the block under `if nxt in seen:` replaced by a raise."""
    class R(ast.NodeTransformer):
        hit = 0

        def visit_If(self, node):
            self.generic_visit(node)
            if ast.unparse(node.test) == "nxt in seen":
                R.hit += 1
                r = ast.Raise(exc=ast.Call(func=ast.Name(id="RuntimeError", ctx=ast.Load()), args=[], keywords=[]), cause=None)
                node.body = [ast.copy_location(r, node.body[0])]
            return node

    import copy
    new = [R().visit(copy.deepcopy(s)) for s in body]
    assert R.hit == 1, "the cycle block was not found: contract no longer lines up"
    for s in new:
        ast.fix_missing_locations(s)
    return new


INV_COMMON = [
    ("ordered-is-completed", "distinct(ordered) and set(ordered) == completed and len(ordered) >= 0"),
    ("pos", "forall(lambda k: implies(k in completed, 0 <= pos[k] and pos[k] < len(ordered) and ordered[pos[k]] == k), Key)"),
    ("C07-dependencies-come-first", "forall(lambda k, d: implies(k in completed and d in dependencies[k], d in completed and pos[d] < pos[k]), Key, Key)"),
    ("completed-are-graph-keys", "completed <= dependencies.keys()"),
    ("seen-completed-disjoint", "forall(lambda k: not (k in seen and k in completed), Key)"),
    ("earlier-keys-done", "forall(lambda j: implies(0 <= j and j < t, keys[j] in completed))"),
]

toposort = Contract(
    MODULE, "_toposort",
    fragment=dfs_only,
    params={"dsk": Deps, "keys": T.Seq(Key), "returncycle": T.Bool, "dependencies": Deps},
    locals={"ordered": T.Seq(Key), "completed": SetK, "seen": SetK, "nodes": T.Seq(Key), "next_nodes": T.Seq(Key), "pos": T.Map(Key, T.Int), "cur": Key},
    returns=T.Seq(Key),
    requires=[
        ("want-order", "not returncycle"),
        ("closed", "forall(lambda k: implies(k in dependencies.keys(), dependencies[k] <= dependencies.keys()), Key)"),
        ("keys-in-graph", "forall(lambda j: implies(0 <= j and j < len(keys), keys[j] in dependencies.keys()))"),
    ],
    ensures=[
        ("C07-each-key-once", "distinct(result)"),
        ("C07-only-graph-keys", "set(result) <= dependencies.keys()"),
        ("C07-contains-every-start-key", "forall(lambda j: implies(0 <= j and j < len(keys), keys[j] in result))"),
        ("C07-closed-under-dependencies", "forall(lambda k, d: implies(k in result and d in dependencies[k], d in result), Key, Key)"),
        ("C07-each-key-after-its-dependencies", "forall(lambda i, j: implies(0 <= i and i < len(result) and 0 <= j and j < len(result) and result[j] in dependencies[result[i]], j < i))"),
    ],
    raises=[("RuntimeError", "True", "cycle")],
    loops={
        0: dict(index="t", invariant=INV_COMMON + [("between-keys", "seen == EMPTYK")]),
        1: dict(invariant=INV_COMMON + [
            ("stack-in-graph", "forall(lambda j: implies(0 <= j and j < len(nodes), nodes[j] in dependencies.keys())) and len(nodes) >= 0"),
            ("bottom-is-key", "implies(len(nodes) > 0, nodes[0] == key) and implies(len(nodes) == 0, key in completed and seen == EMPTYK)"),
            ("t-range", "0 <= t and t < len(keys) and key == keys[t]"),
            ("seen-in-graph", "seen <= dependencies.keys()"),
            ("seen-on-stack", "forall(lambda k: implies(k in seen, k in nodes), Key)"),
        ]),
        2: dict(done="DN", invariant=[
            ("next-nodes", "forall(lambda d: implies(d in DN, d in completed or d in next_nodes), Key)"),
            ("next-in-graph", "forall(lambda j: implies(0 <= j and j < len(next_nodes), next_nodes[j] in dependencies.keys())) and len(next_nodes) >= 0"),
        ]),
    },
    ghost=[
        ("before", "completed = set()", "pos = {}"),
        ("after", "ordered.append(cur)", "pos[cur] = len(ordered) - 1"),
    ],
    drop=["if keys is None", "if dependencies is None"],
    note="keys normalised to a list and dependencies given explicitly (toposort/getcycle pass them or build DependenciesMapping: assumed to be the dependency map)",
)

CONTRACTS = [toposort]


def setup(eng):
    import z3
    from vf.core import SV
    eng.spec_types["Key"] = Key
    eng.consts["EMPTYK"] = SV(SetK.empty(), SetK)
    eng.isinstance_static[("Seq<Key>", "list")] = True
