"""Contracts for dask/callbacks.py (C05): the active-callback set behaves like a stack of contexts.

Data-structure view: Callback.active : Set[Cb].  An add_callbacks context remembers `_added`
(what it activated itself); leaving it removes exactly that.  Two-state contracts on
__init__/__exit__/register/unregister + the set-algebra lemma `exit_keeps_outer` give the
stack property for every history by induction on its length.
"""
import ast
import os

import z3

from vf import ty as T
from vf.core import SV, FuncVal, fresh
from vf.engine import Contract

MODULE = "dask/callbacks.py"

Cb = T.U("Cb")
SetCb = T.Set(Cb)
CallbackCls = T.Rec("CallbackCls", {"active": SetCb})
AddObj = T.Rec("add_callbacks_obj", {"callbacks": T.Seq(Cb), "_added": SetCb})
CbObj = T.Rec("CallbackObj", {"_callback": Cb, "_cm": AddObj})

FREE = {"Callback": CallbackCls}

add_init = Contract(
    MODULE, "add_callbacks.__init__",
    params={"self": AddObj, "callbacks": T.Seq(Cb)},
    free=FREE, frame=["self", "Callback"],
    requires=[("len", "len(callbacks) >= 0")],
    ensures=[
        ("activates", "Callback.active == old(Callback.active) | set(callbacks)"),
        ("remembers-only-what-it-added", "self._added == set(callbacks) - old(Callback.active)"),
        ("keeps-callbacks", "set(self.callbacks) == set(callbacks)"),
    ],
)

add_exit = Contract(
    MODULE, "add_callbacks.__exit__",
    params={"self": AddObj, "type": T.U("Opaque"), "value": T.U("Opaque"), "traceback": T.U("Opaque")},
    free=FREE, frame=["Callback"],
    ensures=[
        ("removes-exactly-what-it-added", "Callback.active == old(Callback.active) - self._added"),
        ("C05-never-deactivates-others", "forall(lambda c: implies(c in old(Callback.active) and c not in self._added, c in Callback.active), Cb)"),
    ],
    loops={0: dict(done="DONE", invariant=[("partial", "Callback.active == old(Callback.active) - DONE")])},
)

add_enter = Contract(
    MODULE, "add_callbacks.__enter__",
    params={"self": AddObj}, free=FREE, frame=[],
    ensures=[("no-effect", "Callback.active == old(Callback.active)")],
)

cb_register = Contract(
    MODULE, "Callback.register",
    params={"self": CbObj}, free=FREE, frame=["Callback"],
    ensures=[("activates", "Callback.active == old(Callback.active) | {self._callback}")],
)

cb_unregister = Contract(
    MODULE, "Callback.unregister",
    params={"self": CbObj}, free=FREE, frame=["Callback"],
    requires=[("is-active", "self._callback in Callback.active")],
    ensures=[("deactivates-only-itself", "Callback.active == old(Callback.active) - {self._callback}")],
)

cb_enter = Contract(
    MODULE, "Callback.__enter__",
    params={"self": CbObj}, free=FREE, frame=["self", "Callback"], returns=CbObj,
    ensures=[
        ("activates", "Callback.active == old(Callback.active) | {self._callback}"),
        ("remembers", "self._cm._added == {self._callback} - old(Callback.active)"),
        ("same-callback", "self._callback == old(self._callback)"),
    ],
)

cb_exit = Contract(
    MODULE, "Callback.__exit__",
    params={"self": CbObj}, free=FREE, frame=["Callback"],
    ensures=[
        ("removes-exactly-what-it-added", "Callback.active == old(Callback.active) - self._cm._added"),
        ("C05-never-deactivates-others", "forall(lambda c: implies(c in old(Callback.active) and c not in self._cm._added, c in Callback.active), Cb)"),
    ],
)

_LEM = os.path.join(os.path.dirname(os.path.dirname(os.path.abspath(__file__))), "lemmas", "sched_lemmas.py")

exit_keeps_outer = Contract(
    _LEM, "lemma_exit_keeps_outer",
    params={"pre": SetCb, "X": SetCb, "mid": SetCb},
    requires=[("inner-contexts-restored-the-outer-ones", "pre <= mid")],
    ensures=[("C05-stack", "pre <= mid - (X - pre)")],
    note="induction step of the stack property: a context entered with `pre` active that added X - pre, "
         "and whose body (by induction hypothesis) left at least `pre` active, leaves at least `pre` active on exit",
)

# ---- local_callbacks: the context manager every scheduler call runs in (a @contextmanager generator)
yield_body = Contract(
    MODULE, "yield_body", assumed=True,
    params={}, free={"Callback": CallbackCls, "G0": T.Bool}, frame=["Callback"],
    requires=[("C05-only-the-outermost-scheduler-sees-the-global-callbacks", "implies(G0, Callback.active == EMPTYCB)")],
    ensures=[("body-restores", "Callback.active == old(Callback.active)")],
    raises=[("BaseException", "body_raises(Callback.active)", "the scheduler run may fail")],
    raises_post={"BaseException": [("body-restores-on-failure", "Callback.active == old(Callback.active)")]},
    note="ASSUMED contract of the with-body (a scheduler run): it leaves Callback.active as it found it, also when it raises -- for callback "
         "contexts opened inside that is the stack property proved above, for nested scheduler calls it is this very contract (induction on nesting depth)",
)

local_cbs = Contract(
    MODULE, "local_callbacks",
    params={"callbacks": T.Opt(T.Seq(Cb))},
    defaults={"callbacks": "None"},
    free=FREE, frame=["Callback"],
    locals={"global_callbacks": T.Bool, "G0": T.Bool},
    ensures=[("C05-scheduler-call-leaves-the-active-set-as-it-was", "Callback.active == old(Callback.active)")],
    raises=[("BaseException", "True", "whatever the body raised")],
    raises_post={"BaseException": [("C05-active-set-restored-when-the-scheduler-fails", "Callback.active == old(Callback.active)")]},
    ghost=[("after", "global_callbacks = callbacks is None", "G0 = global_callbacks")],
    note="`yield` = call of the assumed with-body contract; the yielded value (`callbacks or ()`) is not interpreted",
)

CONTRACTS = [add_init, add_exit, add_enter, cb_register, cb_unregister, cb_enter, cb_exit, exit_keeps_outer, yield_body, local_cbs]


def model_normalize(eng, st, node, want):
    """normalize_callback: Callback object -> its 5-tuple, tuple -> itself (TypeError otherwise: dropped)."""
    v = eng.ev(node.args[0], st)
    if v.ty == CbObj:
        return SV(CbObj.get(v.t, "_callback"), Cb)
    return v


def model_new_add_callbacks(eng, st, node, want):
    """add_callbacks(x): allocate the object, run __init__ through its contract."""
    obj = fresh(AddObj, "cm")
    tmp = f"__new_cm_{id(node)}"
    st.env[tmp] = obj
    args = [model_normalize(eng, st, ast.Call(func=ast.Name(id="normalize_callback", ctx=ast.Load()), args=[a], keywords=[]), None) for a in node.args]
    sty = T.Seq(Cb)
    arr = z3.K(z3.IntSort(), eng.default_of(Cb))
    for i, a in enumerate(args):
        arr = z3.Store(arr, i, a.t)
    st.env[tmp + "_args"] = SV(sty.mk(arr, z3.IntVal(len(args))), sty)
    call = ast.Call(func=ast.Name(id="__init__", ctx=ast.Load()), args=[ast.Name(id=tmp, ctx=ast.Load()), ast.Name(id=tmp + "_args", ctx=ast.Load())], keywords=[])
    ast.copy_location(call, node)
    ast.fix_missing_locations(call)
    eng.call_contract(add_init, call, st, None)
    res = st.env.pop(tmp)
    st.env.pop(tmp + "_args")
    return res


def method_via_contract(contract):
    def m(eng, st, base, node, lv):
        tmp = f"__self_{id(node)}"
        st.env[tmp] = base
        o = fresh(T.U("Opaque"), "o")
        st.env[tmp + "_o"] = o
        nargs = len(contract.params) - 1
        call = ast.Call(func=ast.Name(id="m", ctx=ast.Load()), args=[ast.Name(id=tmp, ctx=ast.Load())] + [ast.Name(id=tmp + "_o", ctx=ast.Load())] * nargs, keywords=[])
        ast.copy_location(call, node)
        ast.fix_missing_locations(call)
        r = eng.call_contract(contract, call, st, None)
        st.env.pop(tmp)
        st.env.pop(tmp + "_o")
        return r
    return m


def setup(eng):
    eng.consts["EMPTYCB"] = SV(SetCb.empty(), SetCb)
    eng.funcs["yield_body"] = FuncVal("yield_body", "contract", yield_body)
    eng.funcs["body_raises"] = FuncVal("body_raises", "uf", (z3.Function("body_raises", SetCb.sort(), z3.BoolSort()), T.Bool, [SetCb]))
    eng.spec_types["Cb"] = Cb
    eng.mutable_records.update({"CallbackCls", "add_callbacks_obj", "CallbackObj"})
    eng.funcs["normalize_callback"] = FuncVal("normalize_callback", "model", model_normalize)
    eng.funcs["add_callbacks"] = FuncVal("add_callbacks", "model", model_new_add_callbacks)
    eng.attr_models[("method", "add_callbacks_obj", "__enter__")] = method_via_contract(add_enter)
    eng.attr_models[("method", "add_callbacks_obj", "__exit__")] = method_via_contract(add_exit)
