"""Contracts for dask/local.py — the scheduler state machine (C01–C04).

Abstract state.  `K` (ghost) = keys reachable from the request, `D` ⊆ K the data nodes, tasks T = K \\ D.
`denote : Key -> Val` is the value a direct recursive evaluation of the graph gives.
WF(state, results, MID) is the representation invariant; MID is the set of running keys whose
result is already in the cache (∅ at the loop head, {key} between the cache store and finish_task).
"""
import z3

from vf import ty as T
from vf.core import SV, FuncVal
from vf.engine import Contract
from contracts.lemmas import LEMMA_FUNCS

MODULE = "dask/local.py"

Key = T.U("Key")
Val = T.U("Val")
Node = T.U("Node")
SetK = T.Set(Key)
MapKS = T.Map(Key, SetK)
Cache = T.Map(Key, Val)
StateT = T.Rec("State", {
    "dependencies": MapKS, "dependents": MapKS, "waiting": MapKS, "waiting_data": MapKS,
    "cache": Cache, "ready": T.Seq(Key), "running": SetK, "finished": SetK, "released": SetK,
})

denote = z3.Function("denote", Key.sort(), Val.sort())
isdata = z3.Function("isdata", Key.sort(), z3.BoolSort())
rank = z3.Function("rank", Key.sort(), z3.IntSort())


def WF(S="state", MID="EMPTY", R="results"):
    """Representation invariant, as labelled clauses of the contract language.
    K := dom(dependencies) (keys reachable from the request); D := {k in K | isdata(k)}."""
    Wd = f'{S}["waiting"].keys()'
    dep, dpt, wd = f'{S}["dependencies"]', f'{S}["dependents"]', f'{S}["waiting_data"]'
    fin, run, rel, ready, cache, wait = (f'{S}["finished"]', f'{S}["running"]', f'{S}["released"]', f'{S}["ready"]', f'{S}["cache"]', f'{S}["waiting"]')
    K = f"{dep}.keys()"
    inD = lambda v: f"({v} in {K} and isdata({v}))"  # noqa: E731
    inready = f"k in {ready}"
    return [
        ("W0-dom", f"{dpt}.keys() == {K} and {R} <= {K}"),
        ("W0-inverse", f"forall(lambda k, d: implies(k in {K} and d in {K}, (d in {dep}[k]) == (k in {dpt}[d])), Key, Key)"),
        ("W0-closed", f"forall(lambda k: implies(k in {K}, {dep}[k] <= {K} and {dpt}[k] <= {K}), Key)"),
        ("W0-data", f"forall(lambda k: implies({inD('k')}, {dep}[k] == EMPTY), Key)"),
        ("W1-cover", f"forall(lambda k: (k in {K} and not isdata(k)) == (k in {Wd} or {inready} or k in {run} or k in {fin}), Key)"),
        ("W1-disjoint", f"forall(lambda k: not (k in {Wd} and ({inready} or k in {run} or k in {fin})) and not ({inready} and (k in {run} or k in {fin})) and not (k in {run} and k in {fin}), Key)"),
        ("W1-ready-distinct", f"distinct({ready}) and len({ready}) >= 0"),
        ("W2-waiting", f"forall(lambda k, d: implies(k in {Wd}, (d in {wait}[k]) == (d in {dep}[k] and not isdata(d) and d not in {fin})), Key, Key)"),
        ("W2-nonempty", f"forall(lambda k: implies(k in {Wd}, {wait}[k] != EMPTY), Key)"),
        ("W3-runnable", f"forall(lambda k, d: implies(k in {K} and not isdata(k) and k not in {Wd} and d in {dep}[k], d in {fin} or isdata(d)), Key, Key)"),
        ("W4-waiting-data", f"forall(lambda d, k: implies(d in {wd}.keys(), (k in {wd}[d]) == (k in {dpt}[d] and k not in {fin})), Key, Key)"),
        ("W5-dom", f"{wd}.keys() <= {K} and {rel} <= {K} and forall(lambda d: implies(d in {K}, (d in {wd}.keys()) == (d not in {rel})), Key)"),
        ("W5-released", f"forall(lambda d: implies(d in {rel}, (d in {fin} or isdata(d)) and d not in {R}), Key)"),
        ("W5-held", f"forall(lambda d: implies(d in {K} and d not in {R} and (d in {fin} or isdata(d)) and d not in {rel}, {wd}[d] != EMPTY), Key)"),
        ("W6-needed", f"forall(lambda d: implies(d in {K} and d not in {R}, {dpt}[d] != EMPTY), Key)"),
        ("W8-released-done", f"forall(lambda d, k: implies(d in {rel} and k in {dpt}[d], k in {fin}), Key, Key)"),
        ("W7-cache-dom", f"forall(lambda k: (k in {cache}.keys()) == ((k in {fin} or {inD('k')} or k in {MID}) and k not in {rel}), Key)"),
        ("W7-cache-val", f"forall(lambda k: implies(k in {cache}.keys(), {cache}[k] == denote(k)), Key)"),
    ]


def FRAME(fields, S="state"):
    return [(f"frame-{f}", f'same({S}["{f}"], old({S}["{f}"]))') for f in fields]


ALL_FIELDS = ["dependencies", "dependents", "waiting", "waiting_data", "cache", "ready", "running", "finished", "released"]

release_data = Contract(
    MODULE, "release_data",
    params={"key": Key, "state": StateT, "delete": T.Bool},
    defaults={"delete": "True"},
    frame=["state"],
    requires=[
        ("delete", "delete"),
        ("cached", 'key in state["cache"].keys()'),
        ("no-waiters", 'implies(key in state["waiting_data"].keys(), state["waiting_data"][key] == EMPTY)'),
    ],
    ensures=[
        ("wd-dom", 'forall(lambda k: (k in state["waiting_data"].keys()) == (k in old(state["waiting_data"]).keys() and k != key), Key)'),
        ("wd-val", 'forall(lambda k: implies(k != key, state["waiting_data"][k] == old(state["waiting_data"])[k]), Key)'),
        ("released", 'state["released"] == old(state["released"]) | {key}'),
        ("cache-dom", 'forall(lambda k: (k in state["cache"].keys()) == (k in old(state["cache"]).keys() and k != key), Key)'),
        ("cache-val", 'forall(lambda k: implies(k != key, state["cache"][k] == old(state["cache"])[k]), Key)'),
    ] + FRAME(["dependencies", "dependents", "waiting", "ready", "running", "finished"]),
)

finish_task = Contract(
    MODULE, "finish_task",
    params={"dsk": T.Map(Key, Node), "key": Key, "state": StateT, "results": SetK, "sortkey": T.U("Fn"), "delete": T.Bool},
    defaults={"delete": "True"},
    frame=["state"],
    returns=StateT,
    requires=[("delete", "delete"), ("running", 'key in state["running"]')] + WF("state", "{key}"),
    ensures=WF("state", "EMPTY") + [
        ("finished", 'state["finished"] == old(state["finished"]) | {key}'),
        ("running", 'state["running"] == old(state["running"]) - {key}'),
        ("ready-prefix", 'len(state["ready"]) >= len(old(state["ready"])) and forall(lambda i: implies(0 <= i and i < len(old(state["ready"])), state["ready"][i] == old(state["ready"])[i]))'),
        ("returns-state", "result == state"),
    ] + FRAME(["dependencies", "dependents"]),
    loops={
        0: dict(
            done="DN",
            invariant=FRAME(["dependencies", "dependents", "waiting_data", "cache", "running", "finished", "released"]) + [
                ("wait-dom", 'forall(lambda k: (k in state["waiting"].keys()) == (k in old(state["waiting"]).keys() and not (k in DN and old(state["waiting"])[k] == {key})), Key)'),
                ("wait-val", 'forall(lambda k, d: implies(k in state["waiting"].keys(), (d in state["waiting"][k]) == (d in old(state["waiting"])[k] and not (k in DN and d == key))), Key, Key)'),
                ("ready-prefix", 'len(state["ready"]) >= len(old(state["ready"])) and forall(lambda i: implies(0 <= i and i < len(old(state["ready"])), state["ready"][i] == old(state["ready"])[i]))'),
                ("ready-set", 'forall(lambda k: (k in state["ready"]) == (k in old(state["ready"]) or (k in DN and old(state["waiting"])[k] == {key})), Key)'),
                ("ready-distinct", 'distinct(state["ready"])'),
            ],
        ),
        1: dict(
            done="DM",
            invariant=FRAME(["dependencies", "dependents", "running", "finished"]) + [
                ("wait-dom", 'forall(lambda k: (k in state["waiting"].keys()) == (k in old(state["waiting"]).keys() and not (k in old(state["dependents"])[key] and old(state["waiting"])[k] == {key})), Key)'),
                ("wait-val", 'forall(lambda k, d: implies(k in state["waiting"].keys(), (d in state["waiting"][k]) == (d in old(state["waiting"])[k] and not (k in old(state["dependents"])[key] and d == key))), Key, Key)'),
                ("ready-prefix", 'len(state["ready"]) >= len(old(state["ready"])) and forall(lambda i: implies(0 <= i and i < len(old(state["ready"])), state["ready"][i] == old(state["ready"])[i]))'),
                ("ready-set", 'forall(lambda k: (k in state["ready"]) == (k in old(state["ready"]) or (k in old(state["dependents"])[key] and old(state["waiting"])[k] == {key})), Key)'),
                ("ready-distinct", 'distinct(state["ready"])'),
                ("rel", 'forall(lambda d: (d in state["released"]) == (d in old(state["released"]) or (d in DM and old(state["waiting_data"])[d] == {key} and d not in results)), Key)'),
                ("wd-dom", 'forall(lambda d: (d in state["waiting_data"].keys()) == (d in old(state["waiting_data"]).keys() and d not in state["released"]), Key)'),
                ("wd-val", 'forall(lambda d, k: implies(d in state["waiting_data"].keys(), (k in state["waiting_data"][d]) == (k in old(state["waiting_data"])[d] and not (d in DM and k == key))), Key, Key)'),
                ("cache-dom", 'forall(lambda k: (k in state["cache"].keys()) == (k in old(state["cache"]).keys() and k not in state["released"]), Key)'),
                ("cache-val", 'forall(lambda k: implies(k in state["cache"].keys(), state["cache"][k] == old(state["cache"])[k]), Key)'),
            ],
        ),
    },
    note="parameters sortkey (only orders the iteration: modelled as arbitrary order) and release_data (default never overridden by get_async) are dropped",
)

Fn = T.U("Fn")
Blob = T.U("Blob")
ArgT = T.Tup(Key, Blob, Fn, Fn, Fn, Fn)
Future = T.U("Future")

# ---- assumed contract of the executor's submit(): the ghost in-flight set IF and ever-submitted set SUB
submit = Contract(
    MODULE, "submit", assumed=True,
    params={"fn": Fn, "batch": T.Seq(ArgT)},
    free={"IF": SetK, "SUB": SetK},
    frame=["IF", "SUB"],
    returns=Future,
    requires=[
        ("batch-nonempty", "len(batch) >= 1"),
        ("never-submitted-twice", "forall(lambda j: implies(0 <= j and j < len(batch), batch[j][0] not in SUB))"),
        ("batch-distinct", "forall(lambda i, j: implies(0 <= i and i < j and j < len(batch), batch[i][0] != batch[j][0]))"),
    ],
    ensures=[
        ("inflight-adds", "forall(lambda j: implies(0 <= j and j < len(batch), batch[j][0] in IF)) and old(IF) <= IF"),
        ("inflight-only", "forall(lambda k: implies(k in IF, k in old(IF) or exists(lambda j: 0 <= j and j < len(batch) and batch[j][0] == k)), Key)"),
        ("submitted-adds", "forall(lambda j: implies(0 <= j and j < len(batch), batch[j][0] in SUB)) and old(SUB) <= SUB"),
        ("submitted-only", "forall(lambda k: implies(k in SUB, k in old(SUB) or exists(lambda j: 0 <= j and j < len(batch) and batch[j][0] == k)), Key)"),
    ],
    note="ASSUMED: concurrent.futures submit hands the batch to a worker exactly once",
)

FREE_FT = {"state": StateT, "num_workers": T.Int, "pretask_cbs": T.Seq(Fn), "dsk": T.Map(Key, Node), "dumps": Fn, "loads": Fn,
           "get_id": Fn, "pack_exception": Fn, "queue": T.U("Queue"), "IF": SetK, "SUB": SetK, "results": SetK}

GRAPH = [
    ("acyclic", 'forall(lambda k, d: implies(k in state["dependencies"].keys() and d in state["dependencies"][k], rank(d) < rank(k) and rank(d) >= 0), Key, Key)'),
    ("dsk-covers-tasks", 'forall(lambda k: implies(k in state["dependencies"].keys() and not isdata(k), k in dsk.keys()), Key)'),
]
GHOST_INV = [
    ("inflight-is-running", 'IF == state["running"]'),
    ("submitted-once", 'SUB == state["running"] | state["finished"]'),
]

fire_tasks = Contract(
    MODULE, "get_async.fire_tasks",
    params={"chunksize": T.Int},
    free=FREE_FT,
    locals={"args": T.Seq(ArgT), "data": Cache, "akeys": T.Seq(Key)},
    frame=["state", "IF", "SUB"],
    requires=[("workers", "num_workers >= 1"), ("chunksize", "chunksize >= 1 or chunksize == -1")] + WF("state", "EMPTY") + GRAPH + GHOST_INV,
    ensures=WF("state", "EMPTY") + GHOST_INV + FRAME(["dependencies", "dependents", "waiting", "waiting_data", "cache", "finished", "released"]) + [
        ("running-grows", 'old(state["running"]) <= state["running"]'),
        ("ready-shrinks", 'len(state["ready"]) <= len(old(state["ready"]))'),
        ("progress", 'implies(len(old(state["ready"])) >= 1 and old(state["running"]) == EMPTY, state["running"] != EMPTY)'),
    ],
    loops={
        0: dict(
            index="n",
            invariant=WF("state", "EMPTY") + FRAME(["dependencies", "dependents", "waiting", "waiting_data", "cache", "finished", "released"]) + [
                ("IF-same", "IF == old(IF) and SUB == old(SUB)"),
                ("len-args", "len(args) == n and len(akeys) == n and n >= 0"),
                ("ready-len", 'len(state["ready"]) == len(old(state["ready"])) - n'),
                ("akeys", "forall(lambda j: implies(0 <= j and j < len(args), args[j][0] == akeys[j]))"),
                ("akeys-distinct", "distinct(akeys)"),
                ("akeys-fresh", 'forall(lambda k: implies(k in akeys, k not in old(state["running"])), Key)'),
                ("running", 'state["running"] == old(state["running"]) | set(akeys)'),
            ],
        ),
        1: dict(invariant=[]),  # for f in pretask_cbs: user callbacks, assumed not to touch scheduler state
        2: dict(
            index="b",
            invariant=[
                ("b", "b >= 0"),
                ("IF-in", "forall(lambda j: implies(0 <= j and j < len(args), (akeys[j] in IF) == (j < b * chunksize)))"),
                ("IF-out", "forall(lambda k: implies(k not in akeys, (k in IF) == (k in old(IF))), Key)"),
                ("SUB-in", "forall(lambda j: implies(0 <= j and j < len(args), (akeys[j] in SUB) == (j < b * chunksize)))"),
                ("SUB-out", "forall(lambda k: implies(k not in akeys, (k in SUB) == (k in old(SUB))), Key)"),
            ],
        ),
    },
    ghost=[
        ("entry", "", "akeys = []"),
        ("after", "args.append(", "akeys.append(key)"),
        ("after", "data = ", 'assert_(data.keys() == state["dependencies"][key], "data-has-exactly-the-dependencies")\nassert_(forall(lambda d: implies(d in data.keys(), data[d] == denote(d)), Key), "task-receives-the-values-of-its-dependencies")'),
        ("exit", "", 'assert_(implies(len(akeys) >= 1, akeys[0] in akeys), "first-popped-is-running")'),
        ("before", "for i in range(-(len(args)", "lemma_ceil_div(len(args), chunksize)"),
        ("after", "used_workers = ", 'lemma_ceil_div(len(state["running"]), chunksize)'),
    ],
)

import os as _os

_LEM = _os.path.join(_os.path.dirname(_os.path.dirname(_os.path.abspath(__file__))), "lemmas", "sched_lemmas.py")

no_deadlock = Contract(
    _LEM, "lemma_no_deadlock",
    params={"state": StateT, "k0": Key},
    free={"results": SetK},
    locals={"k": Key, "d": Key},
    requires=WF("state", "EMPTY") + [GRAPH[0],
        ("nothing-ready", 'len(state["ready"]) == 0'), ("nothing-running", 'state["running"] == EMPTY'),
        ("k0-waits", 'k0 in state["waiting"].keys()')],
    ensures=[("contradiction", "False")],
    loops={0: dict(invariant=[("k-waits", 'k in state["waiting"].keys()')], decreases="rank(k)")},
    exit_unreachable=True,
    note="no-deadlock by infinite descent on the acyclicity rank",
)

OptFn = T.Opt(Fn)
CbT = T.Tup(OptFn, OptFn, OptFn, OptFn, OptFn)
KeyList = T.U("KeyList")
Request = T.Union("Request", {"key": Key, "lst": KeyList}, classes={"list": ["lst"]})
ResT = T.Tup(Key, Blob, T.Bool)
leaves = z3.Function("leaves", Request.sort(), SetK.sort())
payload = z3.Function("payload", Blob.sort(), Val.sort())
packv = z3.Function("packv", Request.sort(), Cache.sort(), Val.sort())
result_raises = z3.Function("result_raises", SetK.sort(), z3.BoolSort())

node_deps = z3.Function("node_deps", Node.sort(), SetK.sort())
node_isdata = z3.Function("node_isdata", Node.sort(), z3.BoolSort())
node_value = z3.Function("node_value", Node.sort(), Val.sort())

# the graph handed to the scheduler, as seen through the node accessors (task-spec form)
DSK = [
    ("dsk-closed", "forall(lambda k: implies(k in dsk.keys(), node_deps(dsk[k]) <= dsk.keys()), Key)"),
    ("dsk-isdata", "forall(lambda k: implies(k in dsk.keys(), isdata(k) == node_isdata(dsk[k])), Key)"),
    ("dsk-data-nodes-have-no-dependencies", "forall(lambda k: implies(k in dsk.keys() and isdata(k), node_deps(dsk[k]) == EMPTY), Key)"),
    ("dsk-denote-data", "forall(lambda k: implies(k in dsk.keys() and isdata(k), denote(k) == node_value(dsk[k])), Key)"),
    ("dsk-acyclic", "forall(lambda k, d: implies(k in dsk.keys() and d in node_deps(dsk[k]), rank(d) < rank(k) and rank(d) >= 0), Key, Key)"),
    ("keys-in-graph", "keys <= dsk.keys()"),
]

_DEPS = "(EMPTY if isdata(k) else node_deps(dsk[k]))"
SS_INV = [
    ("seen-in-graph", "seen <= dsk.keys() and forall(lambda j: implies(0 <= j and j < len(stack), stack[j] in dsk.keys())) and len(stack) >= 0"),
    ("doms", "dependencies.keys() == seen and dependents.keys() == waiting_data.keys() and seen <= dependents.keys()"),
    ("touched-are-pending", "forall(lambda d: implies(d in dependents.keys(), d in seen or d in stack), Key)"),
    ("dependencies", f"forall(lambda k: implies(k in seen, dependencies[k] == {_DEPS}), Key)"),
    ("dependents", "forall(lambda d, k: implies(d in dependents.keys(), (k in dependents[d]) == (k in seen and not isdata(k) and d in node_deps(dsk[k]))), Key, Key)"),
    ("waiting-data", "forall(lambda d, k: implies(d in waiting_data.keys(), (k in waiting_data[d]) == (k in seen and not isdata(k) and d in node_deps(dsk[k]))), Key, Key)"),
    ("cache-dom", "forall(lambda k: (k in cache.keys()) == (k in seen and isdata(k)), Key)"),
    ("cache-val", "forall(lambda k: implies(k in cache.keys(), cache[k] == denote(k)), Key)"),
    ("waiting-dom", "forall(lambda k: (k in waiting.keys()) == (k in seen and not isdata(k) and exists(lambda d: d in node_deps(dsk[k]) and d not in cache.keys(), Key)), Key)"),
    ("waiting-val", "forall(lambda k, d: implies(k in waiting.keys(), (d in waiting[k]) == (d in node_deps(dsk[k]) and d not in cache.keys())), Key, Key)"),
    ("ready", "forall(lambda k: (k in ready_set) == (k in seen and not isdata(k) and forall(lambda d: implies(d in node_deps(dsk[k]), d in cache.keys()), Key)), Key)"),
    ("deps-touched", "forall(lambda k, d: implies(k in seen and not isdata(k) and d in node_deps(dsk[k]), d in dependents.keys()), Key, Key)"),
    ("deps-pending", "forall(lambda k, d: implies(k in seen and not isdata(k) and d in node_deps(dsk[k]), d in seen or d in stack), Key, Key)"),
    ("requested-pending", "forall(lambda k: implies(k in keys, k in seen or k in stack), Key)"),
    ("needed", "forall(lambda d: implies(d in dependents.keys() and d not in keys, dependents[d] != EMPTY), Key)"),
    ("pending-are-touched-or-requested", "forall(lambda j: implies(0 <= j and j < len(stack), stack[j] in keys or stack[j] in dependents.keys()))"),
]

start_state = Contract(
    MODULE, "start_state_from_dask",
    params={"dsk": T.Map(Key, Node), "cache": T.Opt(Cache), "sortkey": Fn, "keys": SetK},
    locals={"stack": T.Seq(Key), "dependencies": MapKS, "dependents": MapKS, "waiting": MapKS, "waiting_data": MapKS, "ready_set": SetK,
            "seen": SetK, "task": T.Opt(Node), "_wait": SetK, "ready": T.Seq(Key), "state": StateT, "key": Key},
    returns=StateT,
    requires=[("cache-empty", "cache is None")] + DSK,
    ensures=[(l, c.replace("state", "result").replace("results", "keys")) for l, c in WF("state", "EMPTY") + GRAPH] + [
        ("fresh", 'result["running"] == EMPTY and result["finished"] == EMPTY and result["released"] == EMPTY'),
        ("C02-exactly-the-needed-keys", 'keys <= result["dependencies"].keys() and forall(lambda k, d: implies(k in result["dependencies"].keys() and d in result["dependencies"][k], d in result["dependencies"].keys()), Key, Key)'),
    ],
    raises=[("ValueError", "False", "missing-dependency: unreachable for a closed graph")],
    loops={
        0: dict(invariant=SS_INV),
        1: dict(done="DD", invariant=[  # DataNode branch: fix up dependents that were processed before this data node
            ("frame", "same(dependencies, dependencies0) and same(dependents, dependents0) and same(waiting_data, waiting_data0) and same(cache, cache0) and same(seen, seen0) and same(stack, stack0)"),
            ("waiting-dom", "forall(lambda k: (k in waiting.keys()) == (k in waiting0.keys() and not (k in DD and waiting0[k] == {key})), Key)"),
            ("waiting-val", "forall(lambda k, d: implies(k in waiting.keys(), (d in waiting[k]) == (d in waiting0[k] and not (k in DD and d == key))), Key, Key)"),
            ("ready", "forall(lambda k: (k in ready_set) == (k in ready0 or (k in DD and (k not in waiting0.keys() or waiting0[k] == {key}))), Key)"),
        ]),
        2: dict(done="DT", invariant=[  # task branch: record the edges of `key`
            ("frame", "same(waiting, waiting1) and same(cache, cache0) and same(seen, seen0) and same(ready_set, ready1)"),
            ("dependencies", "forall(lambda k: implies(k in dependencies.keys() and k != key, dependencies[k] == dependencies0[k]), Key) and dependencies.keys() == dependencies0.keys() and dependencies[key] == DT"),
            ("dependents-dom", "forall(lambda d: (d in dependents.keys()) == (d in dependents0.keys() or d in DT), Key) and dependents.keys() == waiting_data.keys()"),
            ("dependents", "forall(lambda d, k: implies(d in dependents.keys(), (k in dependents[d]) == ((d in dependents0.keys() and k in dependents0[d]) or (k == key and d in DT))), Key, Key)"),
            ("waiting-data", "forall(lambda d, k: implies(d in waiting_data.keys(), (k in waiting_data[d]) == ((d in waiting_data0.keys() and k in waiting_data0[d]) or (k == key and d in DT))), Key, Key)"),
            ("stack", "len(stack) >= len(stack0) and forall(lambda j: implies(0 <= j and j < len(stack0), stack[j] == stack0[j])) and forall(lambda j: implies(len(stack0) <= j and j < len(stack), stack[j] in DT)) and forall(lambda d: implies(d in DT, d in stack), Key)"),
        ]),
    },
    ghost=[
        ("before", "stack = list(keys)", "cache = EMPTYCACHE"),
        ("before", "for d in dependents[key]", "dependencies0 = dependencies\ndependents0 = dependents\nwaiting_data0 = waiting_data\ncache0 = cache\nseen0 = seen\nstack0 = stack\nwaiting0 = waiting\nready0 = ready_set"),
        ("before", "for dep in task.dependencies", "dependencies0 = dependencies\ndependents0 = dependents\nwaiting_data0 = waiting_data\ncache0 = cache\nseen0 = seen\nstack0 = stack\nwaiting1 = waiting\nready1 = ready_set"),
    ],
    drop=["if sortkey is None", "if cache is None", "if keys is None", "dsk = convert_legacy_graph("],
    note="dropped: defaulting of sortkey/cache/keys (get_async always passes them; cache=None is the precondition) and the second convert_legacy_graph (identity on task-spec graphs, C08)",
)
for _n in ("dependencies0", "dependents0", "waiting_data0", "waiting0", "waiting1"):
    start_state.locals[_n] = MapKS
for _n in ("seen0", "ready0", "ready1"):
    start_state.locals[_n] = SetK
start_state.locals["cache0"] = Cache
start_state.locals["stack0"] = T.Seq(Key)

queue_result = Contract(
    MODULE, "queue_get_result", assumed=True,
    params={},
    free={"IF": SetK},
    frame=["IF"],
    returns=T.Seq(ResT),
    requires=[("something-in-flight (otherwise the scheduler blocks forever)", "IF != EMPTY")],
    ensures=[
        ("nonempty", "len(result) >= 1"),
        ("was-in-flight", "forall(lambda j: implies(0 <= j and j < len(result), result[j][0] in old(IF) and result[j][0] not in IF))"),
        ("distinct", "forall(lambda i, j: implies(0 <= i and i < j and j < len(result), result[i][0] != result[j][0]))"),
        ("IF-shrinks", "forall(lambda k: (k in IF) == (k in old(IF) and not exists(lambda j: 0 <= j and j < len(result) and result[j][0] == k)), Key)"),
        ("value", "forall(lambda j: implies(0 <= j and j < len(result) and not result[j][2], payload(result[j][1]) == denote(result[j][0])))"),
    ],
    raises=[("TaskError", "result_raises(IF)", "worker-raised")],
    note="ASSUMED contract of queue_get(queue).result(): returns the results of SOME in-flight batch (any interleaving, any worker count); a task executed on the values of its dependencies yields denote(key)",
)

nested_get = Contract(
    MODULE, "nested_get", assumed=True,
    params={"ind": Request, "coll": Cache},
    returns=Val,
    requires=[("leaves-present", "leaves(ind) <= coll.keys()")],
    ensures=[("packed", "result == packv(ind, coll)")],
    note="bounded natively (recursive over dynamically typed nesting)",
)

get_async = Contract(
    MODULE, "get_async",
    params={"submit": Fn, "num_workers": T.Int, "dsk": T.Map(Key, Node), "result": Request, "cache": T.Opt(Cache), "get_id": Fn,
            "rerun_exceptions_locally": T.Opt(T.Bool), "pack_exception": Fn, "raise_exception": Fn, "callbacks": T.U("CallbacksArg"),
            "dumps": Fn, "loads": Fn, "chunksize": T.Opt(T.Int)},
    locals={"result_flat": SetK, "results": SetK, "started_cbs": T.Seq(CbT), "state": StateT, "IF": SetK, "SUB": SetK, "n_started": T.Int},
    returns=Val,
    requires=[
        ("workers", "num_workers >= 1"),
        ("chunksize", "chunksize is None or chunksize >= 1 or chunksize == -1 or chunksize == 0"),
        ("cache-empty", "cache is None"),
        ("no-local-rerun", "rerun_exceptions_locally is not None and not rerun_exceptions_locally"),
    ] + [(l, c.replace("keys <=", "leaves(result) <=")) for l, c in DSK],
    ensures=[
        ("C01-value", 'result == packv(old(result), state["cache"])'),
        ("C01-values-are-denotations", 'forall(lambda k: implies(k in leaves(old(result)), k in state["cache"].keys() and state["cache"][k] == denote(k)), Key)'),
        ("C02-all-needed-ran-once", 'SUB == state["finished"] and forall(lambda k: (k in SUB) == (k in state["dependencies"].keys() and not isdata(k)), Key)'),
        ("C03-nothing-leaked", 'forall(lambda k: implies(k in state["cache"].keys(), k in leaves(old(result))), Key)'),
    ],
    raises=[("ValueError", "True", "bad-graph"), ("TaskError", "True", "task-failed"), ("CallbackError", "True", "a start callback raised")],
    raises_post={"CallbackError": [
        ("C05-every-callback-whose-start-returned-gets-its-finish", "len(started_cbs) == n_started"),
        ("C05-failure-flag", "not succeeded"),
    ], "TaskError": [
        ("C04-started-tasks-are-exactly-running-or-finished", 'SUB == state["running"] | state["finished"]'),
        ("C04-no-dependent-of-an-unfinished-task-ever-started", 'forall(lambda k, d: implies((k in state["running"] or k in state["finished"]) and d in state["dependencies"][k], d in state["finished"] or isdata(d)), Key, Key)'),
        ("C04-not-marked-succeeded", "not succeeded"),
        ("C05-every-started-callback-gets-its-finish", "len(started_cbs) == n_started"),
    ]},
    loops={
        0: dict(index="c0", end=["n_started = n_started + 1"],  # start callbacks
                invariant=[("C05-started-callbacks-recorded", "len(started_cbs) == n_started and n_started == c0 and forall(lambda j: implies(0 <= j and j < c0, started_cbs[j] == callbacks[j]))")]),
        1: dict(invariant=[]),  # start_state callbacks
        2: dict(  # main loop
            invariant=WF("state", "EMPTY") + GRAPH + GHOST_INV + [("not-succeeded", "not succeeded")],
        ),
        3: dict(  # results of one batch
            index="j", seq="batch",
            invariant=WF("state", "EMPTY") + GRAPH + [
                ("not-succeeded", "not succeeded"),
                ("running", 'forall(lambda k: (k in state["running"]) == (k in IF or exists(lambda i: j <= i and i < len(batch) and batch[i][0] == k)), Key)'),
                ("submitted-once", 'SUB == state["running"] | state["finished"]'),
            ],
        ),
        4: dict(invariant=[]),  # posttask callbacks
        5: dict(invariant=[]),  # finish callbacks
    },
    ghost=[
        ("before", "state = {}", "IF = EMPTY\nSUB = EMPTY\nstate = STATE0\nn_started = 0"),
        ("before", "if finish:", 'assert_(exiting_by_exception == (not succeeded), "C04-finish-callbacks-get-the-failure-flag")'),
        ("before", "for key, res_info, failed in", 'if len(state["ready"]) == 0 and state["running"] == EMPTY:\n    lemma_no_deadlock(state, pick(state["waiting"].keys()))'),
    ],
    drop=["state = {}"],
    note="dropped: the rerun_exceptions_locally branch (precondition), the Windows queue_get polling variant",
)

execute_task = Contract(
    MODULE, "execute_task",
    params={"key": Key, "task_info": Blob, "dumps": Fn, "loads": Fn, "get_id": Fn, "pack_exception": Fn},
    locals={"failed": T.Bool},
    returns=T.Tup(Key, Blob, T.Bool),
    requires=[],
    ensures=[
        ("C04-reports-its-key", "result[0] == key"),
        ("C04-failure-flag-iff-the-task-raised", "result[2] == task_raised"),
    ],
    raises=[("BaseException", "True", "only when packing the exception itself raises")],
    raises_post={"BaseException": [("C04-only-pack_exception-may-escape (every task exception, BaseException included, is caught and packed)", "pack_exception_raised")]},
    ghost=[("entry", "", "task_raised = False\npack_exception_raised = False")],
    note="the task is an opaque callable that may raise ANY BaseException subclass; pack_exception may re-raise (default_pack_exception does)",
)

CONTRACTS = [release_data, finish_task, submit, fire_tasks, no_deadlock, start_state, queue_result, nested_get, get_async, execute_task]


def setup(eng):
    eng.consts["EMPTY"] = SV(SetK.empty(), SetK)
    eng.consts["EMPTYCACHE"] = SV(Cache.mk(SetK.empty(), z3.K(Key.sort(), z3.Const("dflt_Val", Val.sort()))), Cache)
    eng.funcs["node_deps"] = FuncVal("node_deps", "uf", (node_deps, SetK, [Node]))
    eng.funcs["node_isdata"] = FuncVal("node_isdata", "uf", (node_isdata, T.Bool, [Node]))
    eng.funcs["node_value"] = FuncVal("node_value", "uf", (node_value, Val, [Node]))
    eng.isinstance_dynamic[("Node", "DataNode")] = lambda sv: node_isdata(sv.t)
    eng.attr_models[("attr", "Node", "dependencies")] = lambda eng_, st, base, node: SV(node_deps(base.t), SetK)
    eng.attr_models[("attr", "Opt<Node>", "dependencies")] = lambda eng_, st, base, node: SV(node_deps(base.ty.val(base.t)), SetK)
    eng.callable_sorts["Opt<Node>"] = lambda eng_, st, fv, node, want: SV(node_value(fv.ty.val(fv.t)), Val)
    eng.funcs["defaultdict"] = FuncVal("defaultdict", "model", lambda e, st, node, want: e.bi_dict(ast_call_dict(), st, want))
    eng.defaultdicts = {("dependencies", ()), ("dependents", ()), ("waiting", ()), ("waiting_data", ())}
    eng.consts["STATE0"] = SV(z3.Const("STATE0", StateT.sort()), StateT)  # stands for the `{}` placeholder
    eng.spec_types["Key"] = Key
    eng.funcs["isdata"] = FuncVal("isdata", "uf", (isdata, T.Bool, [Key]))
    eng.funcs["rank"] = FuncVal("rank", "uf", (rank, T.Int, [Key]))
    eng.funcs["denote"] = FuncVal("denote", "uf", (denote, Val, [Key]))
    eng.funcs["release_data"] = FuncVal("release_data", "contract", release_data)
    eng.funcs["finish_task"] = FuncVal("finish_task", "contract", finish_task)
    eng.mutable_records.add("State")
    eng.always_truthy.update({"Fn", "Future", "Queue", "KeyOrder"})  # callables and plain objects are truthy
    eng.nullable_sorts.add("Val")  # task results and literal data are arbitrary Python objects, None included
    eng.spec_types["Key"] = Key
    eng.funcs.update(LEMMA_FUNCS)
    eng.uninterp_divmod = True
    eng.funcs["submit"] = FuncVal("submit", "contract", submit)
    eng.funcs["batch_execute_tasks"] = FuncVal("batch_execute_tasks", "opaque")
    eng.callable_sorts["Fn"] = call_fn
    eng.callable_sorts["Opt<Fn>"] = call_fn
    eng.callable_sorts["Val"] = call_task
    eng.funcs["config.get"] = FuncVal("config.get", "model", model_config_get)
    eng.funcs["flatten"] = FuncVal("flatten", "model", model_flatten)
    eng.funcs["Queue"] = FuncVal("Queue", "model", model_opaque(T.U("Queue"), "queue"))
    eng.funcs["order"] = FuncVal("order", "model", model_opaque(T.U("KeyOrder"), "keyorder"))
    eng.funcs["convert_legacy_graph"] = FuncVal("convert_legacy_graph", "model", model_identity_graph)
    eng.funcs["unpack_callbacks"] = FuncVal("unpack_callbacks", "model", model_opaque(T.Tup(*[T.Seq(Fn)] * 5), "cbs"))
    eng.funcs["queue_get"] = FuncVal("queue_get", "model", model_queue_get)
    eng.funcs["start_state_from_dask"] = FuncVal("start_state_from_dask", "contract", start_state)
    eng.funcs["nested_get"] = FuncVal("nested_get", "contract", nested_get)
    eng.funcs["no_deadlock"] = FuncVal("lemma_no_deadlock", "contract", no_deadlock)
    eng.funcs["lemma_no_deadlock"] = eng.funcs["no_deadlock"]
    eng.funcs["leaves"] = FuncVal("leaves", "uf", (leaves, SetK, [Request]))
    eng.funcs["payload"] = FuncVal("payload", "uf", (payload, Val, [Blob]))
    eng.funcs["packv"] = FuncVal("packv", "uf", (packv, Val, [Request, Cache]))
    eng.funcs["result_raises"] = FuncVal("result_raises", "uf", (result_raises, T.Bool, [SetK]))
    eng.funcs["missing_dependency"] = FuncVal("missing_dependency", "uf", (z3.Function("missing_dependency", T.Map(Key, Node).sort(), SetK.sort(), z3.BoolSort()), T.Bool, [T.Map(Key, Node), SetK]))
    eng.attr_models[("attr", "KeyOrder", "get")] = lambda eng_, st, base, node: __import__("vf.core", fromlist=["fresh"]).fresh(Fn, "sortkey")
    eng.attr_models[("method", "DoneFuture", "result")] = model_result
    eng.context_managers = {"local_callbacks": (cm_enter, cm_exit)}
    eng.isinstance_static[("Map<Key,Node>", "Mapping")] = True
    r_ = z3.Const("r", Request.sort())
    eng.axioms.append(z3.ForAll([r_], z3.Implies(Request.is_("key", r_), leaves(r_) == z3.Store(SetK.empty(), Request.proj("key", r_), True)), patterns=[leaves(r_)]))
    eng.attr_models[("method", "Future", "add_done_callback")] = lambda eng_, st, base, node, lv: SV(T.NoneT.value(), T.NoneT)


def model_config_get(eng, st, node, want):
    """ASSUMED: dask.config holds a positive int (or -1) for 'chunksize' and a bool for 'rerun_exceptions_locally'."""
    from vf.core import fresh
    key = node.args[0].value
    if key == "chunksize":
        c = fresh(T.Int, "cfg_chunksize")
        st.assume(z3.Or(c.t >= 1, c.t == -1))
        return c
    if key == "rerun_exceptions_locally":
        return SV(z3.BoolVal(False), T.Bool)
    return fresh(T.U("Opaque"), "cfg")


def model_flatten(eng, st, node, want):
    from vf.core import fresh
    r = eng.ev(node.args[0], st)
    s_ = fresh(T.Seq(Key), "flat")
    st.assume(eng.elems(s_).t == leaves(r.t))
    st.assume(T.Seq(Key).len(s_.t) >= 0)
    return s_


def model_opaque(ty, hint):
    def m(eng, st, node, want):
        from vf.core import fresh
        for a in node.args:
            eng.ev(a, st)
        return fresh(ty, hint)
    return m


def model_identity_graph(eng, st, node, want):
    """ASSUMED: convert_legacy_graph is the identity on a graph that is already in task-spec form (C08 covers conversion)."""
    return eng.ev(node.args[0], st)


def model_queue_get(eng, st, node, want):
    from vf.core import fresh
    return fresh(T.U("DoneFuture"), "done")


def model_result(eng, st, base, node, lv):
    import ast
    call = ast.Call(func=ast.Name(id="queue_get_result", ctx=ast.Load()), args=[], keywords=[])
    ast.copy_location(call, node)
    return eng.call_contract(queue_result, call, st, None)


def cm_enter(eng, st, ce):
    from vf.core import fresh
    cbs = fresh(T.Seq(CbT), "callbacks")
    st.assume(T.Seq(CbT).len(cbs.t) >= 0)
    return cbs


def cm_exit(eng, st, kind):
    pass


def ast_call_dict():
    import ast
    return ast.Call(func=ast.Name(id="dict", ctx=ast.Load()), args=[], keywords=[])


def call_task(eng, st, fv, node, want):
    """task(data): an opaque user callable; it returns a value or raises any BaseException subclass."""
    from vf.core import Outcome, fresh, fresh_name
    for a in node.args:
        eng.ev(a, st)
    r = z3.Bool(fresh_name("task_raises"))
    rs = st.copy()
    rs.assume(r)
    rs.env["task_raised"] = SV(z3.BoolVal(True), T.Bool)
    eng.pending_raises.append(Outcome("raise", rs, fresh(T.U("Exc"), "exc"), "BaseException"))
    st.assume(z3.Not(r))
    return fresh(Val, "task_result")


def call_fn(eng, st, fv, node, want):
    """A user-supplied callable (dumps/loads/get_id/callbacks): assumed not to touch scheduler
    state; its result is an opaque value."""
    import ast
    from vf.core import fresh
    name = ast.unparse(node.func)
    for a in node.args:
        eng.ev(a, st)
    if name == "raise_exception":
        # reraise(exc, tb): always raises the task's exception object
        from vf.core import Outcome
        eng.pending_raises.append(Outcome("raise", st.copy(), None, "TaskError"))
        st.assume(z3.BoolVal(False))
        return fresh(T.U("Opaque"), "never")
    if name in ("cb[0]", "start_state"):
        # a user start / start_state callback may raise: both outcomes are explored
        from vf.core import Outcome
        raised = z3.Bool(fresh_name := __import__("vf.core", fromlist=["fresh_name"]).fresh_name("cb_raises"))
        rs = st.copy()
        rs.assume(raised)
        eng.pending_raises.append(Outcome("raise", rs, None, "CallbackError"))
        st.assume(z3.Not(raised))
    if name == "pack_exception":
        from vf.core import Outcome
        esc = z3.Bool(__import__("vf.core", fromlist=["fresh_name"]).fresh_name("pack_raises"))
        rs = st.copy()
        rs.assume(esc)
        rs.env["pack_exception_raised"] = SV(z3.BoolVal(True), T.Bool)
        eng.pending_raises.append(Outcome("raise", rs, None, "BaseException"))
        st.assume(z3.Not(esc))
        return fresh(Blob, "packed")
    if name == "loads":
        a = eng.ev(node.args[0], st)
        tt = T.Tup(Val, T.U("Opaque"))
        o = fresh(T.U("Opaque"), "aux")
        return SV(tt.mk(payload(a.t), o.t), tt)
    ret = {"dumps": Blob}.get(name, T.U("Opaque"))
    return fresh(ret, name + "_ret")
