"""Contracts for dask/dataframe/dask_expr/_repartition.py (C44): partition-boundary arithmetic.

The module cannot be imported here (pyarrow is missing): the verified text is the AST of the
source file; E2 executes the extracted functions with `exec`.
"""
from vf import ty as T
from vf.engine import Contract
from contracts.lemmas import LEMMA_FUNCS

MODULE = "dask/dataframe/dask_expr/_repartition.py"
SI = T.Seq(T.Int)

clean = Contract(
    MODULE, "_clean_new_division_boundaries",
    params={"new_partitions_boundaries": SI, "frame_npartitions": T.Int},
    returns=SI,
    requires=[("nonempty", "len(new_partitions_boundaries) >= 1")],
    ensures=[
        ("starts-at-zero", "implies(old(new_partitions_boundaries)[0] >= 0 and (len(old(new_partitions_boundaries)) >= 2 or old(new_partitions_boundaries)[0] > 0), result[0] == 0)"),
        ("ends-at-npartitions", "result[len(result) - 1] == max(old(new_partitions_boundaries)[len(old(new_partitions_boundaries)) - 1], frame_npartitions)"),
        ("length", "len(result) == len(old(new_partitions_boundaries)) + (1 if old(new_partitions_boundaries)[0] > 0 else 0)"),
        ("interior-kept", "implies(old(new_partitions_boundaries)[0] <= 0, all(result[i] == old(new_partitions_boundaries)[i] for i in range(len(result) - 1)))"),
    ],
)

compute_boundaries = Contract(
    MODULE, "RepartitionToFewer._compute_partition_boundaries",
    params={"n_new_partitions": T.Int, "n_old_partitions": T.Int},
    locals={"npartitions_ratio": T.Real, "new_partitions_boundaries": SI},
    returns=SI,
    requires=[("fewer", "1 <= n_new_partitions and n_new_partitions < n_old_partitions"), ("machine-range", "n_old_partitions < 2147483648")],
    ensures=[
        ("C44-npartitions", "len(result) == n_new_partitions + 1"),
        ("C44-starts-at-first", "result[0] == 0"),
        ("C44-ends-at-last", "result[n_new_partitions] == n_old_partitions"),
        ("C44-in-range", "all(0 <= result[i] and result[i] <= n_old_partitions for i in range(len(result)))"),
        ("C44-order-preserved", "all(result[i] <= result[i + 1] for i in range(n_new_partitions))"),
    ],
    ghost=[("after", "npartitions_ratio = n_old_partitions / n_new_partitions",
            'assert_(npartitions_ratio >= 1, "ratio-at-least-one (rounding does not cross the integer 1)")\n'
            'assert_(npartitions_ratio * n_new_partitions <= n_old_partitions + 1, "ratio-times-count-bounded")\n'
            'assert_(all(k * npartitions_ratio <= n_old_partitions + 2 and k * npartitions_ratio >= 0 for k in range(n_new_partitions + 1)), "every-product-in-the-exact-integer-range")')],
    note="float arithmetic under the explicit rounding model (2**-53 relative error per operation, integers exact)",
)

RepFrame = T.Rec("Frame", {"npartitions": T.Int})
RepMore = T.Rec("RepartitionToMore", {"frame": RepFrame, "new_partitions": T.Int})

nsplits = Contract(
    MODULE, "RepartitionToMore._nsplits",
    params={"self": RepMore},
    locals={"nsplits": SI},
    returns=SI,
    requires=[("more", "self.frame.npartitions >= 1 and self.new_partitions >= self.frame.npartitions")],
    ensures=[
        ("C44-one-entry-per-input-partition", "len(result) == self.frame.npartitions"),
        ("C44-npartitions", "sum(result) == self.new_partitions"),
        ("C44-every-input-partition-is-kept", "all(result[i] >= 1 for i in range(len(result)))"),
    ],
    ghost=[
        ("after", "div, mod = divmod(", "lemma_divmod(self.new_partitions, self.frame.npartitions)"),
        ("after", "nsplits = [div]", "lemma_psum_const(nsplits, len(nsplits) - 1, div)\nassert_(psum(nsplits, len(nsplits)) == psum(nsplits, len(nsplits) - 1) + nsplits[len(nsplits) - 1], 'unfold-last')"),
        ("after", "nsplits[-1] += mod", "assert_(psum(nsplits, len(nsplits)) == div * (len(nsplits) - 1) + div + mod, 'sum')"),
    ],
    drop=["if len(nsplits) != df.npartitions"],
)

CONTRACTS = [clean, compute_boundaries, nsplits]


def setup(eng):
    from vf.core import FuncVal
    eng.funcs.update(LEMMA_FUNCS)
    eng.funcs["_clean_new_division_boundaries"] = FuncVal("_clean_new_division_boundaries", "contract", clean)
    eng.isinstance_static[("Seq<Int>", "list")] = True
    eng.uninterp_divmod = True
