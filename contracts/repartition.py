"""Contracts for dask/dataframe/dask_expr/_repartition.py (C44): partition-boundary arithmetic.

The module cannot be imported here (pyarrow is missing): the verified text is the AST of the
source file; E2 executes the extracted functions with `exec`.
"""
from vf import ty as T
from vf.engine import Contract
from contracts.lemmas import LEMMA_FUNCS

MODULE = "dask/dataframe/dask_expr/_repartition.py"
SI = T.Seq(T.Int)

clean = Contract(
    MODULE, "_clean_new_division_boundaries",
    params={"new_partitions_boundaries": SI, "frame_npartitions": T.Int},
    returns=SI,
    requires=[("nonempty", "len(new_partitions_boundaries) >= 1")],
    ensures=[
        ("starts-at-zero", "implies(old(new_partitions_boundaries)[0] >= 0 and (len(old(new_partitions_boundaries)) >= 2 or old(new_partitions_boundaries)[0] > 0), result[0] == 0)"),
        ("ends-at-npartitions", "result[len(result) - 1] == max(old(new_partitions_boundaries)[len(old(new_partitions_boundaries)) - 1], frame_npartitions)"),
        ("length", "len(result) == len(old(new_partitions_boundaries)) + (1 if old(new_partitions_boundaries)[0] > 0 else 0)"),
        ("interior-kept", "implies(old(new_partitions_boundaries)[0] <= 0, all(result[i] == old(new_partitions_boundaries)[i] for i in range(len(result) - 1)))"),
    ],
)

compute_boundaries = Contract(
    MODULE, "RepartitionToFewer._compute_partition_boundaries",
    params={"n_new_partitions": T.Int, "n_old_partitions": T.Int},
    locals={"npartitions_ratio": T.Real, "new_partitions_boundaries": SI},
    returns=SI,
    requires=[("fewer", "1 <= n_new_partitions and n_new_partitions < n_old_partitions"), ("machine-range", "n_old_partitions < 2147483648")],
    ensures=[
        ("C44-npartitions", "len(result) == n_new_partitions + 1"),
        ("C44-starts-at-first", "result[0] == 0"),
        ("C44-ends-at-last", "result[n_new_partitions] == n_old_partitions"),
        ("C44-in-range", "all(0 <= result[i] and result[i] <= n_old_partitions for i in range(len(result)))"),
        ("C44-order-preserved", "all(result[i] <= result[i + 1] for i in range(n_new_partitions))"),
    ],
    ghost=[("after", "npartitions_ratio = n_old_partitions / n_new_partitions",
            'assert_(npartitions_ratio >= 1, "ratio-at-least-one (rounding does not cross the integer 1)")\n'
            'assert_(npartitions_ratio * n_new_partitions <= n_old_partitions + 1, "ratio-times-count-bounded")\n'
            'assert_(all(k * npartitions_ratio <= n_old_partitions + 2 and k * npartitions_ratio >= 0 for k in range(n_new_partitions + 1)), "every-product-in-the-exact-integer-range")')],
    note="float arithmetic under the explicit rounding model (2**-53 relative error per operation, integers exact)",
)

RepFrame = T.Rec("Frame", {"npartitions": T.Int})
RepMore = T.Rec("RepartitionToMore", {"frame": RepFrame, "new_partitions": T.Int})

nsplits = Contract(
    MODULE, "RepartitionToMore._nsplits",
    params={"self": RepMore},
    locals={"nsplits": SI},
    returns=SI,
    requires=[("more", "self.frame.npartitions >= 1 and self.new_partitions >= self.frame.npartitions")],
    ensures=[
        ("C44-one-entry-per-input-partition", "len(result) == self.frame.npartitions"),
        ("C44-npartitions", "sum(result) == self.new_partitions"),
        ("C44-every-input-partition-is-kept", "all(result[i] >= 1 for i in range(len(result)))"),
    ],
    ghost=[
        ("after", "div, mod = divmod(", "lemma_divmod(self.new_partitions, self.frame.npartitions)"),
        ("after", "nsplits = [div]", "lemma_psum_const(nsplits, len(nsplits) - 1, div)\nassert_(psum(nsplits, len(nsplits)) == psum(nsplits, len(nsplits) - 1) + nsplits[len(nsplits) - 1], 'unfold-last')"),
        ("after", "nsplits[-1] += mod", "assert_(psum(nsplits, len(nsplits)) == div * (len(nsplits) - 1) + div + mod, 'sum')"),
    ],
    drop=["if len(nsplits) != df.npartitions"],
)

# ---- RepartitionToMore._layer: the task graph that splits input partition i into nsplits[i] pieces
Name = T.U("Name")
PKey = T.Tup(Name, T.Int)                       # (collection name, partition number)
Fn_ = T.U("Fn")
TaskV = T.Union("RepartTask", {"alias": PKey, "call": T.Tup(Fn_, PKey, T.Int)})   # (df._name, i) | (getitem, (split, i), jj) | (split_evenly, (df, i), k)
Dsk = T.Map(PKey, TaskV)
FrameN = T.Rec("FrameWithName", {"_name": Name})
MoreL = T.Rec("RepartitionToMoreL", {"frame": FrameN, "_name": Name, "_nsplits": SI})
_OUT = "psum(self._nsplits, i) + jj"

more_layer = Contract(
    MODULE, "RepartitionToMore._layer",
    params={"self": MoreL},
    locals={"dsk": Dsk, "nsplits": SI, "df": FrameN, "new_name": Name, "split_name": Name, "j": T.Int},
    free={"split_evenly": Fn_, "getitem": Fn_},
    returns=Dsk,
    requires=[("one-positive-count-per-input-partition (RepartitionToMore._nsplits)", "len(self._nsplits) >= 1 and all(self._nsplits[q] >= 1 for q in range(len(self._nsplits)))")],
    ensures=[
        ("C44-output-partition-numbers-are-0..total-1", "forall(lambda n: (result_has(result, self._name, n)) == (0 <= n and n < sum(self._nsplits)))"),
        ("C44-piece-jj-of-input-partition-i-is-output-number-psum(i)+jj, in order",
         "forall(lambda i, jj: implies(0 <= i and i < len(self._nsplits) and 0 <= jj and jj < self._nsplits[i], "
         f"result_has(result, self._name, {_OUT}) and (is_alias_of(result_at(result, self._name, {_OUT}), self.frame._name, i) if self._nsplits[i] == 1 else "
         f"(is_piece(result_at(result, self._name, {_OUT}), getitem, split_name_of(self._name), i, jj) and result_has(result, split_name_of(self._name), i)"
         " and is_piece(result_at(result, split_name_of(self._name), i), split_evenly, self.frame._name, i, self._nsplits[i])))))"),
    ],
    loops={
        0: dict(index="i0", invariant=[
            ("next-output-number", "j == psum(nsplits, i0) and j >= 0"),
            ("outputs-so-far", "forall(lambda n: (result_has(dsk, new_name, n)) == (0 <= n and n < j))"),
            ("pieces-so-far",
             "forall(lambda i, jj: implies(0 <= i and i < i0 and 0 <= jj and jj < nsplits[i], "
             "result_has(dsk, new_name, psum(nsplits, i) + jj) and (is_alias_of(result_at(dsk, new_name, psum(nsplits, i) + jj), df._name, i) if nsplits[i] == 1 else "
             "(is_piece(result_at(dsk, new_name, psum(nsplits, i) + jj), getitem, split_name, i, jj) and result_has(dsk, split_name, i)"
             " and is_piece(result_at(dsk, split_name, i), split_evenly, df._name, i, nsplits[i])))))"),
            ("splits-so-far", "forall(lambda n: implies(result_has(dsk, split_name, n), 0 <= n and n < i0))"),
            ("names", "split_name == split_name_of(new_name) and split_name != new_name and same(nsplits, self._nsplits) and new_name == self._name and same(df, self.frame)"),
        ], begin=["assert_(psum(nsplits, i0 + 1) == psum(nsplits, i0) + nsplits[i0], 'unfold')"]),
        1: dict(index="j0", invariant=[
            ("next-output-number", "j == psum(nsplits, i) + j0 and 0 <= j0 and j0 <= k"),
            ("outputs-so-far", "forall(lambda n: (result_has(dsk, new_name, n)) == (0 <= n and n < j))"),
            ("pieces-so-far",
             "forall(lambda i2, jj: implies(0 <= i2 and i2 < i and 0 <= jj and jj < nsplits[i2], "
             "result_has(dsk, new_name, psum(nsplits, i2) + jj) and (is_alias_of(result_at(dsk, new_name, psum(nsplits, i2) + jj), df._name, i2) if nsplits[i2] == 1 else "
             "(is_piece(result_at(dsk, new_name, psum(nsplits, i2) + jj), getitem, split_name, i2, jj) and result_has(dsk, split_name, i2)"
             " and is_piece(result_at(dsk, split_name, i2), split_evenly, df._name, i2, nsplits[i2])))))"),
            ("this-split", "result_has(dsk, split_name, i) and is_piece(result_at(dsk, split_name, i), split_evenly, df._name, i, k) and "
                           "forall(lambda jj: implies(0 <= jj and jj < j0, result_has(dsk, new_name, psum(nsplits, i) + jj) and is_piece(result_at(dsk, new_name, psum(nsplits, i) + jj), getitem, split_name, i, jj)))"),
            ("splits-so-far", "forall(lambda n: implies(result_has(dsk, split_name, n), 0 <= n and n <= i))"),
        ]),
    },
    note="f\"split-{new_name}\" is modelled as an uninterpreted name distinct from new_name; split_evenly / getitem are opaque task heads",
)

# ---- RepartitionToFewer._layer: output partition i concatenates the input partitions boundaries[i] .. boundaries[i+1]-1
ConcatTask = T.Tup(Fn_, T.Seq(PKey))
FewerDsk = T.Map(PKey, ConcatTask)
FewerL = T.Rec("RepartitionToFewerL", {"frame": FrameN, "_name": Name, "_partitions_boundaries": SI})

fewer_layer = Contract(
    MODULE, "RepartitionToFewer._layer",
    params={"self": FewerL},
    locals={"new_partitions_boundaries": SI},
    free={"_concat": Fn_},
    returns=FewerDsk,
    requires=[("boundaries (RepartitionToFewer._compute_partition_boundaries)", "len(self._partitions_boundaries) >= 2 and all(self._partitions_boundaries[q] <= self._partitions_boundaries[q + 1] for q in range(len(self._partitions_boundaries) - 1))")],
    ensures=[
        ("C44-one-output-partition-per-pair-of-boundaries", "forall(lambda k: (k in result.keys()) == (k[0] == self._name and 0 <= k[1] and k[1] < len(self._partitions_boundaries) - 1), PKeyT)"),
        ("C44-output-i-concatenates-exactly-the-inputs-between-its-boundaries-in-order",
         "forall(lambda i: implies(0 <= i and i < len(self._partitions_boundaries) - 1, result[(self._name, i)][0] == _concat"
         " and len(result[(self._name, i)][1]) == self._partitions_boundaries[i + 1] - self._partitions_boundaries[i]"
         " and forall(lambda q: implies(0 <= q and q < self._partitions_boundaries[i + 1] - self._partitions_boundaries[i], result[(self._name, i)][1][q] == (self.frame._name, self._partitions_boundaries[i] + q)))))"),
    ],
    note="with boundaries[0] == 0, boundaries[-1] == npartitions and lemma_tiling every input partition lands in exactly one output, in order",
)

CONTRACTS = [clean, compute_boundaries, nsplits, more_layer, fewer_layer]


def _mk_key(n, i):
    return PKey.mk(n, i)


def spec_result_has(eng, st, d, name, n):
    import z3
    from vf.core import SV
    return SV(z3.Select(Dsk.dom(d.t), _mk_key(name.t, eng.to_int(n))), T.Bool)


def spec_result_at(eng, st, d, name, n):
    import z3
    from vf.core import SV
    return SV(z3.Select(Dsk.valarr(d.t), _mk_key(name.t, eng.to_int(n))), TaskV)


def spec_is_alias_of(eng, st, v, name, i):
    import z3
    from vf.core import SV
    return SV(z3.And(TaskV.is_("alias", v.t), TaskV.proj("alias", v.t) == _mk_key(name.t, eng.to_int(i))), T.Bool)


def spec_is_piece(eng, st, v, fn, name, i, jj):
    import z3
    from vf.core import SV
    c = TaskV.alts["call"]
    return SV(z3.And(TaskV.is_("call", v.t), TaskV.proj("call", v.t) == c.mk(fn.t, _mk_key(name.t, eng.to_int(i)), eng.to_int(jj))), T.Bool)


_split_name = None


def fstring_split(eng, node, st, want):
    """f"split-{new_name}": a name derived from new_name (uninterpreted), different from it."""
    import ast as _a
    import z3
    from vf.core import SV
    vals = [v.value for v in node.values if isinstance(v, _a.FormattedValue)]
    if len(vals) == 1:
        a = eng.ev(vals[0], st)
        if a.ty == Name:
            f = z3.Function("split_name_of", Name.sort(), Name.sort())
            st.assume(f(a.t) != a.t)
            return SV(f(a.t), Name)
    return None


def spec_split_name_of(eng, st, n):
    import z3
    from vf.core import SV
    f = z3.Function("split_name_of", Name.sort(), Name.sort())
    st.assume(f(n.t) != n.t)
    return SV(f(n.t), Name)


def setup(eng):
    from vf.core import FuncVal
    eng.spec_funcs["result_has"] = spec_result_has
    eng.spec_funcs["result_at"] = spec_result_at
    eng.spec_funcs["is_alias_of"] = spec_is_alias_of
    eng.spec_funcs["is_piece"] = spec_is_piece
    eng.spec_funcs["split_name_of"] = spec_split_name_of
    eng.fstring_model = fstring_split
    eng.mutable_records.update({"RepartitionToMoreL", "FrameWithName", "RepartitionToFewerL"})
    eng.spec_types["PKeyT"] = PKey
    eng.funcs.update(LEMMA_FUNCS)
    eng.funcs["_clean_new_division_boundaries"] = FuncVal("_clean_new_division_boundaries", "contract", clean)
    eng.isinstance_static[("Seq<Int>", "list")] = True
    eng.uninterp_divmod = True
