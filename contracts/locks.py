"""Contracts for dask/utils.py:SerializableLock (C53).

Object model: the class-level registry `_locks : token -> lock object` (a WeakValueDictionary), a ghost
set LIVE of lock objects referenced by some live instance.  ASSUMED: `Lock()` allocates an object that is
not referenced by anything yet (allocation freshness); a registry entry can vanish only when no live
instance references its lock (garbage-collection axiom, contract of `gc_step`); uuid4 tokens are new.
"""
import ast
import os

import z3

from vf import ty as T
from vf.core import SV, FuncVal, Unsupported, fresh
from vf.engine import Contract

MODULE = "dask/utils.py"
Token = T.U("Token")
LockObj = T.U("LockObj")
Registry = T.Map(Token, LockObj)
SLClass = T.Rec("SerializableLockClass", {"_locks": Registry})
SLObj = T.Rec("SerializableLockObj", {"token": Token, "lock": LockObj})
SetL = T.Set(LockObj)
FREE = {"SerializableLock": SLClass, "LIVE": SetL}

INV = [
    ("registry-injective (separately created locks never share a lock object)", "forall(lambda s, t: implies(s in SerializableLock._locks.keys() and t in SerializableLock._locks.keys() and s != t, SerializableLock._locks[s] != SerializableLock._locks[t]), Token, Token)"),
]

init = Contract(
    MODULE, "SerializableLock.__init__",
    params={"self": SLObj, "token": T.Opt(Token)},
    defaults={"token": "None"},
    free=FREE, frame=["self", "SerializableLock", "LIVE"],
    requires=INV,
    ensures=INV + [
        ("C53-reuses-the-registered-lock", "implies(old(token) is not None and truthy(old(token)) and old(token) in old(SerializableLock._locks).keys(), self.lock == old(SerializableLock._locks)[old(token)])"),
        ("C53-token-kept", "implies(old(token) is not None and truthy(old(token)), self.token == old(token))"),
        ("C53-registered", "self.token in SerializableLock._locks.keys() and SerializableLock._locks[self.token] == self.lock"),
        ("instance-invariant: the stored token is truthy (so it survives `token or uuid` when unpickled)", "truthy(self.token)"),
        ("generated-token-is-new", "implies(old(token) is None or not truthy(old(token)), self.token not in old(SerializableLock._locks).keys())"),
        ("C53-new-lock-is-fresh", "implies(self.token not in old(SerializableLock._locks).keys(), self.lock not in old(LIVE))"),
        ("others-kept", "forall(lambda t: implies(t in old(SerializableLock._locks).keys(), t in SerializableLock._locks.keys() and SerializableLock._locks[t] == old(SerializableLock._locks)[t]), Token)"),
        ("live", "LIVE == old(LIVE) | {self.lock}"),
    ],
    ghost=[("exit", "", "LIVE = LIVE | {self.lock}")],
)

getstate = Contract(
    MODULE, "SerializableLock.__getstate__",
    params={"self": SLObj}, returns=Token,
    requires=[("instance-invariant", "truthy(self.token)")],
    ensures=[("C53-pickles-as-its-token", "result == self.token"), ("truthy", "truthy(result)")],
)

setstate = Contract(
    MODULE, "SerializableLock.__setstate__",
    params={"self": SLObj, "token": Token},
    free=FREE, frame=["self", "SerializableLock", "LIVE"],
    requires=INV + [("pickled-state-is-a-stored-token", "truthy(token)")],
    ensures=INV + [
        ("C53-unpickled-copy-gets-the-registered-lock", "implies(old(token) in old(SerializableLock._locks).keys(), self.lock == old(SerializableLock._locks)[old(token)])"),
        ("token", "self.token == old(token)"),
        ("registered", "self.token in SerializableLock._locks.keys() and SerializableLock._locks[self.token] == self.lock"),
        ("others-kept", "forall(lambda t: implies(t in old(SerializableLock._locks).keys(), t in SerializableLock._locks.keys() and SerializableLock._locks[t] == old(SerializableLock._locks)[t]), Token)"),
        ("live", "LIVE == old(LIVE) | {self.lock}"),
    ],
)

_LEM = os.path.join(os.path.dirname(os.path.dirname(os.path.abspath(__file__))), "lemmas", "lock_clients.py")

gc_step = Contract(
    _LEM, "gc_step", assumed=True,
    params={}, free=FREE, frame=["SerializableLock"],
    ensures=[
        ("only-shrinks", "forall(lambda t: implies(t in SerializableLock._locks.keys(), t in old(SerializableLock._locks).keys() and SerializableLock._locks[t] == old(SerializableLock._locks)[t]), Token)"),
        ("live-locks-stay-registered", "forall(lambda t: implies(t in old(SerializableLock._locks).keys() and old(SerializableLock._locks)[t] in LIVE, t in SerializableLock._locks.keys()), Token)"),
    ],
    note="ASSUMED garbage-collection axiom of the WeakValueDictionary: an entry disappears only when no live instance references its lock",
)

client_copy = Contract(
    _LEM, "client_unpickled_copy_is_the_same_lock",
    params={"a": SLObj, "b": SLObj, "c": SLObj, "t": T.Opt(Token)},
    free=FREE, frame=["SerializableLock", "LIVE"],
    requires=INV,
    ensures=[("C53-every-copy-is-the-same-lock", "b.lock == a.lock and c.lock == a.lock")],
    note="client program: create a lock, let the collector run, unpickle a copy, let it run again, unpickle another copy while the first instance is alive",
)

client_separate = Contract(
    _LEM, "client_separate_locks_differ",
    params={"a": SLObj, "b": SLObj, "s": Token, "t": Token},
    free=FREE, frame=["SerializableLock", "LIVE"],
    requires=INV + [("different-explicit-tokens", "s != t and truthy(s) and truthy(t)")],
    ensures=[("C53-separate-locks-never-exclude-each-other", "a.lock != b.lock")],
)

client_generated = Contract(
    _LEM, "client_generated_tokens_differ",
    params={"a": SLObj, "b": SLObj},
    free=FREE, frame=["SerializableLock", "LIVE"],
    requires=INV,
    ensures=[("C53-separate-locks-never-exclude-each-other", "a.lock != b.lock")],
)

# ---- transparent delegation: acquire/release/locked/__enter__/__exit__ forward to the shared threading.Lock
Args = T.U("Args")
Ret = T.Bool  # Lock.acquire / Lock.locked answer with a bool; release/__enter__/__exit__ results are not used
Call = T.U("LockCall")
DFREE = {"NCALLS": T.Int, "LASTCALL": Call}
_call_uf = {}
_ret_uf = {}


def _ufs(meth, n):
    k = (meth, n)
    if k not in _call_uf:
        sorts = [LockObj.sort()] + [Args.sort()] * n
        _call_uf[k] = z3.Function(f"lockcall_{meth}_{n}", *sorts, Call.sort())
        _ret_uf[k] = z3.Function(f"lockret_{meth}_{n}", *sorts, Ret.sort())
    return _call_uf[k], _ret_uf[k]


def lock_method(meth):
    """`lock.<meth>(*a, **k)` on a threading.Lock: trusted primitive.  Its answer is an uninterpreted function of
    (lock object, arguments); the ghost log NCALLS/LASTCALL records that it was called, on which lock, with what."""
    def m(eng, st, base, node, lv):
        vals = []
        for a in node.args:
            v = eng.ev(a.value if isinstance(a, ast.Starred) else a, st)
            if v.ty != Args:
                raise Unsupported(f"lock.{meth}: argument of type {v.ty} (only forwarded *args/**kwargs are modelled)")
            vals.append(v.t)
        for kw in node.keywords:
            v = eng.ev(kw.value, st)
            if kw.arg is not None or v.ty != Args:
                raise Unsupported(f"lock.{meth}: keyword argument (only forwarded **kwargs are modelled)")
            vals.append(v.t)
        cf, rf = _ufs(meth, len(vals))
        n = eng.read_name(st, "NCALLS")
        st.env["NCALLS"] = SV(n.t + 1, T.Int)
        st.env["LASTCALL"] = SV(cf(base.t, *vals), Call)
        if meth in ("acquire", "locked"):
            return SV(rf(base.t, *vals), Ret)
        return SV(T.NoneT.value(), T.NoneT)
    return m


def spec_uf(table, meth, n):
    def f(eng, st, node, want):
        args = [eng.ev(a, st) for a in node.args]
        return SV(table(meth, n)(*[a.t for a in args]), Ret if table is _retf else Call)
    return f


def _retf(meth, n):
    return _ufs(meth, n)[1]


def _callf(meth, n):
    return _ufs(meth, n)[0]


def delegation(meth, params, returns, n, result_clause):
    extra = ", ".join(p for p in params if p != "self")
    argl = "self.lock" + (", " + extra if extra else "")
    ens = [
        ("C53-forwards-to-the-shared-lock-exactly-once", "NCALLS == old(NCALLS) + 1"),
        ("C53-same-lock-same-arguments", f"LASTCALL == lockcall_{meth}({argl})"),
    ]
    if result_clause:
        ens.append(("C53-reports-the-lock's-own-answer", f"result == lockret_{meth}({argl})"))
    return Contract(MODULE, f"SerializableLock.{meth}", params={"self": SLObj, **{p: Args for p in params if p != "self"}},
                    free=DFREE, frame=["NCALLS", "LASTCALL"], returns=returns, ensures=ens)


acquire = delegation("acquire", ["self", "args", "kwargs"], Ret, 2, True)
release = delegation("release", ["self", "args", "kwargs"], None, 2, False)
locked = delegation("locked", ["self"], Ret, 0, True)
enter = delegation("__enter__", ["self"], T.NoneT, 0, False)
exit_ = delegation("__exit__", ["self", "args"], T.NoneT, 1, False)
DELEGATIONS = {"acquire": 2, "release": 2, "locked": 0, "__enter__": 0, "__exit__": 1}

CONTRACTS = [init, getstate, setstate, gc_step, client_copy, client_separate, client_generated, acquire, release, locked, enter, exit_]


def model_lock(eng, st, node, want):
    """threading.Lock(): a new object, referenced by no live SerializableLock and not in the registry (ASSUMED allocation freshness)."""
    l = fresh(LockObj, "newlock")
    live = eng.read_name(st, "LIVE")
    cls = eng.read_name(st, "SerializableLock")
    reg = SLClass.get(cls.t, "_locks")
    t = z3.Const("t!alloc", Token.sort())
    st.assume(z3.Not(z3.Select(live.t, l.t)))
    st.assume(z3.ForAll([t], z3.Implies(z3.Select(Registry.dom(reg), t), z3.Select(Registry.valarr(reg), t) != l.t)))
    return l


def model_uuid_str(eng, st, node, want):
    """str(uuid.uuid4()): ASSUMED to be a token that is not registered yet."""
    tk = fresh(Token, "uuid")
    st.assume(eng.truthy(tk))  # a uuid string is not empty
    cls = eng.read_name(st, "SerializableLock")
    st.assume(z3.Not(z3.Select(Registry.dom(SLClass.get(cls.t, "_locks")), tk.t)))
    return tk


def method_via(contract):
    def m(eng, st, base, node, lv):
        tmp = f"__self_{id(node)}"
        st.env[tmp] = base
        call = ast.Call(func=ast.Name(id="m", ctx=ast.Load()), args=[ast.Name(id=tmp, ctx=ast.Load())] + list(node.args), keywords=list(node.keywords))
        ast.copy_location(call, node)
        ast.fix_missing_locations(call)
        r = eng.call_contract(contract, call, st, None)
        post = st.env.pop(tmp)
        if lv is not None and "self" in contract.frame:
            eng.write_path(st, lv[0], lv[1], post, node)
        return r
    return m


def setup(eng):
    eng.spec_types["Token"] = Token
    eng.mutable_records.update({"SerializableLockClass", "SerializableLockObj"})
    eng.funcs["Lock"] = FuncVal("Lock", "model", model_lock)
    eng.funcs["str"] = FuncVal("str", "model", model_uuid_str)
    eng.funcs["gc_step"] = FuncVal("gc_step", "contract", gc_step)
    eng.attr_models[("method", "SerializableLockObj", "__init__")] = method_via(init)
    eng.attr_models[("method", "SerializableLockObj", "__setstate__")] = method_via(setstate)
    eng.attr_models[("method", "SerializableLockObj", "__getstate__")] = method_via(getstate)
    eng.spec_types["Args"] = Args
    for meth, n in DELEGATIONS.items():
        eng.attr_models[("method", "LockObj", meth)] = lock_method(meth)
        eng.funcs[f"lockcall_{meth}"] = FuncVal(f"lockcall_{meth}", "model", spec_uf(_callf, meth, n))
        eng.funcs[f"lockret_{meth}"] = FuncVal(f"lockret_{meth}", "model", spec_uf(_retf, meth, n))
