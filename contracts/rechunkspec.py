"""Contract for the target-spec normalisation at the top of dask/array/rechunk.py:rechunk (C23) -- a fragment,
extracted mechanically: the statements `if isinstance(chunks, dict): ...` and `if isinstance(chunks, (tuple, list)): ...`
followed by a synthesised `return chunks`.  Everything after it (normalize_chunks, planning, graph construction) is
NumPy-level and only bounded natively.
"""
import ast

from vf import ty as T
from vf.core import FuncVal
from vf.engine import Contract

MODULE = "dask/array/rechunk.py"
AS = T.U("AxisSpec")  # what one axis can be given as: an int, a tuple of block sizes, 'auto', -1, ...
OAS = T.Opt(AS)
DictSpec = T.Map(T.Int, OAS)
SeqSpec = T.Seq(OAS)
Spec = T.Union("ChunksArg", {"dict": DictSpec, "seq": SeqSpec, "other": T.U("OtherSpec")}, classes={"dict": ["dict"], "tuple": ["seq"], "list": ["seq"]})
ArrX = T.Rec("ArrayLike", {"ndim": T.Int, "chunks": T.Seq(AS)})


def spec_fragment(body):
    out = []
    for st in body:
        if isinstance(st, ast.If) and ast.unparse(st.test) in ("isinstance(chunks, dict)", "isinstance(chunks, (tuple, list))"):
            out.append(st)
    assert len(out) == 2, "spec normalisation not found: contract no longer lines up"
    r = ast.Return(value=ast.Name(id="chunks", ctx=ast.Load()))
    ast.copy_location(r, out[-1])
    return out + [ast.fix_missing_locations(r)]


validate_axis = Contract(
    "dask/array/utils.py", "validate_axis", assumed=True,
    params={"axis": T.Int, "ndim": T.Int}, returns=T.Int,
    ensures=[("normalised", "result == (axis if axis >= 0 else axis + ndim) and 0 <= result and result < ndim")],
    raises=[("AxisError", "axis < -ndim or axis >= ndim", "out-of-range")],
    note="ASSUMED (four lines in dask/array/utils.py; bounded natively through rechunk with negative axes)",
)

_NORM = "(c if c >= 0 else c + x.ndim)"

rechunk_spec = Contract(
    MODULE, "rechunk[target spec]", source="rechunk",
    fragment=spec_fragment,
    params={"x": ArrX, "chunks": Spec},
    immutable=["chunks"], narrow=["chunks"],
    requires=[
        ("array", "x.ndim == len(x.chunks) and x.ndim >= 0"),
        ("valid-axes", "implies(isinstance(chunks, dict), forall(lambda c: implies(c in as_dict(chunks).keys(), 0 - x.ndim <= c and c < x.ndim), Int))"),
        ("no-axis-given-twice", "implies(isinstance(chunks, dict), forall(lambda c, e: implies(c in as_dict(chunks).keys() and e in as_dict(chunks).keys() and c != e, "
                                 "(c if c >= 0 else c + x.ndim) != (e if e >= 0 else e + x.ndim)), Int, Int))"),
    ],
    ensures=[
        ("C23-dict-target: every axis present; an omitted or None axis keeps its current chunks, a given one is taken as given",
         "implies(isinstance(old(chunks), dict), isinstance(result, dict) and forall(lambda i: implies(0 <= i and i < x.ndim, i in as_dict(result).keys() and as_dict(result)[i] is not None), Int)"
         f" and forall(lambda c: implies(c in as_dict(old(chunks)).keys(), as_dict(result)[{_NORM}] == (as_dict(old(chunks))[c] if as_dict(old(chunks))[c] is not None else x.chunks[{_NORM}])), Int)"
         " and forall(lambda i: implies(0 <= i and i < x.ndim and not exists(lambda c: c in as_dict(old(chunks)).keys() and (c if c >= 0 else c + x.ndim) == i, Int), as_dict(result)[i] == x.chunks[i]), Int))"),
        ("C23-sequence-target: None keeps the current chunks of that axis",
         "implies(isinstance(old(chunks), (tuple, list)), isinstance(result, (tuple, list)) and len(as_seq(result)) == min(len(as_seq(old(chunks))), len(x.chunks))"
         " and forall(lambda i: implies(0 <= i and i < len(as_seq(result)), as_seq(result)[i] == (as_seq(old(chunks))[i] if as_seq(old(chunks))[i] is not None else x.chunks[i]))))"),
        ("other-targets-pass-through", "implies(not isinstance(old(chunks), dict) and not isinstance(old(chunks), (tuple, list)), same(result, old(chunks)))"),
    ],
    raises=[("AxisError", "False", "axes were required to be valid")],
    locals={"D0": DictSpec},
    loops={0: dict(index="i0", invariant=[
        ("range", "0 <= i0 and i0 <= x.ndim"),
        ("keys", "forall(lambda k: (k in chunks.keys()) == (k in D0.keys() or (0 <= k and k < i0)), Int)"),
        ("filled", "forall(lambda j: implies(0 <= j and j < i0, chunks[j] == (D0[j] if j in D0.keys() and D0[j] is not None else x.chunks[j])), Int)"),
        ("rest-untouched", "forall(lambda k: implies(k in D0.keys() and not (0 <= k and k < i0), chunks[k] == D0[k]), Int)"),
    ])},
    ghost=[("before", "for i in range(x.ndim)", "D0 = chunks")],
    note="the caller's dict / list must not be modified in place (`immutable`): the dict branch builds a new mapping first",
)

CONTRACTS = [validate_axis, rechunk_spec]


def spec_as_dict(eng, st, v):
    from vf.core import SV
    if v.ty == DictSpec:
        return v
    if v.ty != Spec:
        from vf.core import fresh
        return fresh(DictSpec, "not_a_dict")  # only reached under a guard that is false for this type
    return SV(Spec.proj("dict", v.t), DictSpec)


def spec_as_seq(eng, st, v):
    from vf.core import SV
    if v.ty == SeqSpec:
        return v
    if v.ty != Spec:
        from vf.core import fresh
        return fresh(SeqSpec, "not_a_seq")  # only reached under a guard that is false for this type
    return SV(Spec.proj("seq", v.t), SeqSpec)


def setup(eng):
    eng.spec_funcs["as_dict"] = spec_as_dict
    eng.spec_funcs["as_seq"] = spec_as_seq
    eng.funcs["validate_axis"] = FuncVal("validate_axis", "contract", validate_axis)
    for name in ("dict", "tuple", "list"):
        eng.isinstance_static[(DictSpec.name, name)] = name == "dict"
        eng.isinstance_static[(SeqSpec.name, name)] = name in ("tuple", "list")
