"""Contract for dask/optimization.py:cull (C09)."""
import z3

from vf import ty as T
from vf.core import SV, FuncVal
from vf.engine import Contract

MODULE = "dask/optimization.py"
Key = T.U("Key")
Node = T.U("Node")
Graph = T.Map(Key, Node)
SeqK = T.Seq(Key)
DepMap = T.Map(Key, SeqK)

depsof = z3.Function("depsof", Graph.sort(), Key.sort(), SeqK.sort())

POINTWISE = [
    ("C09-subgraph-identical", "forall(lambda k: implies(k in out.keys(), k in dsk.keys() and out[k] == dsk[k]), Key)"),
    ("C09-dependency-map-matches", "dependencies.keys() == out.keys() and forall(lambda k: implies(k in out.keys(), same(dependencies[k], depsof(dsk, k))), Key)"),
]

cull = Contract(
    MODULE, "cull",
    params={"dsk": Graph, "keys": SeqK},
    locals={"seen": T.Set(Key), "dependencies": DepMap, "out": Graph, "work": SeqK, "new_work": SeqK, "dependencies_k": SeqK, "nw0": SeqK},
    returns=T.Tup(Graph, DepMap),
    requires=[
        ("keys-in-graph", "forall(lambda j: implies(0 <= j and j < len(keys), keys[j] in dsk.keys()))"),
        ("graph-closed", "forall(lambda k, j: implies(k in dsk.keys() and 0 <= j and j < len(depsof(dsk, k)), depsof(dsk, k)[j] in dsk.keys()), Key, Int)"),
        ("lens", "len(keys) >= 0"),
    ],
    axioms=["forall(lambda k: len(depsof(dsk, k)) >= 0, Key)"],
    ensures=[
        ("C09-requested-keys-kept", "forall(lambda j: implies(0 <= j and j < len(keys), keys[j] in result[0].keys()))"),
        ("C09-subgraph-identical", "forall(lambda k: implies(k in result[0].keys(), k in dsk.keys() and result[0][k] == dsk[k]), Key)"),
        ("C09-closed-under-dependencies", "forall(lambda k, j: implies(k in result[0].keys() and 0 <= j and j < len(depsof(dsk, k)), depsof(dsk, k)[j] in result[0].keys()), Key, Int)"),
        ("C09-dependency-map-matches", "result[1].keys() == result[0].keys() and forall(lambda k: implies(k in result[0].keys(), same(result[1][k], depsof(dsk, k))), Key)"),
    ],
    loops={
        0: dict(invariant=POINTWISE + [
            ("pending", "forall(lambda k, j: implies(k in out.keys() and 0 <= j and j < len(depsof(dsk, k)), depsof(dsk, k)[j] in out.keys() or depsof(dsk, k)[j] in work), Key, Int)"),
            ("work-in-graph", "forall(lambda j: implies(0 <= j and j < len(work), work[j] in dsk.keys())) and len(work) >= 0"),
            ("requested", "forall(lambda j: implies(0 <= j and j < len(keys), keys[j] in out.keys() or keys[j] in work))"),
        ]),
        1: dict(index="i", invariant=POINTWISE + [
            ("processed", "forall(lambda j: implies(0 <= j and j < i, work[j] in out.keys()))"),
            ("pending", "forall(lambda k, j: implies(k in out.keys() and 0 <= j and j < len(depsof(dsk, k)), depsof(dsk, k)[j] in out.keys() or depsof(dsk, k)[j] in work or depsof(dsk, k)[j] in new_work), Key, Int)"),
            ("seen-pending", "forall(lambda d: implies(d in seen, d in out.keys() or d in work or d in new_work), Key)"),
            ("new-work-in-graph", "forall(lambda j: implies(0 <= j and j < len(new_work), new_work[j] in dsk.keys())) and len(new_work) >= 0"),
            ("requested", "forall(lambda j: implies(0 <= j and j < len(keys), keys[j] in out.keys() or keys[j] in work))"),
        ]),
        2: dict(index="m", invariant=[
            ("new-work-grows", "forall(lambda x: implies(x in nw0, x in new_work), Key)"),
            ("deps-seen", "forall(lambda j: implies(0 <= j and j < m, dependencies_k[j] in seen))"),
            ("seen-pending", "forall(lambda d: implies(d in seen, d in out.keys() or d in work or d in new_work), Key)"),
            ("new-work-in-graph", "forall(lambda j: implies(0 <= j and j < len(new_work), new_work[j] in dsk.keys())) and len(new_work) >= 0"),
        ]),
    },
    ghost=[("before", "for d in dependencies_k", "nw0 = new_work")],
    drop=["if not isinstance(keys, (list, set))"],
    note="keys given as a list; get_dependencies(dsk, k, as_list=True) is the uninterpreted depsof(dsk, k) (its relation to the task term is C08's business); loop 0 needs `seen-pending` across iterations",
)
# the outer loop also needs the seen-pending fact
cull.loops[0]["invariant"].append(("seen-pending", "forall(lambda d: implies(d in seen, d in out.keys() or d in work), Key)"))

CONTRACTS = [cull]


def model_get_dependencies(eng, st, node, want):
    d = eng.ev(node.args[0], st)
    k = eng.ev(node.args[1], st)
    return SV(depsof(d.t, k.t), SeqK)


def setup(eng):
    eng.spec_types["Key"] = Key
    eng.spec_types["Int"] = T.Int
    eng.funcs["depsof"] = FuncVal("depsof", "uf", (depsof, SeqK, [Graph, Key]))
    eng.funcs["get_dependencies"] = FuncVal("get_dependencies", "model", model_get_dependencies)
    eng.funcs["flatten"] = FuncVal("flatten", "model", lambda e, st, node, want: e.ev(node.args[0], st))
