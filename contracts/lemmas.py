"""Contracts of the ghost lemmas in /verif/lemmas/seq_lemmas.py (verified, not assumed)."""
import os

from vf import ty as T
from vf.core import FuncVal
from vf.engine import Contract

MODULE = os.path.join(os.path.dirname(os.path.dirname(os.path.abspath(__file__))), "lemmas", "seq_lemmas.py")

SI = T.Seq(T.Int)

CONTRACTS = [
    Contract(
        MODULE, "lemma_psum_mono",
        params={"xs": SI, "i": T.Int, "j": T.Int},
        requires=["all(xs[q] >= 0 for q in range(len(xs)))", "0 <= i", "i <= j", "j <= len(xs)"],
        ensures=[("mono", "psum(xs, i) <= psum(xs, j)")],
        loops={0: dict(invariant=["i <= k", "k <= j", "psum(xs, i) <= psum(xs, k)"],
                       begin=["assert_(psum(xs, k + 1) == psum(xs, k) + xs[k], 'unfold')"])},
    ),
    Contract(
        MODULE, "lemma_psum_lower",
        params={"xs": SI, "i": T.Int, "j": T.Int, "c": T.Int},
        requires=["all(xs[q] >= c for q in range(len(xs)))", "0 <= i", "i <= j", "j <= len(xs)"],
        ensures=[("lower", "psum(xs, j) - psum(xs, i) >= c * (j - i)")],
        loops={0: dict(invariant=["i <= k", "k <= j", "psum(xs, k) - psum(xs, i) >= c * (k - i)"],
                       begin=["assert_(psum(xs, k + 1) == psum(xs, k) + xs[k], 'unfold')"])},
    ),
    Contract(
        MODULE, "lemma_psum_ext",
        params={"xs": SI, "ys": SI, "n": T.Int},
        requires=["all(xs[q] == ys[q] for q in range(n))", "0 <= n"],
        ensures=[("ext", "psum(xs, n) == psum(ys, n)")],
        loops={0: dict(invariant=["0 <= k", "k <= n", "psum(xs, k) == psum(ys, k)"],
                       begin=["assert_(psum(xs, k + 1) == psum(xs, k) + xs[k], 'unfold-x')",
                              "assert_(psum(ys, k + 1) == psum(ys, k) + ys[k], 'unfold-y')"])},
    ),
]

CONTRACTS.append(Contract(
    MODULE, "lemma_ceil_div",
    params={"n": T.Int, "c": T.Int},
    requires=["c >= 1", "n >= 0"],
    ensures=[("covers", "-(n // -c) * c >= n"), ("tight", "(-(n // -c) - 1) * c < n"),
             ("pos", "implies(n >= 1, -(n // -c) >= 1)"), ("zero", "implies(n == 0, -(n // -c) == 0)")],
    note="nonlinear: discharged in isolation (the caller sees // with a symbolic divisor as uninterpreted)",
))

CONTRACTS.append(Contract(
    MODULE, "lemma_divmod",
    params={"d": T.Int, "b": T.Int},
    requires=["b >= 1", "d >= 0"],
    ensures=[("euclid", "d == b * (d // b) + d % b"), ("range", "0 <= d % b and d % b < b"), ("quot", "d // b >= 0"), ("quot-le", "d // b <= d")],
    note="nonlinear: discharged in isolation",
))
CONTRACTS.append(Contract(
    MODULE, "lemma_psum_const",
    params={"xs": SI, "n": T.Int, "c": T.Int},
    requires=["all(xs[q] == c for q in range(n))", "0 <= n"],
    ensures=[("const", "psum(xs, n) == c * n")],
    loops={0: dict(invariant=["0 <= k", "k <= n", "psum(xs, k) == c * k"],
                   begin=["assert_(psum(xs, k + 1) == psum(xs, k) + xs[k], 'unfold')"])},
))
CONTRACTS.append(Contract(
    MODULE, "lemma_tiling",
    params={"b": SI, "j": T.Int},
    locals={"i": T.Int},
    returns=T.Int,
    requires=["len(b) >= 2", "all(b[q] <= b[q + 1] for q in range(len(b) - 1))", "b[0] <= j", "j < b[len(b) - 1]"],
    ensures=[("found", "0 <= result and result < len(b) - 1 and b[result] <= j and j < b[result + 1]")],
    loops={0: dict(invariant=["0 <= i", "i < len(b) - 1", "b[i] <= j"], decreases="len(b) - i")},
    note="every position lies in exactly one [b[i], b[i+1]): boundaries tile the range (existence; uniqueness is monotonicity)",
))

CONTRACTS.append(Contract(
    MODULE, "lemma_divmod_any",
    params={"d": T.Int, "b": T.Int},
    requires=["b >= 1"],
    ensures=[("euclid", "d == b * (d // b) + d % b"), ("range", "0 <= d % b and d % b < b"), ("sign", "implies(d < 0, d // b <= 0 - 1) and implies(d >= 0, d // b >= 0)")],
    note="floor division by a positive divisor, any dividend; nonlinear: discharged in isolation",
))

CONTRACTS.append(Contract(
    MODULE, "lemma_divmod_negdiv",
    params={"d": T.Int, "b": T.Int},
    requires=["b <= 0 - 1"],
    ensures=[("euclid", "d == b * (d // b) + d % b"), ("range", "b < d % b and d % b <= 0"), ("sign", "implies(d > 0, d // b <= 0 - 1) and implies(d <= 0, d // b >= 0)")],
    note="Python floor division by a negative divisor (the remainder takes the divisor's sign); nonlinear: discharged in isolation",
))

_ID = lambda m: f"(({m}) * c + (({m}) if ({m}) < r else r))"
CONTRACTS.append(Contract(
    MODULE, "lemma_ideal_mono",
    params={"a": T.Int, "b": T.Int, "c": T.Int, "r": T.Int},
    requires=["0 <= a", "a <= b", "c >= 0"],
    ensures=[("monotone", f"{_ID('a')} <= {_ID('b')}"), ("strict", f"implies(a < b, {_ID('a')} + c <= {_ID('b')})")],
    note="nonlinear ((b - a) * c >= 0): discharged in isolation; m*c + min(m, r) is the sum of the first m chunk sizes c + [j < r]",
))

LEMMA_FUNCS = {c.name: FuncVal(c.name, "contract", c) for c in CONTRACTS}


def setup(eng):
    pass
