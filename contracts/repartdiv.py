"""Contracts for RepartitionDivisions._layer (dask/dataframe/dask_expr/_repartition.py, C44, divisions clause).

The method merges the old divisions `a` and the new divisions `b` in two phases:

  phase 1 ("splits")  cuts every old partition at the new division values: split q is
                      (boundary_slice, (name, src_q), c[q], c[q+1], False) -- the rows of old partition src_q whose
                      index lies in [c[q], c[q+1]) -- and `c` is the merged list of cut points;
  phase 2 ("outputs") concatenates, for every new partition, the consecutive splits that fall between its divisions.

Division values are modelled as integers (any totally ordered label type; the code only compares them).  The contracts
cover force=False (the default: both ends of the old and the new divisions agree).  force=True is NOT covered (bounded
native sweep only; it has a recorded finding there).

Fragments are extracted mechanically from the method body on every run; the nested helper `_is_single_last_div` has
its own contract.
"""
import ast

import z3

from vf import ty as T
from vf.core import SV
from vf.engine import Contract

MODULE = "dask/dataframe/dask_expr/_repartition.py"
SI = T.Seq(T.Int)
Name = T.U("Name")
PKey = T.Tup(Name, T.Int)
Fn_ = T.U("Fn")
SliceT = T.Tup(Fn_, PKey, T.Int, T.Int, T.Bool)
ConcatT = T.Tup(Fn_, T.Seq(PKey))
DivTask = T.Union("DivTask", {"slice": SliceT, "alias": PKey, "concat": ConcatT})
DDsk = T.Map(PKey, DivTask)
Methods = T.Rec("MethodsModule", {"boundary_slice": Fn_, "concat": Fn_})

single_last = Contract(
    MODULE, "RepartitionDivisions._layer._is_single_last_div",
    params={"x": SI}, returns=T.Bool,
    ensures=[("definition", "result == (len(x) >= 2 and x[len(x) - 1] == x[len(x) - 2])")],
)


def _body_from(body, start_text, nth=0):
    hits = [i for i, s_ in enumerate(body) if ast.unparse(s_).startswith(start_text)]
    assert len(hits) > nth, f"statement `{start_text}` not found: contract no longer lines up"
    return hits[nth]


def phase1(body):
    """From `c = [a[0]]` to the end of the `if a[-1] < b[-1] or b[-1] == b[-2]: ... else: ...` statement (everything
    before the comment `# replace last element of tuple with True`), without the nested def, followed by a synthesised
    `return (c, d, k)`."""
    lo = _body_from(body, "c = [a[0]]")
    hi = _body_from(body, "if a[-1] < b[-1] or b[-1] == b[-2]")
    stmts = [s_ for s_ in body[lo:hi + 1] if not isinstance(s_, ast.FunctionDef)]
    r = ast.parse("return (c, d, k)").body[0]
    ast.copy_location(r, body[hi])
    return stmts + [ast.fix_missing_locations(r)]


_SORTED = "forall(lambda p, q: implies(0 <= p and p <= q and q < len({x}), {x}[p] <= {x}[q]))"
_REQ = [
    ("at-least-one-old-and-one-new-partition", "len(a) >= 2 and len(b) >= 2"),
    ("old-divisions-sorted", _SORTED.format(x="a")),
    ("new-divisions-sorted", _SORTED.format(x="b")),
    ("force-off: both ends agree (checked by the code just before)", "a[0] == b[0] and a[len(a) - 1] == b[len(b) - 1]"),
    ("two-graph-names", "out1 != name"),
]


def _splits(d, c, k):
    return (f"forall(lambda q: implies(0 <= q and q < {k}, sp_is({d}, out1, q, methods.boundary_slice, name) and sp_lo({d}, out1, q) == {c}[q] and sp_hi({d}, out1, q) == {c}[q + 1]"
            f" and not sp_closed({d}, out1, q) and 0 <= sp_src({d}, out1, q) and sp_src({d}, out1, q) <= len(a) - 2"
            f" and a[sp_src({d}, out1, q)] <= {c}[q] and {c}[q] <= {c}[q + 1] and {c}[q + 1] <= a[sp_src({d}, out1, q) + 1]))")


def _only(d, k):
    return f"forall(lambda key: implies(key in {d}.keys(), key[0] == out1 and 0 <= key[1] and key[1] < {k}), PKeyT)"


def _chain(d, c, k):
    return (f"forall(lambda q: implies(0 <= q and q < {k} - 1, sp_src({d}, out1, q + 1) == sp_src({d}, out1, q) or "
            f"(sp_src({d}, out1, q + 1) == sp_src({d}, out1, q) + 1 and {c}[q + 1] == a[sp_src({d}, out1, q + 1)])))")


def _nob(c, k):
    return f"forall(lambda q, jj: implies(0 <= q and q < {k} and 0 <= jj and jj < len(b), not ({c}[q] < b[jj] and b[jj] < {c}[q + 1])))"


def _csorted(c):
    return f"forall(lambda p, q: implies(0 <= p and p <= q and q < len({c}), {c}[p] <= {c}[q]))"


_INV_COMMON = [
    ("cut-points-sorted", _csorted("c")),
    ("C44-every-split-reads-a-range-inside-one-old-partition", _splits("d", "c", "k")),
    ("only-splits-in-the-graph", _only("d", "k")),
    ("C44-splits-walk-the-old-partitions-in-order-and-change-partition-only-at-its-boundary", _chain("d", "c", "k")),
    ("C44-no-new-division-falls-strictly-inside-a-split", _nob("c", "k")),
    ("first-split-starts-at-the-first-old-partition", "c[0] == a[0] and implies(k >= 1, sp_src(d, out1, 0) == 0)"),
]

splits = Contract(
    MODULE, "RepartitionDivisions._layer[splits]", source="RepartitionDivisions._layer",
    fragment=phase1,
    params={"a": SI, "b": SI, "name": Name, "out1": Name, "methods": Methods, "force": T.Bool},
    locals={"c": SI, "d": DDsk, "low": T.Int, "i": T.Int, "j": T.Int, "k": T.Int, "last_elem": T.Bool, "m": T.Int},
    returns=T.Tup(SI, DDsk, T.Int),
    requires=_REQ + [("force-off", "not force")],
    ensures=[
        ("at-least-one-split; the cut list has one or two more entries than there are splits", "result[2] >= 1 and (len(result[0]) == result[2] + 1 or len(result[0]) == result[2] + 2)"),
        ("C44-every-split-reads-a-range-inside-one-old-partition", _splits("result[1]", "result[0]", "result[2]")),
        ("only-splits-in-the-graph", _only("result[1]", "result[2]")),
        ("C44-splits-walk-the-old-partitions-in-order-and-change-partition-only-at-its-boundary", _chain("result[1]", "result[0]", "result[2]")),
        ("C44-no-new-division-falls-strictly-inside-a-split", _nob("result[0]", "result[2]")),
        ("cut-points-sorted", _csorted("result[0]")),
        ("C44-splits-start-at-the-first-and-end-at-the-last-old-division",
         "result[0][0] == a[0] and sp_src(result[1], out1, 0) == 0 and sp_src(result[1], out1, result[2] - 1) == len(a) - 2 and result[0][result[2]] == a[len(a) - 1]"
         " and result[0][len(result[0]) - 1] == a[len(a) - 1]"),
    ],
    loops={
        0: dict(decreases="(len(a) - i) + (len(b) - j)", invariant=[
            ("ranges", "1 <= i and i <= len(a) and 1 <= j and j <= len(b) and k >= 0 and len(c) == k + 1 and c[k] == low"),
            ("low-lies-in-the-current-old-and-new-partition",
             "a[i - 1] <= low and implies(i < len(a), low <= a[i]) and implies(j < len(b), low <= b[j]) and b[j - 1] <= low"),
            ("the-old-divisions-end-first", "implies(j == len(b), i == len(a)) and implies(i == len(a), low == a[len(a) - 1])"),
            ("the-next-split-continues-the-last-one",
             "implies(k == 0, i == 1) and implies(k >= 1, sp_src(d, out1, k - 1) == i - 1 or (sp_src(d, out1, k - 1) == i - 2 and low == a[i - 1]))"),
        ] + _INV_COMMON),
        1: dict(index="jx", invariant=[
            ("ranges", "k >= 1 and len(c) == k + 1 and c[k] == low and i == len(a) and low == a[len(a) - 1]"),
            ("the-last-split-reads-the-last-old-partition", "sp_src(d, out1, k - 1) == len(a) - 2"),
        ] + _INV_COMMON),
    },
    note="force=False only; division values modelled as integers",
)



# ---------------------------------------------------------------------------------------------------------------
# phase 2: the last split is closed on the right, then every new partition concatenates its run of splits
def phase2(body):
    """From `d[(out1, k - 1)] = d[(out1, k - 1)][:-1] + (True,)` to the end of the method."""
    lo = _body_from(body, "d[out1, k - 1] = d[out1, k - 1][:-1] + (True,)")
    return list(body[lo:])


# what phase 1 establishes (the ensures of `splits`, with its result named c, d, k) is what phase 2 may rely on
_FROM_PHASE1 = [(lab, src.replace("result[0]", "c").replace("result[1]", "d").replace("result[2]", "k")) for lab, src in splits.ensures]

_FORM = ("(implies({e} - {s} == 0, out_is_dummy({d}, out2, {jo}, methods.boundary_slice, name, a[0]))"
         " and implies({e} - {s} == 1, out_is_alias({d}, out2, {jo}, out1, {s}))"
         " and implies({e} - {s} >= 2, out_is_concat({d}, out2, {jo}, methods.concat) and len(out_list({d}, out2, {jo})) == {e} - {s}"
         " and forall(lambda t: implies(0 <= t and t < {e} - {s}, out_list({d}, out2, {jo})[t] == (out1, {s} + t)))))")


def _outputs(d, upto):
    return ("forall(lambda jo: implies(0 <= jo and jo < " + upto + ", out_has(" + d + ", out2, jo) and "
            + _FORM.format(d=d, jo="jo", s="ST[jo]", e="ST[jo + 1]") + "))")


def _inside(upto):
    return f"forall(lambda jo, q: implies(0 <= jo and jo < {upto} and ST[jo] <= q and q < ST[jo + 1], b[jo] <= c[q] and c[q + 1] <= b[jo + 1]))"


def _kept(d):
    return (f"forall(lambda q: implies(0 <= q and q < k - 1, out_has({d}, out1, q) and same_task({d}, D0, out1, q)))"
            f" and sp_is({d}, out1, k - 1, methods.boundary_slice, name) and sp_closed({d}, out1, k - 1) and sp_lo({d}, out1, k - 1) == c[k - 1] and sp_hi({d}, out1, k - 1) == c[k]"
            f" and sp_src({d}, out1, k - 1) == len(a) - 2")


_RUN = [
    ("this-run", "ST[j - 1] <= i and i <= k and i < len(c) and len(tmp) == i - ST[j - 1] and forall(lambda t: implies(0 <= t and t < len(tmp), tmp[t] == (out1, ST[j - 1] + t)))"),
    ("C44-the-run-lies-inside-the-new-partition", "forall(lambda q: implies(ST[j - 1] <= q and q < i, b[j - 1] <= c[q] and c[q + 1] <= b[j])) and b[j - 1] <= c[i]"),
    ("outer", "1 <= j and j < len(b) and len(ST) == j and ST[0] == 0"),
    ("runs-are-consecutive", "forall(lambda t: implies(0 <= t and t < j - 1, ST[t] <= ST[t + 1]))"),
    ("C44-finished-outputs", _outputs("d", "j - 1")),
    ("C44-finished-runs-lie-inside-their-new-partitions", _inside("j - 1")),
    ("splits-untouched", _kept("d")),
    ("only-splits-and-finished-outputs", "forall(lambda key: implies(key in d.keys(), (key[0] == out1 and 0 <= key[1] and key[1] < k) or (key[0] == out2 and 0 <= key[1] and key[1] < j - 1)), PKeyT)"),
]

outputs = Contract(
    MODULE, "RepartitionDivisions._layer[outputs]", source="RepartitionDivisions._layer",
    fragment=phase2,
    params={"a": SI, "b": SI, "c": SI, "d": DDsk, "k": T.Int, "name": Name, "out1": Name, "out2": Name, "methods": Methods},
    locals={"i": T.Int, "j": T.Int, "last_elem": T.Bool, "tmp": T.Seq(PKey), "ST": SI, "D0": DDsk},
    returns=DDsk,
    requires=_REQ + _FROM_PHASE1 + [("three-graph-names", "out2 != out1 and out2 != name")],
    ensures=[
        ("C44-one-output-per-new-partition-built-from-a-run-of-consecutive-splits", "len(ST) == len(b) and ST[0] == 0 and " + _outputs("result", "len(b) - 1")),
        ("C44-runs-are-consecutive-and-use-every-split-exactly-once", "forall(lambda t: implies(0 <= t and t < len(b) - 1, ST[t] <= ST[t + 1])) and ST[len(b) - 1] == k"),
        ("C44-every-run-lies-inside-its-new-partition", _inside("len(b) - 1")),
        ("C44-splits-kept-and-the-last-one-closed-on-the-right", _kept("result")),
        ("nothing-else-in-the-graph", "forall(lambda key: implies(key in result.keys(), (key[0] == out1 and 0 <= key[1] and key[1] < k) or (key[0] == out2 and 0 <= key[1] and key[1] < len(b) - 1)), PKeyT)"),
    ],
    ghost=[
        ("after", "d[out1, k - 1] = d[out1, k - 1][:-1] + (True,)", "D0 = d"),
        ("before", "while j < len(b)", "ST = [0]"),
        ("after", "j += 1", "ST = ST + [i]"),
        ("before", "if len(tmp) == 0", "assert_(implies(j == len(b) - 1 and i < k, c[i] == b[len(b) - 1] and c[k - 1] == c[k] and last_elem), 'a-split-left-over-would-have-been-taken')"),
    ],
    loops={
        0: dict(decreases="len(b) - j", invariant=[
            ("outer", "1 <= j and j <= len(b) and len(ST) == j and ST[0] == 0 and ST[j - 1] == i and 0 <= i and i <= k"),
            ("runs-are-consecutive", "forall(lambda t: implies(0 <= t and t < j - 1, ST[t] <= ST[t + 1]))"),
            ("the-next-run-starts-at-its-lower-division", "implies(j < len(b), b[j - 1] <= c[i] and (i == 0 or c[i - 1] < b[j - 1]))"),
            ("C44-finished-outputs", _outputs("d", "j - 1")),
            ("C44-finished-runs-lie-inside-their-new-partitions", _inside("j - 1")),
            ("C44-all-splits-used-at-the-end", "implies(j == len(b), i == k)"),
            ("splits-untouched", _kept("d")),
            ("only-splits-and-finished-outputs", "forall(lambda key: implies(key in d.keys(), (key[0] == out1 and 0 <= key[1] and key[1] < k) or (key[0] == out2 and 0 <= key[1] and key[1] < j - 1)), PKeyT)"),
            ("last-flag", "last_elem == (c[len(c) - 1] == c[len(c) - 2])"),
        ]),
        1: dict(decreases="len(c) - i", invariant=_RUN + [
            ("no-cut-skipped", "i == ST[j - 1] or c[i - 1] < b[j]"),
            ("carried", "i > ST[j - 1] or i == 0 or c[i - 1] < b[j - 1]"),
            ("last-flag", "last_elem == (c[len(c) - 1] == c[len(c) - 2])"),
        ]),
        2: dict(decreases="k - i", invariant=_RUN + [
            ("everything-below-the-division-is-taken", "c[i] >= b[j]"),
            ("the-last-element-run-is-only-taken-by-the-last-output", "c[i] < b[len(b) - 1] or b[len(b) - 1] == b[len(b) - 2] or j == len(b) - 1"),
            ("what-the-first-scan-left", "j == len(b) - 1 or ((i == ST[j - 1] or c[i - 1] < b[j]) and (i > ST[j - 1] or i == 0 or c[i - 1] < b[j - 1]))"),
            ("last-flag", "last_elem == (c[len(c) - 1] == c[len(c) - 2])"),
        ]),
    },
    note="force=False only; relies on the ensures of the [splits] fragment (same text)",
)

CONTRACTS = [single_last, splits, outputs]



# ---- spec functions over the graph
def _key(name, q, eng):
    return PKey.mk(name.t, eng.to_int(q))


def _val(d, name, q, eng):
    return z3.Select(DDsk.valarr(d.t), _key(name, q, eng))


def spec_sp_is(eng, st, d, out1, q, fn, name):
    v = _val(d, out1, q, eng)
    s_ = DivTask.proj("slice", v)
    return SV(z3.And(z3.Select(DDsk.dom(d.t), _key(out1, q, eng)), DivTask.is_("slice", v), SliceT.get(s_, 0) == fn.t, PKey.get(SliceT.get(s_, 1), 0) == name.t), T.Bool)


def _field(i, ty):
    def f(eng, st, d, out1, q):
        return SV(SliceT.get(DivTask.proj("slice", _val(d, out1, q, eng)), i), ty)
    return f


def spec_sp_src(eng, st, d, out1, q):
    return SV(PKey.get(SliceT.get(DivTask.proj("slice", _val(d, out1, q, eng)), 1), 1), T.Int)


def spec_out_has(eng, st, d, out, q):
    return SV(z3.Select(DDsk.dom(d.t), _key(out, q, eng)), T.Bool)


def spec_out_is_dummy(eng, st, d, out2, jo, fn, name, a0):
    v = _val(d, out2, jo, eng)
    return SV(z3.And(DivTask.is_("slice", v), DivTask.proj("slice", v) == SliceT.mk(fn.t, PKey.mk(name.t, z3.IntVal(0)), a0.t, a0.t, z3.BoolVal(False))), T.Bool)


def spec_out_is_alias(eng, st, d, out2, jo, out1, q):
    v = _val(d, out2, jo, eng)
    return SV(z3.And(DivTask.is_("alias", v), DivTask.proj("alias", v) == _key(out1, q, eng)), T.Bool)


def spec_out_is_concat(eng, st, d, out2, jo, fn):
    v = _val(d, out2, jo, eng)
    return SV(z3.And(DivTask.is_("concat", v), ConcatT.get(DivTask.proj("concat", v), 0) == fn.t), T.Bool)


def spec_out_list(eng, st, d, out2, jo):
    return SV(ConcatT.get(DivTask.proj("concat", _val(d, out2, jo, eng)), 1), T.Seq(PKey))


def spec_same_task(eng, st, d, d0, out, q):
    return SV(_val(d, out, q, eng) == _val(d0, out, q, eng), T.Bool)


def setup(eng):
    from vf.core import FuncVal
    eng.spec_types["PKeyT"] = PKey
    eng.spec_funcs["sp_is"] = spec_sp_is
    eng.spec_funcs["sp_src"] = spec_sp_src
    eng.spec_funcs["sp_lo"] = _field(2, T.Int)
    eng.spec_funcs["sp_hi"] = _field(3, T.Int)
    eng.spec_funcs["sp_closed"] = _field(4, T.Bool)
    eng.spec_funcs["out_has"] = spec_out_has
    eng.spec_funcs["out_is_dummy"] = spec_out_is_dummy
    eng.spec_funcs["out_is_alias"] = spec_out_is_alias
    eng.spec_funcs["out_is_concat"] = spec_out_is_concat
    eng.spec_funcs["out_list"] = spec_out_list
    eng.spec_funcs["same_task"] = spec_same_task
    eng.funcs["_is_single_last_div"] = FuncVal("_is_single_last_div", "contract", single_last)
