"""Contract for dask/dataframe/io/io.py:sorted_division_locations (C45).

Index values are modelled as Int: the function only uses <, <=, == and hashing on them.
The module cannot be imported here (pyarrow missing): verified text = AST of the source file.
"""
from vf import ty as T
from vf.core import FuncVal
from vf.engine import Contract

MODULE = "dask/dataframe/io/io.py"
SI = T.Seq(T.Int)
OI = T.Opt(T.Int)

chunksizes = Contract(
    MODULE, "sorted_division_locations.chunksizes",
    params={"ind": T.Int},
    free={"chunksize": OI, "residual": T.Int},
    returns=T.Int,
    requires=[("chunksize-set", "chunksize is not None")],
    ensures=[("value", "result == chunksize + (1 if ind < residual else 0)")],
)

def IDEAL(m):
    """row at which division number m would start if every step had its ideal size (chunksizes(0) + ... + chunksizes(m-1))"""
    return f"(({m}) * chunksize + (({m}) if ({m}) < residual else residual))"


# EX: the case in which the property demands exactly npartitions partitions
EX = "npartitions is not None and NU >= npartitions"
COUNT_INV = [
    ("exact-facts", f"implies({EX}, chunksize is not None and chunksize >= 1 and residual >= 0 and residual < npartitions and chunksize * npartitions + residual == len(seq) and subtract_drift)"),
    ("count-upper", f"implies({EX}, len(divisions) <= npartitions)"),
    ("C45-location-is-ideal-position-plus-drift", f"implies({EX}, locations[len(locations) - 1] == {IDEAL('len(divisions) - 1')} + drift)"),
    ("C45-loop-ends-exactly-when-npartitions-divisions-exist", f"implies({EX}, (i < len(seq)) == (len(divisions) < npartitions))"),
    ("enforce", f"implies(({EX}) and duplicates, enforce_exact)"),
    ("last-unique", f"implies(({EX}) and duplicates, 0 <= LASTU and LASTU < len(seq_unique) and seq_unique[LASTU] == divisions[len(divisions) - 1])"),
    ("C45-enough-distinct-values-left", f"implies(({EX}) and duplicates, divs_remain <= len(offsets) - 1 - LASTU)"),
    ("no-duplicates-no-drift", f"implies(({EX}) and not duplicates, drift == 0 and i == {IDEAL('len(divisions)')})"),
]

INV = [
    ("shape", "len(divisions) == len(locations) and len(locations) >= 1 and locations[0] == 0 and divisions[0] == seq[0]"),
    ("C45-division-is-value-at-location", "all(0 <= locations[j] and locations[j] < len(seq) and divisions[j] == seq[locations[j]] for j in range(len(locations)))"),
    ("C45-strictly-increasing", "forall(lambda a, b: implies(0 <= a and a < b and b < len(locations), locations[a] < locations[b] and divisions[a] < divisions[b]))"),
    ("C45-no-straddling", "all(locations[j] == 0 or seq[locations[j] - 1] < seq[locations[j]] for j in range(len(locations)))"),
    ("i-nonneg", "i >= 0"),
    ("ind-cache", "implies(duplicates and ind is not None, 0 <= ind and ind <= len(offsets) and (i == offsets[ind] if ind < len(offsets) else i == len(seq)))"),
    ("ind-none-without-duplicates", "implies(not duplicates, ind is None)"),
    ("divs-remain", "implies(enforce_exact, divs_remain is not None and divs_remain == npartitions - len(divisions))"),
] + COUNT_INV

OFFSET_FACTS = (
    'assert_(all(0 <= offsets[q] and offsets[q] < len(seq) and seq[offsets[q]] == seq_unique[q] for q in range(len(seq_unique))), "offset-points-at-its-value")\n'
    'assert_(all(offsets[q] == 0 or seq[offsets[q] - 1] < seq_unique[q] for q in range(len(seq_unique))), "offset-is-first-occurrence")\n'
    'assert_(len(offsets) == len(seq_unique), "offsets-len")\n'
)

sdl = Contract(
    MODULE, "sorted_division_locations",
    params={"seq": SI, "npartitions": OI, "chunksize": OI},
    defaults={"npartitions": "None", "chunksize": "None"},
    locals={"seq_unique": T.Opt(SI), "offsets": T.Opt(SI), "ind": OI, "divs_remain": OI, "divisions": SI, "locations": SI,
            "residual": T.Int, "drift": T.Int, "NU": T.Int, "LASTU": T.Int, "i": T.Int, "pos": T.Int, "div": T.Int, "enforce_exact": T.Bool, "duplicates": T.Bool, "subtract_drift": T.Bool},
    returns=T.Tup(SI, SI),
    requires=[
        ("nonempty", "len(seq) >= 1"),
        ("sorted", "all(seq[a] <= seq[a + 1] for a in range(len(seq) - 1))"),
        ("npartitions", "npartitions is None or npartitions >= 1"),
        ("chunksize", "chunksize is None or chunksize >= 1"),
    ],
    axioms=["forall(lambda a, b: implies(0 <= a and a <= b and b < len(seq), seq[a] <= seq[b]))"],
    ensures=[
        ("shape", "len(result[0]) == len(result[1]) and len(result[1]) >= 2"),
        ("C45-from-0-to-len", "result[1][0] == 0 and result[1][len(result[1]) - 1] == len(seq)"),
        ("C45-locations-strictly-increase", "all(result[1][j] < result[1][j + 1] for j in range(len(result[1]) - 1))"),
        ("C45-division-is-value-at-location", "all(result[0][j] == seq[result[1][j]] for j in range(len(result[1]) - 1)) and result[0][len(result[0]) - 1] == seq[len(seq) - 1]"),
        ("C45-equal-values-never-straddle", "all(seq[result[1][j] - 1] < seq[result[1][j]] for j in range(1, len(result[1]) - 1))"),
        ("C45-npartitions-met-exactly-when-enough-distinct-values", "implies(npartitions is not None and len(set(seq)) >= npartitions, len(result[1]) - 1 == npartitions)"),
    ],
    raises=[("ValueError", "(npartitions is None) == (chunksize is None)", "exactly-one")],
    loops={0: dict(invariant=INV, decreases=("len(seq) - locations[len(locations) - 1]", "len(seq) - i"))},
    ghost=[
        ("after", "seq_unique = sorted(set(seq))", 'NU = len(seq_unique)\nLASTU = 0\nassert_(NU == len(set(seq)), "NU-is-the-number-of-distinct-values")\nassert_(seq_unique[0] == seq[0], "smallest-value-first")'),
        ("after", "locations.append(pos)", "if duplicates:\n    LASTU = ind\nif npartitions is not None and NU >= npartitions and len(divisions) <= npartitions - 1:\n    lemma_ideal_mono(len(divisions), npartitions - 1, chunksize, residual)\nif npartitions is not None and NU >= npartitions and len(divisions) == npartitions:\n    assert_((npartitions - 1) * chunksize + residual + chunksize == len(seq), \"ideal-end\")\n    assert_(i >= len(seq), \"the-step-after-the-last-division-reaches-the-end\")"),
        ("after", "offsets = [bisect.bisect_left(seq, x)", OFFSET_FACTS),
        ("after", "if ind is None:", 'assert_(implies(duplicates, seq[i] in seq_unique), "value-is-among-the-unique-values")\nassert_(implies(duplicates, ind is not None and 0 <= ind and ind < len(seq_unique) and seq_unique[ind] == seq[i]), "ind-finds-the-value")'),
        ("after", "chunksize = len(seq) // npartitions", "lemma_divmod(len(seq), npartitions)"),
        ("before", "if div <= divisions[-1]:", 'assert_(0 <= pos and pos < len(seq) and seq[pos] == div and (pos == 0 or seq[pos - 1] < seq[pos]), "pos-is-first-occurrence-of-div")'),
        ("before", "divisions.append(div)", 'assert_(pos > locations[len(locations) - 1], "new-location-is-beyond-the-last")'),
    ],
    note="`axioms`: transitive form of the sortedness precondition (a lemma proved as lemma_sorted_trans); the while loop terminates (lexicographic `decreases`)",
)

CONTRACTS = [chunksizes, sdl]


def setup(eng):
    from contracts.lemmas import LEMMA_FUNCS
    eng.funcs.update(LEMMA_FUNCS)
    eng.uninterp_divmod = True
    eng.funcs["tolist"] = FuncVal("tolist", "model", lambda e, st, node, want: e.ev(node.args[0], st))
